"""C18 — convolution, kernels and special-function approximations (PARTIAL by design, DESIGN.md 5.18):
pewlib.process.convolve against PewModel/Convolve.lean.

Proved and modelled exactly over Rat: pad-mode convolution, series division (what the FFT quotient equals when
nothing wraps) followed by Python's slice [: len c - len psf - 1] (negative stops included), linspace, normalisation
and stacking, the rational erf approximation, the gamma polynomial + recursion, the triangular generator (completely),
erfinv as coded around pi / log1p / sqrt (the driver evaluates it with math.log1p's value and a 30-digit rational
square root).  NOT proved: the numerical accuracy of erf/erfinv/gamma against the true functions and the
finiteness/positivity of the exp/log/power densities - these are validated numerically here against the standard
library (math.erf, statistics.NormalDist().inv_cdf, math.gamma) with the property's tolerances."""
import math
import random
import sys
from fractions import Fraction
from statistics import NormalDist

import numpy as np

from harness import core
from harness.core import Prop, outcome, unrat

ND = NormalDist()
ERF_ABS, ERFINV_REL, GAMMA_REL = 5e-4, 6e-3, 3e-7
UNDERFLOW = 1e-160          # known finding C18-erfinv-underflow: x*x underflows below this


def erfinv_true(x: float) -> float:
    """reference inverse error function from the standard library's normal quantile, arranged so that neither
    tiny |x| nor |x| close to 1 loses accuracy (relative error << 1e-6 everywhere on (-1, 1))"""
    ax = abs(x)
    if ax == 0.0:
        return 0.0
    if ax < 1e-6:
        r = math.sqrt(math.pi) / 2 * (ax + math.pi / 12 * ax ** 3)
    elif ax <= 0.5:
        r = ND.inv_cdf((1 + ax) / 2) / math.sqrt(2)
    else:
        r = -ND.inv_cdf(float((1 - Fraction(ax)) / 2)) / math.sqrt(2)
    return math.copysign(r, x)


def fl(q) -> float:
    return float(unrat(q))


def near(a: float, b: float, rel: float, abs_: float = 0.0) -> bool:
    if math.isnan(a) or math.isnan(b) or math.isinf(a) or math.isinf(b):
        return a == b
    return abs(a - b) <= max(abs_, rel * max(abs(a), abs(b)))


def chunks(xs, k=96):
    for i in range(0, len(xs), k):
        yield xs[i:i + k]


# ---------------------------------------------------------------------------- deterministic dense grids
def erf_grid():
    xs = [i / 64 for i in range(-6 * 64, 6 * 64 + 1)]
    for v in (1e-300, 1e-12, 1e-6, 1e-3, 0.7543, 8.0, 10.0, 100.0, 1e6, 1e80, 1e200, 1.7e308):
        xs += [v, -v]
    xs += [0.0, -0.0]
    return xs


def erfinv_grid():
    xs = [i / 1000 for i in range(-999, 1000)]
    for k in range(1, 100):
        for m in (1.0, 3.7):
            xs += [m * 10.0 ** -k, -m * 10.0 ** -k]
    for k in range(1, 16):
        for m in (1, 2, 5, 7):
            v = 1 - m * 10.0 ** -k
            if 0 < v < 1:
                xs += [v, -v]
    xs += [math.nextafter(1.0, 0.0), -math.nextafter(1.0, 0.0), 0.0]
    for k in (2, 3, 4, 5, 7, 8, 16, 31, 32, 33, 64, 1000, 2 ** 20, 2 ** 26, 2 ** 27):          # 1 - k ulp
        xs += [1.0 - k * 2.0 ** -53, -(1.0 - k * 2.0 ** -53)]
    return xs


def gamma_grid():
    xs = [i / 100 for i in range(1, 3001)]
    xs += [float(i) for i in range(1, 31)]
    xs += [i / 1000 for i in range(1, 1000, 7)]
    for i in range(1, 30):
        xs += [math.nextafter(float(i), 0.0), math.nextafter(float(i), 100.0), i + 1e-9, i + 0.5]
    xs += [1e-3, 1e-4, 1e-6, 1e-9]
    xs += [10.0 ** -k for k in (12, 15, 20, 50, 100, 200, 300, 307)] + [3.7e-155, 2.5e-308, 6e-309]   # 1 / x up to 1.7e308
    return xs


POS_KERNELS = ("exponential", "inversegamma", "loglaplace", "lognormal")
SYM_KERNELS = ("laplace", "normal", "super_gaussian", "triangular")
# container dtypes of the dtype class (C18 quantifies over signals and kernels, not over float64 arrays only)
DTYPES = ["int32", "int64", "uint8", "float32", "float64"]
KERNEL_TOL = 1e-8           # |weight - modelled weight| (weights lie in [0, 1]; the float axis is within an ulp of the exact one)
TOL64, TOL32 = 1e-8, 1e-4   # deconvolution tolerance (relative to 1 + max|x|); float32 anywhere: rfft works in complex64


def pow2(n: int) -> bool:
    return n > 0 and n & (n - 1) == 0


def dtype_domain(xdt, pdt, xq, pq):
    """The dtype class relies on an invariant: every sample is representable in its container dtype and every partial
    sum of products of the convolution is exact in numpy's result dtype (no integer wrap-around, no float rounding).
    Returns None when it holds, else the reason (the case is then outside the class: undetermined)."""
    try:
        xd, pd = np.dtype(xdt), np.dtype(pdt)
    except TypeError:
        return "unknown dtype"
    if not xq or not pq:
        return "empty"
    for d, vals in ((xd, xq), (pd, pq)):
        if d.kind in "iu":
            info = np.iinfo(d)
            if any(v.denominator != 1 or not info.min <= v <= info.max for v in vals):
                return f"sample not representable in {d}"
        elif d.kind == "f":
            mant = np.finfo(d).nmant + 1
            if any(not pow2(v.denominator) or abs(v.numerator) >= 2 ** mant for v in vals):
                return f"sample not representable in {d}"
        else:
            return "unsupported dtype"
    rd = np.result_type(xd, pd)
    bound = max(abs(v) for v in xq) * sum(abs(v) for v in pq)        # bounds every partial sum of products
    if rd.kind in "iu":
        if bound > np.iinfo(rd).max:
            return f"convolution may wrap in {rd}"
    else:
        den = max(v.denominator for v in xq) * max(v.denominator for v in pq)
        if bound * den >= 2 ** (np.finfo(rd).nmant + 1):
            return f"convolution not exact in {rd}"
    return None


KERNELS = ["beta", "exponential", "inversegamma", "laplace", "loglaplace", "lognormal", "normal", "super_gaussian",
           "triangular"]


# ---------------------------------------------------------------------------- argument / parameter types
# C18 quantifies over arguments (numbers), not over Python floats: the same number may reach erf / erfinv / gamma and
# the kernel generators as a Python int, a numpy integer scalar of any width / signedness, a single-precision scalar
# or a 0-d array.  A type name is "int", "float", a numpy scalar type, or "arr0:<dtype>" (0-d array).
NP_INTS = ["int8", "int16", "int32", "int64", "uint8", "uint16", "uint32", "uint64"]
ARG_TYPES = ["int", "float"] + NP_INTS + ["float32", "float64", "arr0:int64", "arr0:int32", "arr0:uint8", "arr0:float32",
                                          "arr0:float64"]
# a float32 argument: whether the approximation is then carried in single or in double precision is left open by the
# text (the documented argument type is `float`); the tolerances are widened by a single-precision rounding budget
# (~170 ulp of float32: a product of up to 29 factors, a 9-term polynomial, a quotient)
SINGLE_BUDGET = 1e-5
F32_TINY = 1.1e-19          # below this x*x is subnormal / zero in single precision (known finding C18-erfinv-underflow)
# parameter types of the kernel generators (unsigned numpy scalars are outside the class: `-_lambda`, `-size` wrap
# around by numpy's own rules) and the types the `size` argument is given in
PARAM_TYPES = ["int", "int64", "int32", "int16", "float32", "float64"]
SIZE_TYPES = ["int", "int64", "int32", "int16"]
PARAM_INT_MAX = 32          # integer-typed parameters are kept small: integer-only subexpressions stay in range


def ty_parse(ty):
    """(kind, numpy dtype or None, 0-d array?) of an argument-type name; kind is "pyint", "pyfloat", "i", "u" or "f";
    None if the name is outside the class"""
    if not isinstance(ty, str):
        return None
    if ty == "int":
        return "pyint", None, False
    if ty == "float":
        return "pyfloat", None, False
    arr0 = ty.startswith("arr0:")
    name = ty[5:] if arr0 else ty
    if name in NP_INTS or name in ("float32", "float64"):
        dt = np.dtype(name)
        return dt.kind, dt, arr0
    return None


def ty_integer(ty) -> bool:
    return ty_parse(ty)[0] in ("pyint", "i", "u")


def ty_unsigned(ty) -> bool:
    return ty_parse(ty)[0] == "u"


def ty_single(ty) -> bool:
    pr = ty_parse(ty)
    return pr is not None and pr[0] == "f" and pr[1].itemsize == 4


def ty_holds(ty, v: float) -> bool:
    """the number v is exactly representable in the type"""
    kind, dt, _ = ty_parse(ty)
    if not math.isfinite(v):
        return False
    if kind == "pyfloat":
        return True
    if kind == "pyint":
        return v == int(v) and abs(v) < 2.0 ** 63        # numpy takes a Python int only while it fits an integer dtype
    if kind in "iu":
        info = np.iinfo(dt)
        return v == int(v) and info.min <= int(v) <= info.max
    with np.errstate(all="ignore"):
        return float(dt.type(v)) == v


def ty_domain(ty, xs, both_signs=False):
    """None when every argument (and its negation, where the oddness check forms it) is representable in the
    argument type, else the reason: the case is then outside the class (undetermined)"""
    if ty_parse(ty) is None:
        return f"argument type {ty!r} outside the class"
    signed = not ty_unsigned(ty)
    for v in xs:
        if not ty_holds(ty, v) or (both_signs and signed and not ty_holds(ty, -v)):
            return f"argument not representable in {ty}"
    return None


def ty_make(ty):
    """number (a float holding a representable value) -> the typed argument"""
    kind, dt, arr0 = ty_parse(ty)
    if kind == "pyfloat":
        return float
    if kind == "pyint":
        return lambda v: int(v)
    py = (lambda v: int(v)) if kind in "iu" else float
    if arr0:
        return lambda v: np.array(py(v), dtype=dt)
    return lambda v: dt.type(py(v))


def ty_group(ty) -> str:
    kind, dt, arr0 = ty_parse(ty)
    if arr0:
        return "0-d-array"
    return {"pyint": "python-int", "pyfloat": "python-float", "i": "numpy-signed-integer", "u": "numpy-unsigned-integer",
            "f": "numpy-" + (dt.name if dt is not None else "")}[kind]


def to_single(xs):
    """the single-precision neighbours of a list of floats (distinct, finite)"""
    out, seen = [], set()
    for x in xs:
        with np.errstate(all="ignore"):
            v = float(np.float32(x))
        if math.isfinite(v) and v not in seen:
            seen.add(v)
            out.append(v)
    return out


# integer arguments of erf around the widths at which a power x**2 .. x**4 formed in integer arithmetic leaves
# int8 / int16 / int32 / int64 (4, 12, 14, 182, 216, 1291, 46341, 55109, 2097152, 3037000500, 2**31, 2**32)
ERF_INTS = [0, 1, 2, 3, 4, 5, 6, 7, 10, 11, 12, 13, 14, 15, 16, 31, 32, 100, 127, 128, 181, 182, 215, 216, 217, 255, 256,
            1000, 1290, 1291, 32767, 32768, 46340, 46341, 55108, 55109, 65535, 65536, 10 ** 6, 2097151, 2097152,
            2 ** 31 - 1, 2 ** 31, 2 ** 32 - 1, 2 ** 32, 3037000499, 3037000500, 2 ** 53]


class C18(Prop):
    id = "C18"
    anchored = ["src/pewlib/process/convolve.py"]
    cases = {"quick": 540, "thorough": 10800}
    rule = ("PARTIAL EVIDENCE. convolve: signals of length m..40 (dyadic values, incl. constant signals), kernels of every "
            "length 1..9 (odd and even; sum-to-one and arbitrary signed), compared exactly with the Lean mechanism and with the "
            "Lean specification (length, interior = ordinary convolution, constants reproduced). deconvolve: full "
            "convolutions of signals of length m..40 (the shortest ones n = m, m+1, m+2 included) with first-tap-dominant "
            "kernels (|p0| >= 1.5 sum|rest|), modes valid/same, tolerance 1e-8; ~45 % of the signals carry exactly zero "
            "samples (deconv:zero:*: leading, trailing, interior, runs, all-zero, a single non-zero sample, zeros in the two "
            "dropped trailing samples). MODEL-ONLY CLASSES, outside the property, counted as hypothesis_excluded: signals "
            "shorter than the kernel (deconv:n<m) and arbitrary input arrays that are not full convolutions, down to one "
            "sample (deconv-raw:*): the length always (Python's slice with a negative stop: r - (len psf + 1 - len c) of the "
            "r = next power of two coefficients), the values when the driver finds that the quotient terminates; kernel "
            "generators of size 1 (linspace(a, b, 1) = [a]). DTYPE CLASS (convolve:dtype / deconv:dtype, ~10 % + ~14 % of the generated cases plus 162 targeted): "
            "signal and kernel held in int32 / int64 / uint8 (non-negative) / float32 / float64 containers in every "
            "combination; convolve in pad mode against mechanism and specification and in the numpy modes full / valid / same "
            "against the Lean convolution, all exact; deconvolve (valid and same) applied to the full convolution that pewlib "
            "itself returns for the typed arrays (so integer signal x integer kernel gives an integer-dtype input), recovered "
            "samples compared with the original at 1e-8 (1e-4 when a float32 array takes part: numpy transforms it in single "
            "precision). Kernel generators: each of the 9 generators over its documented parameter domain with the axis "
            "inside the density's support (sizes 2..64, beta shapes >= 1 with >= 3 points, integer super-Gaussian powers, "
            "scales, shifts): size, axis (vs Lean linspace), finite, non-negative, |sum-1| <= 1e-9; every generator also "
            "weight by weight against the Lean model (triangular exactly over Rat; the other eight with the model's "
            "opaque exp / log / power / sqrt(2 pi) evaluated by the driver to 40 digits, |difference| <= 1e-8). BOUNDARY CLASS (kernel:boundary:*, ~14 % of the generated cases plus 170 targeted): "
            "parameters ON the limits of the documented domains with the density still finite on the axis - triangular with "
            "a == 0 or b == 0, support end points and the mode 0 exactly on the axis (odd sizes, shift 0 or whole steps), beta "
            "with a shape exactly 1 on axes touching 0 and 1, exponential on an axis that starts or ends at exactly 0, "
            "Laplace / normal / super-Gaussian with the location exactly on the first, last or centre axis point, log-Laplace "
            "and log-normal with log x = mu on the axis, super-Gaussian powers 1, 2 (int and float) and 3..8, negative scale "
            "(descending axes) for every generator. erf / erfinv / gamma: deterministic dense grids (targeted) plus random arguments, "
            "validated numerically against math.erf (abs 5e-4, all reals incl. negative, tiny, huge), an inverse error "
            "function derived from statistics.NormalDist().inv_cdf (rel 6e-3 on (-1,1): |x| from 1e-99, 1-|x| down to one "
            "ulp) and math.gamma (rel 3e-7, 1e-9..30, integers and their float neighbours); erf and gamma additionally "
            "against the exact Lean evaluation of the approximation as coded; erfinv against erfinvWith (the code's structure "
            "around pi, log1p, sqrt: math.pi, math.log1p's value, a 30-digit rational square root; rel 1e-10); oddness "
            "checked bit-exactly. ARGUMENT-TYPE CLASS (erf / erfinv / gamma:argtype:*, ~7 % of the generated cases plus ~450 "
            "targeted): the same numbers handed over as Python int, numpy signed and unsigned integer scalars of every width "
            "(int8 .. uint64), float32 / float64 scalars and 0-d arrays (erf also as 1-d arrays of those dtypes): gamma at "
            "every integer 1..30 in every integer type, checked against the Lean specification Gamma(n) = (n-1)! "
            "(gammaApprox_nat: the model equals it exactly; (n-1)! leaves int32 at n = 14, int64 at n = 22) as well as "
            "math.gamma; erf at integers around the widths where x**2 .. x**4 leave int8 / int16 / int32 / int64; erfinv at "
            "the integer 0; the dense grids' single-precision neighbours as float32 scalars and arrays (every tolerance, "
            "against the true function and against the model, widened by a single-precision rounding budget of 1e-5: the "
            "text does not say in which precision a float32 argument is processed; erfinv for |x| >= 1.1e-19, below that "
            "x*x underflows in single precision - the single-precision form of known finding C18-erfinv-underflow, one "
            "targeted case). An "
            "exception raised for an argument type is a violation. PARAMETER-TYPE CLASS (kernel:param-type:* / "
            "kernel:size-type:*, ~7 % of the generated cases plus 200 targeted): shape, location, scale and shift of every "
            "generator as Python int, numpy int16 / int32 / int64, float32 and float64 scalars (every parameter whose value the "
            "type holds; integer beta / inverse-gamma shapes up to 15 + 15 and 25, so gamma() is reached with integer-typed "
            "arguments up to 30), the size as Python int or numpy int16 / int32 / int64; same checks as for float parameters "
            "(a float32 parameter anywhere: axis 1e-6, unit sum 1e-5, weights 1e-5, exp underflow at -70). "
            "FAR-TAIL CLASS (kernel:tail:*, ~7 % of the generated cases plus 69 targeted, every generator built from exp / log / "
            "powers): parameters placed (location beyond the axis or between two samples, late part of an exponential tail, "
            "log-location far from log x, inverse gamma far below / above its mode, a high beta power on an axis hugging 0, "
            "widths up to 3e299 and rates down to 4e-320) so that EVERY sampled density is tiny: 1e-200 .. 1e-300, positive "
            "but SUBNORMAL (half of the class: the sum of the densities is below 2.2e-308), at the underflow threshold, "
            "exactly 0 everywhere.  Whether the float sum of the densities is positive is decided by the Lean model, not by "
            "looking at the implementation (c18.kernel: tail): the density is a product of factors (exponential_factors_prod "
            "... beta_factors_prod); at the axis point of largest modelled density, moved by +- the rounding of the axis, "
            "every product of a sub-collection of the factors must lie in [8 * 2**-1074, 2**1000] (robustFactors; "
            "robustFactors_spec: whatever the order of multiplication) - then finite non-negative weights with |sum - 1| <= "
            "8 (n + 4) 2**-53 are demanded (normalise_approx; this tolerance now holds for every double-precision kernel case) "
            "and every weight is compared with the model (tolerance widened by the subnormal step relative to the sum); below "
            "that band, and where an intermediate value may overflow, the case is undetermined. HISTORY CLASSES "
            "(kernel:history:*, ~5 % + 45 targeted; history:*, ~5 % + 16 targeted): a returned kernel is edited in place "
            "(weights scaled, axis moved, zeroed, reversed, NaN) and the generator is asked again with equal arguments - the "
            "same objects, hash-equal Python ints, numpy float64 - the second return value must meet the property and the "
            "model like the first; convolve / deconvolve called 2-4 times on the same array objects: equal arguments again "
            "after the result was edited in place, the kernel / signal arrays overwritten with new content (np.copyto) and "
            "passed again. FLOAT-KERNEL CLASS (convolve:float-kernel:*, ~5 % + 36 targeted): the weights a generator returns "
            "are the kernel of a pad-mode convolution (two public functions combined): length, interior = ordinary "
            "convolution and constants reproduced, all within (m + 2) 2**-53 sum|psf| max|x| of the exact Lean result for the "
            "returned weights taken as rationals. Kernels LONGER than the signal (convolve:n<m, ~3 % + 44 targeted, model "
            "only: output length and constants); kernel lengths up to 32; constant signals with kernels that do not sum to "
            "one (pad_conv_constant_scaled); deconvolution kernels up to 14 taps and signals up to 250 samples; generator "
            "sizes up to 257 generated, 1000 / 2000 targeted for four generators and 100001 for the rational one. "
            "non-trivial = every case; distinct by canonical case hash")
    trusted = ["np.pad(mode='edge'), np.convolve(mode='valid'), np.linspace, np.stack, Python slicing as documented; "
               "irfft(rfft(c, r)/rfft(psf, r), r) equals the power-series quotient when the quotient has fewer than r "
               "coefficients (decided by the driver for every case: quotientTerminates) and the spectrum of psf has no zero "
               "(first-tap-dominant kernels)",
               "the driver's 40-digit exp / log / power and 30-digit sqrt (PewDriver/C18.lean: Taylor series in fixed point) "
               "are accurate to far better than the comparison tolerances; they are NOT part of any theorem (the theorems "
               "quantify over the special functions)",
               "math.erf, math.gamma and statistics.NormalDist().inv_cdf are accurate to far better than the tolerances",
               "far tails: the driver evaluates the modelled densities in 256-bit dyadic arithmetic (every operation rounded, "
               "exp / log to 40 digits); a double-precision product of at most four factors is off by at most one step of the "
               "subnormal grid per rounding, and np.exp / np.power return a positive subnormal for a true value above 8 steps"]
    assumptions = ["VALIDATED, NOT PROVED: accuracy of the erf (5e-4 abs), erfinv (6e-3 rel) and gamma (3e-7 rel) approximations "
                   "against the true functions - checked on the dense grids and random arguments of this run only; Mathlib has no "
                   "erf and no verified bounds for these approximations",
                   "kernel generators: PROVED in exact real arithmetic (triangular completely over Rat; the other eight for every "
                   "exp > 0, positive power of a positive base, 0**y >= 0, sqrt(2 pi) > 0 - Special.Sound, discharged for the real "
                   "functions by realSpecial_sound): size, axis, weights in [0,1], unit sum over the documented parameter domains. "
                   "VALIDATED, NOT PROVED: that the FLOAT evaluation stays finite and non-negative (exp underflowing to 0 on the "
                   "whole axis, overflow of a power) - checked numerically on generated parameters",
                   "erfinv is modelled as coded around pi, log1p and sqrt (erfinvWith; odd for every choice of them: erfinv_odd); "
                   "its accuracy is validated only",
                   "kernel parameter domain: the sampled axis lies inside the support of the density (beta: [0,1]; exponential, "
                   "inverse gamma, log-Laplace, log-normal: x > 0) and the Lean tail decision finds an axis point whose density "
                   "is robustly a positive double (normal or subnormal; every sub-product of its factors in [8 * 2**-1074, "
                   "2**1000]); UNDETERMINED: all densities below that band (underflow to exactly 0 on the whole axis gives "
                   "0/0 = NaN: outside 'density finite on that axis' as before); JUDGED, with failures routed to known finding "
                   "C18-kernel-intermediate-overflow: parameters for which an intermediate value of the coded expression may "
                   "overflow (x ** (-alpha - 1) at a tiny x, gamma(alpha) * gamma(beta), sigma * sqrt(2 pi), beta ** alpha, "
                   "a * (a - b)) although the density itself is finite and robustly positive at its best axis point; "
                   "outside the support (e.g. "
                   "beta with scale 2) the generators return NaN/negative weights and the property excludes them",
                   "histories: a second call with equal arguments is held to the same specification as the first (the model is a "
                   "function of its arguments); for convolve / deconvolve the argument arrays are (re)filled before every step, "
                   "so an implementation that returns a view of its input is judged on the values it was given",
                   "known finding C18-erfinv-underflow: erfinv(x) = 0 for 0 < |x| < 1e-160; the grid stops at 1e-99, one targeted "
                   "case exercises it and is routed through known()",
                   "deconvolve is checked on first-tap-dominant kernels ('well-conditioned'; |p0| >= 1.25 sum|rest| inside "
                   "evaluate); evaluate counts any other kernel as undetermined. Zero samples are ordinary samples since /repo "
                   "5e4648b (no np.trim_zeros)",
                   "dtype class: every sample representable in its container and every partial sum of the convolution exact in "
                   "numpy's result dtype (no integer wrap-around - uint8 signals/kernels are kept small -, no float32 rounding); "
                   "evaluate recomputes this bound for any case and counts a case outside it as undetermined",
                   "argument-type class: every argument is exactly representable in its type (evaluate checks it for any case: "
                   "otherwise undetermined); float16 is outside the class (half precision cannot carry 3e-7 or 6e-3: gamma(float16) "
                   "is off by 4e-4 because 1.0 / x is then a half-precision quotient); parameter-type class: integer-typed "
                   "parameters |v| <= 32, float32 parameters multiples of 1/64 up to 64, so that integer-only / single-precision "
                   "subexpressions (size*scale + shift, a*(a - b), 2*power) are exact; inversegamma with two numpy-integer shapes "
                   "whose beta**alpha leaves their type is undetermined; unsigned numpy scalars as parameters or size are outside "
                   "the class (-_lambda, -size wrap around by numpy's rules)",
                   "kernel cases are checked against the documented domain inside evaluate (triangular a <= 0 <= b, a < b, an "
                   "axis point that carries density whichever way the float axis rounds, magnitudes within 1e+-150; beta axis "
                   "inside [0, 1]; one-sided generators x > 0, exponential x >= 0; the eight transcendental generators: the Lean "
                   "tail decision); a case outside it is undetermined, never a violation"]

    # ------------------------------------------------------------------ generation
    def gen_psf(self, rng, m, unit):
        if unit:
            if m > 9:                                            # 32 units thrown at m taps
                w = [0] * m
                for _ in range(32):
                    w[rng.randrange(m)] += 1
                return w
            while True:
                w = [rng.randint(0, 12) for _ in range(m - 1)]
                last = 32 - sum(w)
                if last >= 0:
                    w.insert(rng.randrange(m), last)
                    return w                                     # /32, sums to one
        while True:
            w = [rng.randint(-16, 16) * 4 for _ in range(m)]       # /32
            if any(w):
                return w

    @staticmethod
    def gen_dominant(rng, m):
        """first-tap-dominant kernel (|p0| >= 1.5 sum|rest|), in eighths"""
        p0 = rng.choice([-1, 1]) * rng.randint(12, 24)
        budget = abs(p0) * 2 // 3
        rest = []
        for _ in range(m - 1):
            v = rng.randint(-budget, budget) if budget > 0 else 0
            rest.append(v)
            budget -= abs(v)
        return [p0] + rest

    @staticmethod
    def put_zeros(rng, x, lo=0.55):
        """exactly zero samples: leading, trailing, interior, runs, everything (about 45 % of the signals get some)"""
        x = list(x)
        n = len(x)
        how = rng.random()
        if how < lo or n == 0:
            return x
        pick = rng.choice(["lead", "lead", "trail", "interior", "run", "lead-run", "trail-run", "ends", "all", "sparse", "mixed"])
        if pick in ("lead", "ends", "mixed"):
            x[0] = 0
        if pick in ("trail", "ends", "mixed"):
            x[-1] = 0
        if pick in ("interior", "mixed") and n >= 3:
            x[rng.randrange(1, n - 1)] = 0
        if pick == "run" and n >= 4:
            i = rng.randrange(1, n - 2)
            for j in range(i, min(n - 1, i + rng.randint(2, 5))):
                x[j] = 0
        if pick == "lead-run":
            for j in range(min(n, rng.randint(2, 4))):
                x[j] = 0
        if pick == "trail-run":
            for j in range(min(n, rng.randint(2, 4))):
                x[n - 1 - j] = 0
        if pick == "all":
            x = [0] * n
        if pick == "sparse":
            keep = rng.randrange(n)
            x = [v if i == keep else 0 for i, v in enumerate(x)]
        return x

    @staticmethod
    def zero_features(xq):
        """which kinds of exactly zero samples a signal has"""
        z = [v == 0 for v in xq]
        f = set()
        if not any(z):
            return f
        f.add("deconv:zero-sample")
        if all(z):
            f.add("deconv:zero:all-zero")
            return f
        if z[0]:
            f.add("deconv:zero:leading")
        if z[-1]:
            f.add("deconv:zero:trailing")
        if any(z[1:-1]):
            f.add("deconv:zero:interior")
        if any(a and b for a, b in zip(z, z[1:])):
            f.add("deconv:zero:run")
        if len(z) >= 2 and z[-1] and z[-2]:
            f.add("deconv:zero:in-the-dropped-last-two")
        return f

    def generate(self, rng, tier):
        kind = rng.choice(["convolve"] * 4 + ["deconv"] * 3 + ["deconv-raw"] + ["kernel"] * 4 + ["erf", "erfinv", "gamma"]
                          + ["kernel-boundary"] * 3 + ["convolve-dtype"] * 2 + ["deconv-dtype"] * 3
                          + ["special-argtype"] * 2 + ["kernel-param-type"] * 2 + ["kernel-tail"] * 3 + ["kernel-history"] * 2
                          + ["convolve-kernel"] * 2 + ["history"] * 2)
        if kind == "convolve-kernel":
            return self.gen_convolve_kernel(rng)
        if kind == "history":
            return self.gen_history(rng)
        if kind == "kernel-tail":
            return self.gen_kernel_tail(rng)
        if kind == "kernel-history":
            return self.gen_kernel_history(rng)
        if kind == "special-argtype":
            return self.gen_special_argtype(rng)
        if kind == "kernel-param-type":
            return self.gen_kernel_param_type(rng)
        if kind == "kernel-boundary":
            return self.gen_kernel_boundary(rng)
        if kind == "convolve-dtype":
            return self.gen_convolve_dtype(rng)
        if kind == "deconv-dtype":
            return self.gen_deconv_dtype(rng)
        if kind == "convolve":
            m = rng.choice([1, 2, 3, 4, 5, 6, 7, 8, 9, 2, 3, 12, 17, 32])
            how = rng.random()
            # 15 % as short as the kernel, 8 % SHORTER than the kernel (outside the quantifier: model only)
            n = m if how < 0.15 else rng.randint(1, m - 1) if how < 0.23 and m > 1 else rng.randint(m, max(40, m + 8))
            const = rng.random() < 0.25
            unit = rng.random() < (0.75 if const else 0.5)      # a constant signal also meets kernels that do not sum to one
            c = rng.randint(-400, 400)
            x = [c] * n if const else [rng.randint(-400, 400) for _ in range(n)]
            return {"kind": kind, "x": x, "psf": self.gen_psf(rng, m, unit)}
        if kind == "deconv":
            m = rng.choice([1, 2, 3, 3, 4, 5, 6, 1, 2, 9, 14])
            how = rng.random()
            n = rng.choice([m, m + 1, m + 2]) if how < 0.15 else rng.randint(100, 250) if how < 0.2 else rng.randint(max(m, 3), 40)
            x = [rng.choice([-1, 1]) * rng.randint(1, 100) if rng.random() < 0.3 else rng.randint(1, 100) for _ in range(n)]
            x = self.put_zeros(rng, x)
            return {"kind": kind, "x": x, "psf": self.gen_dominant(rng, m), "mode": rng.choice(["valid", "same"])}
        if kind == "deconv-raw":
            # any input array, not a full convolution, as short as one sample: outside the property, model against code
            m = rng.choice([1, 2, 3, 3, 4, 5, 6, 8, 9])
            k = rng.choice([1, 1, 2, m - 1, m, m, m + 1, m + 2, rng.randint(1, 2 * m + 3)])
            c = [rng.randint(-100, 100) for _ in range(max(1, k))]
            if rng.random() < 0.3:
                c = self.put_zeros(rng, c)
            return {"kind": kind, "c": c, "psf": self.gen_dominant(rng, m), "mode": rng.choice(["valid", "same"])}
        if kind == "kernel":
            return self.gen_kernel(rng)
        if kind == "erf":
            xs = [rng.choice([-1, 1]) * rng.choice([rng.random() * 6, rng.random(), 10 ** rng.uniform(-12, 3),
                                                    10 ** rng.uniform(3, 300)]) for _ in range(48)]
            return {"kind": kind, "xs": xs, "array": rng.random() < 0.5}
        if kind == "erfinv":
            xs = [rng.choice([-1, 1]) * rng.choice([rng.random(), 10 ** rng.uniform(-99, 0), 1 - 10 ** rng.uniform(-15.9, 0)])
                  for _ in range(48)]
            return {"kind": kind, "xs": [x for x in xs if 0 < abs(x) < 1]}
        xs = [rng.choice([rng.random() * 30, rng.random(), 10 ** rng.uniform(-9, 0), float(rng.randint(1, 30)),
                          rng.randint(1, 29) + 10 ** rng.uniform(-12, 0)]) for _ in range(32)]
        return {"kind": "gamma", "xs": [x for x in xs if 0 < x <= 30]}

    def gen_kernel(self, rng, name=None):
        name = name or rng.choice(KERNELS)
        size = rng.choice([2, 2, 3, 4, 5, 10, 10, 17, 32, 64, 128, 257])
        r2 = lambda lo, hi: round(rng.uniform(lo, hi), rng.choice([0, 1, 2, 6]))
        case = {"kind": "kernel", "name": name, "size": size}
        if name == "beta":
            case["size"] = max(size, 3)
            scale = rng.choice([1.0, 1.0, 1.0, 0.5, round(rng.uniform(0.05, 1.0), 3)])
            shift = 0.0 if scale == 1.0 else rng.choice([0.0, round(rng.uniform(0.0, 1.0 - scale), 3)])
            if scale + shift > 1.0:
                shift = 0.0
            case["args"] = [rng.choice([1.0, 1.0, 2.0, 3.0, 1.5, 2.5, max(1.0, r2(1, 8))]),
                            rng.choice([1.0, 2.0, 2.0, 5.0, 1.5, 3.5, max(1.0, r2(1, 8))])]
            case["scale"], case["shift"] = scale, shift
        elif name in ("exponential", "inversegamma", "loglaplace", "lognormal"):
            case["scale"] = rng.choice([1.0, 1.0, 0.5, 2.0, round(rng.uniform(0.1, 3.0), 3)])
            case["shift"] = rng.choice([1e-6, 1e-6, 1e-3, 0.5, 2.0])
            case["args"] = {"exponential": lambda: [rng.choice([1.0, 0.01, 0.5, 5.0, max(0.01, r2(0.01, 5))])],
                            "inversegamma": lambda: [rng.choice([1.0, 0.5, 3.0, 5.0, max(0.5, r2(0.5, 5))]),
                                                     rng.choice([1.0, 0.1, 5.0, max(0.1, r2(0.1, 5))])],
                            "loglaplace": lambda: [rng.choice([0.5, 1.0, 0.2, 3.0, max(0.2, r2(0.2, 3))]), rng.choice([0.0, 1.0, -1.0, r2(-1, 3)])],
                            "lognormal": lambda: [rng.choice([1.0, 0.2, 0.5, 2.0, max(0.2, r2(0.2, 2))]), rng.choice([0.0, 1.0, -1.0, r2(-1, 3)])],
                            }[name]()
        else:
            scale = rng.choice([1.0, 1.0, 0.5, 2.0, round(rng.uniform(0.1, 3.0), 3)])
            shift = rng.choice([0.0, 0.0, 1.0, -2.5, round(rng.uniform(-5, 5), 2)])
            half = case["size"] * 0.5 * scale
            case["scale"], case["shift"] = scale, shift
            width = rng.choice([1.0, 0.5, 2.0, round(rng.uniform(0.2, 5.0), 2)]) * max(scale, 0.2)
            # location within half a width of an axis point, so that the density there is far above the underflow range
            step = 2 * half / (case["size"] - 1)
            grid = shift - half + rng.randrange(case["size"]) * step
            loc = rng.choice([shift, round(grid + rng.uniform(-0.5, 0.5) * width, 3)])
            if loc == shift and case["size"] % 2 == 0 and step > width:
                loc = round(grid, 3)
            if name == "laplace":
                case["args"] = [width, loc]
            elif name == "normal":
                case["args"] = [width, loc]
            elif name == "super_gaussian":
                case["args"] = [width, loc, rng.choice([1, 2, 3, 4, 2.0])]
            else:  # triangular: a < 0 < b with an axis point strictly inside (a, b)
                step = 2 * half / (case["size"] - 1)
                case["shift"] = shift = rng.choice([0.0, 0.0, round(rng.uniform(-0.4, 0.4) * step, 3)])
                a = -round(rng.uniform(1.2, 4.0) * step + abs(shift), 3)
                b = round(rng.uniform(1.2, 4.0) * step + abs(shift), 3)
                case["args"] = [rng.choice([a, -5.0 if half >= 5 else a]), rng.choice([b, 5.0 if half >= 5 else b])]
        return case

    # -- class "kernel:boundary": parameters ON the limits of the documented domains with the density still finite on
    #    the axis, axes that contain exact 0.0 / exact support end points / the location parameter, both signs of scale
    def gen_kernel_boundary(self, rng, name=None):
        name = name or rng.choice(["triangular"] * 5 + ["exponential", "exponential", "laplace", "laplace", "beta", "beta",
                                                         "super_gaussian", "super_gaussian", "normal", "loglaplace",
                                                         "lognormal", "inversegamma"])
        r2 = lambda lo, hi: round(rng.uniform(lo, hi), rng.choice([0, 1, 2, 6]))
        case = {"kind": "kernel", "name": name, "boundary": True}
        if name == "triangular":
            size = rng.choice([3, 5, 7, 9, 11, 13, 17, 21, 33, 65, 9, 11, 21, 4, 10])      # mostly odd: 0 on the axis
            scale = rng.choice([1.0, 1.0, 1.0, 2.0, 0.5, 0.25, 1.5, -1.0, -2.0])
            step = abs(size * scale / (size - 1))
            mid = (size - 1) // 2
            whole = rng.random() < 0.8             # axis moved by whole steps only: with an odd size 0 stays on it
            shift = rng.choice([0.0, 0.0, 0.0, 0.0, rng.choice([-1, 1]) * rng.randint(1, mid) * step]) if whole else \
                round(rng.uniform(-0.4, 0.4) * step, 3)
            generic = lambda: round(rng.uniform(1.2, 4.0) * step + abs(shift), 3)   # an axis point strictly inside
            lim = lambda: rng.choice([generic(), rng.randint(1, max(1, mid)) * step,   # an axis point when shift = 0
                                      5.0, float(rng.randint(1, 8))]) if whole and size % 2 else generic()
            variant = rng.choice(["b=0", "b=0", "a=0", "ends"])
            a, b = {"b=0": (-lim(), 0.0), "a=0": (0.0, lim()), "ends": (-lim(), lim())}[variant]
            case.update(size=size, args=[a, b], scale=scale, shift=shift)
        elif name == "beta":
            one = lambda: rng.choice([1.0, 2.0, 2.5, 5.0, max(1.0, r2(1, 8))])
            case["size"] = rng.choice([3, 3, 4, 5, 10, 17, 33])
            case["args"] = rng.choice([[1.0, 1.0], [1.0, one()], [one(), 1.0]])
            # every axis is exactly inside [0, 1] and touches 0 or 1 (or both), ascending or descending
            case["scale"], case["shift"] = rng.choice([(1.0, 0.0), (1.0, 0.0), (-1.0, 1.0), (0.5, 0.5), (0.5, 0.0),
                                                       (-0.5, 0.5), (-0.5, 1.0), (0.25, 0.75)])
        elif name in POS_KERNELS:
            size = rng.choice([2, 3, 5, 10, 17, 64])
            s = rng.choice([1.0, 1.0, 0.5, 2.0, 0.25])
            if name == "exponential":                   # support x >= 0: the axis starts (or, descending, ends) at exactly 0
                case["args"] = [rng.choice([1.0, 0.01, 0.5, 5.0, max(0.01, r2(0.01, 5))])]
                scale, shift = rng.choice([(s, 0.0), (s, 0.0), (-s, size * s), (s, 1e-6)])
            else:                                       # x > 0: descending axes; log x = mu exactly at the first point
                case["args"] = {"inversegamma": [rng.choice([1.0, 0.5, 3.0]), rng.choice([1.0, 0.1, 5.0])],
                                "loglaplace": [rng.choice([0.5, 1.0, 0.2, 3.0]), 0.0],
                                "lognormal": [rng.choice([1.0, 0.2, 0.5, 2.0]), 0.0]}[name]
                t = rng.choice([1e-6, 1e-3, 0.5, 1.0])
                scale, shift = rng.choice([(s, 1.0), (-s, size * s + t), (-s, size * s + t)])
            case.update(size=size, scale=scale, shift=shift)
        else:   # laplace, normal, super_gaussian: location exactly on an axis point (first, last, centre), scale of both signs
            size = rng.choice([2, 3, 5, 9, 10, 11, 17, 33, 64])
            scale = rng.choice([1.0, 1.0, 0.5, 2.0, -1.0, -0.5, -2.0])
            shift = rng.choice([0.0, 0.0, 1.0, -2.5, round(rng.uniform(-5, 5), 2)])
            width = rng.choice([1.0, 0.5, 2.0, round(rng.uniform(0.2, 5.0), 2)]) * max(abs(scale), 0.2)
            loc = rng.choice([-size * 0.5 * scale + shift, size * 0.5 * scale + shift] + [shift] * (size % 2))
            case.update(size=size, scale=scale, shift=shift, args=[width, loc])
            if name == "super_gaussian":
                case["args"].append(rng.choice([1, 2, 2, 2.0, 3, 4, 5, 6, 8]))
        return case

    # -- class "kernel:tail": parameters placed so that every sampled density is tiny - 1e-200 .. 1e-300, SUBNORMAL
    #    (below 2.2e-308), at the underflow threshold, or exactly 0 everywhere.  The generator aims (in Python floats,
    #    only to build the input) at a target for the logarithm of the largest sampled density; what the densities
    #    really are, and whether their float sum is positive, is decided by the Lean model (c18.kernel: tail)
    TAIL_BANDS = {"subnormal": (-737.0, -712.0), "tiny-normal": (-690.0, -465.0), "threshold": (-749.0, -740.0),
                  "all-zero": (-1200.0, -760.0)}

    @staticmethod
    def bisect(f, lo, hi, n=200):
        """a root of the monotone f on [lo, hi] (None when there is no sign change)"""
        flo, fhi = f(lo), f(hi)
        if not (math.isfinite(flo) and math.isfinite(fhi)) or flo * fhi > 0:
            return None
        for _ in range(n):
            mid = 0.5 * (lo + hi)
            fm = f(mid)
            if (fm > 0) == (flo > 0):
                lo, flo = mid, fm
            else:
                hi = mid
        return 0.5 * (lo + hi)

    def gen_kernel_tail(self, rng, name=None, band=None):
        name = name or rng.choice([k for k in KERNELS if k != "triangular"])
        band = band or rng.choice(["subnormal"] * 5 + ["tiny-normal"] * 3 + ["threshold", "all-zero"])
        # the target: the logarithm of the SMALLEST product of a sub-collection of the density's factors at the best
        # axis point (a constant factor above 1 is left out: the exp / power factor alone must be representable)
        L = rng.uniform(*self.TAIL_BANDS[band])
        size = rng.choice([2, 2, 3, 4, 5, 9, 16, 33])
        sig = lambda v: float(f"{v:.{rng.choice([3, 6, 12, 17])}g}")       # short and full-length mantissas
        case = {"kind": "kernel", "name": name, "size": size, "tail": band}
        if name in SYM_KERNELS:
            scale = rng.choice([1.0, 1.0, 0.5, 2.0, -1.0, round(rng.uniform(0.1, 3.0), 3)])
            shift = rng.choice([0.0, 0.0, 1.0, -2.5, round(rng.uniform(-5, 5), 2)])
            first, last = -size * 0.5 * scale + shift, size * 0.5 * scale + shift
            step = (last - first) / (size - 1)
            # widths from narrow to so wide that the density is tiny everywhere (1 / (w sqrt(2 pi)) down to 1e-300)
            w = rng.choice([1.0, 0.5, 2.0, 0.1, round(rng.uniform(0.05, 5.0), 3), 1e150, 1e250, 3e299])
            power = rng.choice([1, 2, 2, 3, 4]) if name == "super_gaussian" else 1
            lnc = min(0.0, -math.log(2 * w) if name == "laplace" else -math.log(w * math.sqrt(2 * math.pi)))
            dist = lambda w_, lnc_: (w_ * max(0.0, lnc_ - L) if name == "laplace" else
                                     w_ * (2 * max(0.0, lnc_ - L)) ** (1.0 / (2 * power)))   # distance at which the density is e**L
            how = rng.choice(["beyond-the-last-point", "before-the-first-point", "between-two-points"])
            if how == "between-two-points":
                # a narrow peak half-way between two neighbouring samples: solve the width
                i = rng.randrange(size - 1)
                mid, d = first + (i + 0.5) * step, abs(step) / 2
                lc = lambda w_: min(0.0, -math.log(2 * w_) if name == "laplace" else -math.log(w_ * math.sqrt(2 * math.pi)))
                w2 = self.bisect(lambda w_: dist(w_, lc(w_)) - d, 1e-6 * d, d, 80)
                if w2 is None:
                    how = "beyond-the-last-point"
                else:
                    w, loc = sig(w2), mid
            if how != "between-two-points":
                d = dist(w, lnc)
                hi_, lo_ = max(first, last), min(first, last)
                loc = sig(hi_ + d) if how == "beyond-the-last-point" else sig(lo_ - d)
            case.update(scale=scale, shift=shift, args=[w, loc] + ([power] if name == "super_gaussian" else []), how=how)
        elif name == "exponential":
            # rates down to subnormal ones: the density lambda * exp(-lambda x) is then tiny on the whole axis
            lam = rng.choice([1.0, 0.5, 2.0, 5.0, 0.01, round(rng.uniform(0.05, 5.0), 3), 1e-250, 1e-305, 3e-310, 4e-320])
            x0 = (min(0.0, math.log(lam)) - L) / lam if math.log(lam) > L + 5 else 1.0     # the smallest axis point
            if not x0 < 1e300:
                x0 = 1.0
            scale = rng.choice([1.0, 1.0, 0.5, 2.0, round(rng.uniform(0.1, 3.0), 3), -1.0, -0.5])
            shift = sig(x0) if scale > 0 else sig(x0 - size * scale)
            case.update(scale=scale, shift=shift, args=[lam], how="late-part-of-the-tail")
        elif name in ("lognormal", "loglaplace"):
            scale = rng.choice([1.0, 1.0, 0.5, 2.0, round(rng.uniform(0.1, 3.0), 3)])
            shift = rng.choice([1e-6, 1e-3, 0.5, 2.0, 1.0])
            w = rng.choice([1.0, 0.5, 0.2, 2.0, round(rng.uniform(0.2, 3.0), 2)])
            how = rng.choice(["mu-above-the-axis", "mu-below-the-axis"])
            x = size * scale + shift if how == "mu-above-the-axis" else shift
            sgn = 1.0 if how == "mu-above-the-axis" else -1.0
            if name == "lognormal":
                mu = math.log(x) + sgn * w * math.sqrt(max(0.0, 2 * (-L + min(0.0, -math.log(x * w * math.sqrt(2 * math.pi))))))
            else:
                mu = math.log(x) + sgn * w * max(0.0, -L + min(0.0, -math.log(2 * w * x)))
            case.update(scale=scale, shift=shift, args=[w, sig(mu)], how=how)
        elif name == "inversegamma":
            alpha = rng.choice([1.0, 2.0, 3.0, 5.0, 0.5, 10.0, 20.0, round(rng.uniform(0.5, 25.0), 2)])
            lg = math.lgamma(alpha)
            how = rng.choice(["axis-far-below-the-mode", "axis-far-below-the-mode", "axis-far-above-the-mode"])
            if how == "axis-far-above-the-mode" and alpha < 3:
                how = "axis-far-below-the-mode"
            if how == "axis-far-above-the-mode":             # the power-law tail x ** (-alpha - 1)
                beta = rng.choice([1.0, 0.5, 2.0])
                x0 = math.exp((min(0.0, alpha * math.log(beta) - lg) - L) / (alpha + 1))
                shift, scale = sig(x0), sig(x0 * rng.choice([0.01, 0.1, 1.0]) / size)
            else:                                            # exp(-beta / x) with beta far above every x
                scale = rng.choice([1.0, 0.5, 2.0, round(rng.uniform(0.1, 3.0), 3)])
                shift = rng.choice([1e-6, 1e-3, 0.5, 2.0])
                x = size * scale + shift
                f = lambda b: min(0.0, alpha * math.log(b) - lg) + min(0.0, -(alpha + 1) * math.log(x)) - b / x - L
                beta = self.bisect(f, (alpha + 1) * x, 1e7 * x)
                beta = sig(beta) if beta is not None else 800.0 * x
            case.update(scale=scale, shift=shift, args=[alpha, beta], how=how)
        else:  # beta: a high power of x on an axis that hugs 0 (x is exact there; 1 - x is not near 1)
            a = rng.choice([5.0, 10.0, 25.0, 28.0, round(rng.uniform(4.0, 27.0), 1)])
            b = rng.choice([1.0, 2.0, 1.5, 3.0])
            if a + b > 30:
                b = 1.0
            lnB = math.lgamma(a) + math.lgamma(b) - math.lgamma(a + b)
            xl = math.exp((L + max(0.0, lnB)) / (a - 1))     # the largest axis point
            case["size"] = max(size, 3)
            how = rng.choice(["axis-from-0", "axis-from-0", "axis-off-0", "descending-to-0"])
            scale, shift = {"axis-from-0": (sig(xl), 0.0), "axis-off-0": (sig(xl / 2), sig(xl / 2)),
                            "descending-to-0": (-sig(xl), sig(xl))}[how]
            if how == "descending-to-0":
                scale = -shift
            case.update(scale=scale, shift=shift, args=[a, b], how=how)
        return case

    # -- class "kernel:history": a returned kernel is edited in place, then the generator is asked again with equal arguments
    def gen_kernel_history(self, rng, name=None):
        case = self.gen_kernel(rng, name) if rng.random() < 0.6 else self.gen_kernel_boundary(rng, name)
        if rng.random() < 0.5:                               # whole-number parameters: 11 and 11.0 are equal and hash alike
            case = self.gen_kernel_param_type(rng, name or case["name"], "int")
            case.pop("ptype"), case.pop("sizetype")
        case["history"] = {"edit": rng.choice(self.HIST_EDITS), "again": rng.choice(self.HIST_AGAIN)}
        return case

    def gen_convolve_kernel(self, rng):
        g = self.gen_kernel(rng)
        g.pop("kind")
        g["size"] = rng.choice([2, 3, 4, 5, 8, 9, 10, 17]) if g["name"] != "beta" else rng.choice([3, 4, 5, 9, 10, 17])
        if g["name"] == "triangular":                           # its parameters were drawn for the original size
            g = {"name": "triangular", "size": g["size"], "args": [-float(g["size"]), float(g["size"])], "scale": 1.0, "shift": 0.0}
        m = g["size"]
        n = rng.randint(1, m - 1) if rng.random() < 0.08 else rng.randint(m, m + 30)
        c = rng.randint(-400, 400)
        x = [c] * n if rng.random() < 0.45 else [rng.randint(-400, 400) for _ in range(n)]
        return {"kind": "convolve-kernel", "gen": g, "x": x}

    def gen_history(self, rng, fn=None):
        fn = fn or rng.choice(["convolve", "deconv"])
        m = rng.choice([1, 2, 3, 4, 5, 6])
        n = rng.randint(max(m, 3), 24)
        mk_x = (lambda: [rng.randint(-400, 400) for _ in range(n)]) if fn == "convolve" else \
            (lambda: self.put_zeros(rng, [rng.choice([-1, 1]) * rng.randint(1, 100) for _ in range(n)], lo=0.7))
        mk_p = (lambda: self.gen_psf(rng, m, rng.random() < 0.5)) if fn == "convolve" else (lambda: self.gen_dominant(rng, m))
        x, p = mk_x(), mk_p()
        steps = [(x, p)]
        for _ in range(rng.choice([1, 1, 2, 3])):
            what = rng.choice(["equal-arguments", "equal-arguments", "new-kernel-content", "new-signal-content", "both-new"])
            if what in ("new-kernel-content", "both-new"):
                p = mk_p()
            if what in ("new-signal-content", "both-new"):
                x = mk_x()
            steps.append((x, p))
        mode = lambda: "pad" if fn == "convolve" else rng.choice(["valid", "same"])
        md = mode()
        return {"kind": "history", "fn": fn,
                "steps": [{"x": list(a), "psf": list(b), "mode": md if rng.random() < 0.7 else mode(),
                           "edit": rng.choice(self.HIST_RESULT_EDITS)} for a, b in steps]}

    # -- class "dtype": signals and kernels held in integer / single-precision containers
    def gen_dtypes(self, rng):
        while True:
            xdt, pdt = rng.choice(DTYPES), rng.choice(DTYPES)
            if (xdt, pdt) != ("float64", "float64"):
                return xdt, pdt

    def gen_convolve_dtype(self, rng):
        xdt, pdt = self.gen_dtypes(rng)
        isint = lambda d: np.dtype(d).kind in "iu"
        m = rng.choice([1, 2, 3, 4, 5, 6, 7, 8, 9])
        n = m if rng.random() < 0.15 else rng.randint(m, 40)
        const = rng.random() < 0.25
        unit = rng.random() < (0.75 if const else 0.5)
        lo, hi = (0, 9) if xdt == "uint8" else (-400, 400)
        c = rng.randint(lo, hi)
        x = [c] * n if const else [rng.randint(lo, hi) for _ in range(n)]
        if isint(pdt):                          # integer kernel: sum one = a delta at any tap
            if unit:
                psf = [0] * m
                psf[rng.randrange(m)] = 1
            else:
                psf = [0]
                while not any(psf):
                    psf = [rng.randint(0, 3) if pdt == "uint8" else rng.randint(-16, 16) for _ in range(m)]
            pden = 1
        else:
            psf, pden = self.gen_psf(rng, m, unit), 32
        return {"kind": "convolve", "x": x, "psf": psf, "xden": 1 if isint(xdt) else 4, "pden": pden, "xdt": xdt, "pdt": pdt}

    def gen_deconv_dtype(self, rng):
        xdt, pdt = self.gen_dtypes(rng)
        if rng.random() < 0.5:                  # integer signal AND integer kernel: the full convolution is an integer array
            xdt, pdt = rng.choice(DTYPES[:3]), rng.choice(DTYPES[:3])
        m = rng.choice([1, 2, 3, 3, 4, 5, 6])
        n = rng.randint(max(m, 3), 40)
        if xdt == "uint8":
            x = [rng.randint(1, 12) for _ in range(n)]
        else:
            x = [rng.choice([-1, 1]) * rng.randint(1, 100) if rng.random() < 0.3 else rng.randint(1, 100) for _ in range(n)]
        x = self.put_zeros(rng, x, lo=0.7)
        small = "uint8" in (xdt, pdt)           # keep the full convolution inside 0..255
        p0 = rng.randint(6, 12) if small else rng.choice([-1, 1]) * rng.randint(12, 24)
        budget = abs(p0) * 2 // 3
        rest = []
        for _ in range(m - 1):
            v = rng.randint(0 if pdt == "uint8" else -budget, budget) if budget > 0 else 0
            rest.append(v)
            budget -= abs(v)
        pden = 1 if np.dtype(pdt).kind in "iu" else rng.choice([1, 8])
        return {"kind": "deconv", "x": x, "psf": [p0] + rest, "mode": rng.choice(["valid", "same"]), "pden": pden,
                "xdt": xdt, "pdt": pdt}

    # -- class "argtype": the argument of erf / erfinv / gamma in every type that can carry the number
    def gen_special_argtype(self, rng, fn=None, ty=None):
        fn = fn or rng.choice(["gamma", "gamma", "erf", "erfinv"])
        ty = ty or rng.choice([t for t in ARG_TYPES if t != "float"])
        arr0 = ty_parse(ty)[2]
        integer, single = ty_integer(ty), ty_single(ty)
        fit = lambda xs: [x for x in (to_single(xs) if single else xs) if ty_holds(ty, x)]
        if fn == "gamma":
            if integer:
                xs = [float(rng.randint(1, 30)) for _ in range(24)]
            else:
                xs = fit([rng.choice([rng.random() * 30, rng.random(), 10 ** rng.uniform(-9, 0), float(rng.randint(1, 30)),
                                      rng.randint(1, 29) + 10 ** rng.uniform(-6, 0)]) for _ in range(32)])
            return {"kind": "gamma", "xs": [x for x in xs if 0 < x <= 30], "ty": ty}
        if fn == "erf":
            if integer:
                xs = [rng.choice([-1, 1]) * rng.choice([rng.randint(0, 10), rng.randint(0, 300), rng.choice(ERF_INTS),
                                                        rng.randint(0, 2 ** 31)]) for _ in range(32)]
                xs = [float(x) for x in xs if ty_domain(ty, [float(x)], both_signs=True) is None]
            else:
                xs = fit([rng.choice([-1, 1]) * rng.choice([rng.random() * 6, rng.random(), 10 ** rng.uniform(-12, 3),
                                                            10 ** rng.uniform(3, 38)]) for _ in range(48)])
            return {"kind": "erf", "xs": xs, "array": (not arr0) and rng.random() < 0.5, "ty": ty}
        if integer:
            return {"kind": "erfinv", "xs": [0.0], "ty": ty}          # the only integer in (-1, 1)
        lo = -18.0 if single else -99.0
        xs = fit([rng.choice([-1, 1]) * rng.choice([rng.random(), 10 ** rng.uniform(lo, 0),
                                                    1 - 10 ** rng.uniform(-7.2 if single else -15.9, 0)]) for _ in range(48)])
        return {"kind": "erfinv", "xs": [x for x in xs if 0 < abs(x) < 1 and not (single and abs(x) < F32_TINY)], "ty": ty}

    # -- class "param-type": the parameters (and the size) of the kernel generators as Python ints, numpy integer
    #    scalars and single-precision scalars; every parameter whose value the type holds is passed in that type
    def gen_kernel_param_type(self, rng, name=None, ptype=None):
        name = name or rng.choice(KERNELS)
        ptype = ptype or rng.choice(["int", "int", "int64", "int32", "int16", "float32", "float64"])
        frac = ptype in ("float32", "float64")
        size = rng.choice([2, 3, 4, 5, 10, 10, 17, 32, 64])
        num = lambda lo, hi: float(rng.randint(lo, hi)) if not frac or rng.random() < 0.4 else rng.randint(lo * 8, hi * 8) / 8
        case = {"kind": "kernel", "name": name, "size": size, "ptype": ptype, "sizetype": rng.choice(SIZE_TYPES)}
        if name == "beta":
            case["size"] = max(size, 3)
            hi = rng.choice([3, 8, 15])                      # integer shapes up to 15: gamma(alpha + beta) up to gamma(30)
            case["args"] = [num(1, hi), num(1, hi)]
            case["scale"], case["shift"] = rng.choice([(1.0, 0.0), (1.0, 0.0), (-1.0, 1.0)] + ([(0.5, 0.5), (0.5, 0.25)] if frac else []))
        elif name in POS_KERNELS:
            case["scale"] = rng.choice([1.0, 1.0, 2.0, 3.0] + ([0.5, 1.5] if frac else []))
            case["shift"] = rng.choice([1.0, 2.0] + ([1e-6] if ptype != "float32" else []) + ([0.5, 0.125] if frac else [])
                                       + ([0.0] if name == "exponential" else []))
            case["args"] = {"exponential": lambda: [max(0.125, num(1, 5) if rng.random() < 0.8 else num(0, 1))],
                            "inversegamma": lambda: [num(1, rng.choice([3, 8, 25] if ptype in ("int", "int64", "float32", "float64")
                                                                       else [3, 13] if ptype == "int32" else [3, 6])), num(1, 5)],
                            "loglaplace": lambda: [num(1, 3), num(-1, 3)],
                            "lognormal": lambda: [num(1, 2), num(-1, 3)]}[name]()
        else:
            scale = rng.choice([1.0, 1.0, 2.0, -1.0] + ([0.5, 1.5] if frac else []))
            shift = num(-3, 3) if rng.random() < 0.5 else 0.0
            half = abs(size * 0.5 * scale)
            step = 2 * half / (size - 1)
            case["scale"], case["shift"] = scale, shift
            if name == "triangular":
                lo = int(math.ceil(step + abs(shift))) + 1  # the axis point(s) next to `shift` lie strictly inside (a, b)
                case["args"] = [-num(lo, lo + 4), num(lo, lo + 4)]
            else:
                width = num(1, 3)
                loc = float(round(shift + rng.uniform(-half, half))) if not frac else round((shift + rng.uniform(-half, half)) * 8) / 8
                case["args"] = [width, loc]
                if name == "super_gaussian":
                    case["args"].append(rng.choice([1, 2, 3, 4]))
        return case

    def targeted(self, tier):
        yield from self.targeted_types()
        for ch in chunks(erf_grid()):
            yield {"kind": "erf", "xs": ch, "array": True}
        yield {"kind": "erf", "xs": [-1.0, 1.0, 0.1, 10.0, -0.5], "array": False}
        for ch in chunks(erfinv_grid()):
            yield {"kind": "erfinv", "xs": ch}
        yield {"kind": "erfinv", "xs": [1e-200, -1e-170, 1e-161]}          # known finding C18-erfinv-underflow
        for ch in chunks(gamma_grid(), 64):
            yield {"kind": "gamma", "xs": ch}
        # convolution boundary classes: kernel lengths 1 and 2, signal as short as the kernel, constants
        for m in range(1, 10):
            yield {"kind": "convolve", "x": list(range(1, m + 1)), "psf": [32 // m] * (m - 1) + [32 - (32 // m) * (m - 1)]}
            yield {"kind": "convolve", "x": [20] * (m + 3), "psf": [32 // m] * (m - 1) + [32 - (32 // m) * (m - 1)]}
            yield {"kind": "convolve", "x": [4 * i * i - 30 for i in range(m + 7)], "psf": [(-1) ** i * (i + 1) * 4 for i in range(m)]}
        yield {"kind": "deconv", "x": [5, 3, 8, 1, 9, 2, 7], "psf": [19, 10, 3], "mode": "valid"}
        yield {"kind": "deconv", "x": [5, 3, 8, 1, 9, 2, 7], "psf": [19, 10, 3], "mode": "same"}
        yield {"kind": "deconv", "x": [5, 3, 8], "psf": [16], "mode": "valid"}
        # exactly zero samples (the defect repaired by /repo 5e4648b: np.trim_zeros shifted the result)
        for mode in ("valid", "same"):
            yield {"kind": "deconv", "x": [0, 9, 5, 43, 2, 27, 4, 15, 24], "psf": [8, 1], "pden": 1, "mode": mode}
            yield {"kind": "deconv", "x": [0, 0, 0, 7, 5, 3, 8, 1], "psf": [19, 10, 3], "mode": mode}
            yield {"kind": "deconv", "x": [7, 5, 3, 8, 1, 0, 0, 0], "psf": [19, 10, 3], "mode": mode}
            yield {"kind": "deconv", "x": [7, 0, 0, 0, 3, 0, 1, 6, 2], "psf": [16, -4, 2, 1], "mode": mode}
            yield {"kind": "deconv", "x": [0] * 9, "psf": [16, 4], "mode": mode}
            yield {"kind": "deconv", "x": [0, 0, 0, 0, 11, 0, 0, 0, 0, 0], "psf": [16, 4, -2], "mode": mode}
            yield {"kind": "deconv", "x": [0, 4, 0, 4, 0, 4, 0, 4, 0], "psf": [12, 6], "mode": mode}
            # the shortest signals the quantifier allows (n = m, m + 1, m + 2) and shorter ones (model only)
            for m in (1, 2, 3, 5):
                psf = [20] + [3] * (m - 1)
                for n in sorted({1, 2, m - 1, m, m + 1, m + 2} - {0}):
                    yield {"kind": "deconv", "x": [(3 * i) % 7 for i in range(n)], "psf": psf, "mode": mode}
            # arbitrary input arrays no longer than the kernel: the stop of the slice is negative
            for c, psf in [([5], [16]), ([5], [16, 4]), ([5, -3], [16, 4]), ([5, -3], [16, 4, 1]), ([5, -3, 2], [16, 4, 1]),
                           ([1, 2, 3, 4], [16, 4, 1, 1, 2]), ([9], [24, 1, 1, 1, 1, 1, 1, 1, 1]), ([0, 0], [16, 4, 1]),
                           ([8, 2, 0], [8, 2]), ([8, 2, 0, 0, 0], [8, 2]), ([3, 1, 4, 1, 5, 9, 2, 6], [16, 4, 1])]:
                yield {"kind": "deconv-raw", "c": c, "psf": psf, "mode": mode}
        # the kernel tables of the repo's own test (size 10, default scale/shift)
        for name, args, scale, shift in [("beta", [1.0, 2.0], 1.0, 0.0), ("exponential", [1.0], 1.0, 1e-6),
                                         ("inversegamma", [1.0, 1.0], 1.0, 1e-6), ("laplace", [1.0, 1.0], 1.0, 0.0),
                                         ("loglaplace", [0.5, 0.0], 1.0, 1e-6), ("lognormal", [1.0, 0.0], 1.0, 1e-6),
                                         ("normal", [1.0, 1.0], 1.0, 0.0), ("super_gaussian", [1.0, 0.0, 2.0], 1.0, 0.0),
                                         ("triangular", [-5.0, 5.0], 1.0, 0.0)]:
            for size in (10, 2, 3):
                if name == "beta" and size < 3:
                    continue
                yield {"kind": "kernel", "name": name, "size": size, "args": args, "scale": scale, "shift": shift}
            yield {"kind": "kernel", "name": name, "size": 1, "args": args, "scale": scale, "shift": shift}   # model only
            yield {"kind": "kernel", "name": name, "size": 1, "args": args, "scale": 0.5, "shift": shift + 0.25}
        # parameters on the limits of the documented domains, axes through exact 0.0 / support end points / the location
        K = lambda name, size, args, scale, shift: {"kind": "kernel", "name": name, "size": size, "args": args,
                                                    "scale": scale, "shift": shift, "boundary": True}
        for size, scale in [(3, 1.0), (5, 1.0), (9, 2.0), (11, 1.0), (21, 1.0), (17, 0.5), (9, -2.0), (10, 1.0), (4, 1.0)]:
            step = abs(size * scale / (size - 1))
            for a, b in [(-5.0, 0.0), (0.0, 5.0), (-2 * step, 0.0), (0.0, 2 * step), (-step, step), (-8.0, 0.0)]:
                yield K("triangular", size, [a, b], scale, 0.0)
            yield K("triangular", size, [-5.0, 0.0], scale, step)           # axis moved by one whole step: 0 stays on it
            yield K("triangular", size, [0.0, 5.0], scale, -step)
        for size in (2, 3, 10, 17):
            yield K("exponential", size, [1.0], 1.0, 0.0)
            yield K("exponential", size, [0.5], -1.0, float(size))
            yield K("laplace", size, [1.0, -size * 0.5], 1.0, 0.0)
            yield K("laplace", size, [0.5, size * 0.5 * -1.0 + 1.0], -1.0, 1.0)
            yield K("normal", size, [1.0, size * 0.5], 1.0, 0.0)
            for power in (1, 2, 2.0, 3, 6, 8):
                yield K("super_gaussian", size, [1.0, -size * 0.5, power], 1.0, 0.0)
            yield K("loglaplace", size, [0.5, 0.0], 1.0, 1.0)
            yield K("lognormal", size, [1.0, 0.0], -1.0, size + 1e-3)
            yield K("inversegamma", size, [1.0, 1.0], -0.5, size * 0.5 + 1e-6)
        for size in (3, 4, 10, 33):
            for args in ([1.0, 1.0], [1.0, 2.5], [3.0, 1.0]):
                for scale, shift in [(1.0, 0.0), (-1.0, 1.0), (0.5, 0.5)]:
                    yield K("beta", size, args, scale, shift)
        for size in (9, 11, 21):
            yield K("laplace", size, [1.0, 0.0], 1.0, 0.0)
            yield K("super_gaussian", size, [2.0, 0.0, 4], -1.0, 0.0)
        # FAR TAILS: every sampled density tiny - positive but SUBNORMAL sums (the four inputs of seeded change C18-c2
        # first), 1e-200 .. 1e-300, at the underflow threshold, exactly 0 everywhere (the last two: undetermined)
        T = lambda name, size, args, scale, shift: {"kind": "kernel", "name": name, "size": size, "args": args,
                                                    "scale": scale, "shift": shift, "tail": "subnormal"}
        yield T("normal", 5, [1.0, 41.0], 1.0, 0.0)
        yield T("normal", 2, [0.0262, 0.0], 1.0, 0.0)
        yield T("exponential", 3, [1.0], 1.0, 735.0)
        yield T("laplace", 2, [0.01, 0.0], 7.2, 0.0)
        for name in KERNELS:
            if name == "triangular":
                continue
            for k, band in enumerate(["subnormal"] * 4 + ["tiny-normal", "tiny-normal", "threshold", "all-zero"]):
                yield self.gen_kernel_tail(random.Random(f"C18-tail-{name}-{k}"), name, band)
        # an intermediate value overflows (x ** (-alpha - 1) = inf at the first axis point, times exp(-beta / x) = 0):
        # judged against the property; the failures are known finding C18-kernel-intermediate-overflow (notes/EC18.md O1)
        yield {"kind": "kernel", "name": "inversegamma", "size": 3, "args": [51.0, 1.0], "scale": 1.0, "shift": 1e-6}
        yield {"kind": "kernel", "name": "beta", "size": 3, "args": [90.0, 90.0], "scale": 1.0, "shift": 0.0}
        yield {"kind": "kernel", "name": "beta", "size": 3, "args": [1.0, 172.0], "scale": 1.0, "shift": 0.0}
        yield {"kind": "kernel", "name": "triangular", "size": 4, "args": [-1e200, 1e200], "scale": 1.0, "shift": 0.0}
        yield {"kind": "kernel", "name": "normal", "size": 5, "args": [1e308, 0.0], "scale": 1.0, "shift": 0.0}
        yield {"kind": "kernel", "name": "inversegamma", "size": 3, "args": [50.0, 1.0], "scale": 1.0, "shift": 1e-6}   # just inside: fine
        # magnitudes for the rational generator: supports and axes of the order 1e+-100
        for mag in (1e100, 1e-100, 1e140, 1e-140):
            yield K("triangular", 9, [-3.0 * mag, 2.0 * mag], mag, 0.0)
            yield K("triangular", 10, [-5.0 * mag, 5.0 * mag], mag, 0.25 * mag)
        # HISTORIES of the generators: the returned kernel edited in place, then equal arguments again
        H = lambda name, size, args, scale, shift, edit, again: {"kind": "kernel", "name": name, "size": size, "args": args,
                                                                 "scale": scale, "shift": shift,
                                                                 "history": {"edit": edit, "again": again}}
        for i, (name, args, scale, shift) in enumerate([
                ("beta", [1.0, 2.0], 1.0, 0.0), ("exponential", [1.0], 1.0, 1e-6), ("inversegamma", [1.0, 1.0], 1.0, 1e-6),
                ("laplace", [1.0, 1.0], 1.0, 0.0), ("loglaplace", [0.5, 0.0], 1.0, 1e-6), ("lognormal", [1.0, 0.0], 1.0, 1e-6),
                ("normal", [1.0, 1.0], 1.0, 0.0), ("super_gaussian", [1.0, 0.0, 2.0], 1.0, 0.0),
                ("triangular", [-5.0, 5.0], 1.0, 0.0)]):
            for j, edit in enumerate(self.HIST_EDITS):
                yield H(name, 10 if j % 2 else 5, args, scale, shift, edit, self.HIST_AGAIN[(i + j) % 3])
        # LARGE SIZES (the model is linear in the size; 1e5 points for the rational generator)
        yield K("triangular", 100001, [-30000.0, 20000.0], 1.0, 0.0)
        yield {"kind": "kernel", "name": "normal", "size": 2000, "args": [60.0, 10.0], "scale": 1.0, "shift": 0.0}
        yield {"kind": "kernel", "name": "exponential", "size": 1000, "args": [0.01], "scale": 1.0, "shift": 1e-6}
        yield {"kind": "kernel", "name": "beta", "size": 1000, "args": [2.0, 3.5], "scale": 1.0, "shift": 0.0}
        yield {"kind": "kernel", "name": "lognormal", "size": 1000, "args": [1.0, 3.0], "scale": 0.5, "shift": 1e-3}
        # pad mode with kernels LONGER than the signal (outside the quantifier: length and constants vs the model), long kernels
        for m in (2, 3, 4, 5, 8, 9, 17, 32):
            unit = [32 // m] * (m - 1) + [32 - (32 // m) * (m - 1)]
            for n in sorted({1, 2, m - 1}):
                if n < m:
                    yield {"kind": "convolve", "x": [4 * i - 6 for i in range(n)], "psf": [(-1) ** i * (i + 1) * 4 for i in range(m)]}
                    yield {"kind": "convolve", "x": [20] * n, "psf": unit}
            yield {"kind": "convolve", "x": [4 * i * i - 30 for i in range(m + 7)], "psf": unit}
        # the weights a generator returns as the kernel of a pad-mode convolution (constants reproduced up to rounding)
        for name, args, scale, shift in [("beta", [1.0, 2.0], 1.0, 0.0), ("exponential", [1.0], 1.0, 1e-6),
                                         ("inversegamma", [1.0, 1.0], 1.0, 1e-6), ("laplace", [1.0, 1.0], 1.0, 0.0),
                                         ("loglaplace", [0.5, 0.0], 1.0, 1e-6), ("lognormal", [1.0, 0.0], 1.0, 1e-6),
                                         ("normal", [1.0, 1.0], 1.0, 0.0), ("super_gaussian", [1.0, 0.0, 2.0], 1.0, 0.0),
                                         ("triangular", [-5.0, 5.0], 1.0, 0.0)]:
            for size in (4, 9):
                g = {"name": name, "size": size, "args": args, "scale": scale, "shift": shift}
                yield {"kind": "convolve-kernel", "gen": g, "x": [37] * (size + 5)}
                yield {"kind": "convolve-kernel", "gen": g, "x": [(7 * i * i) % 83 - 40 for i in range(size + 9)]}
        # histories of convolve / deconvolve: equal arguments again after the result was edited, arrays reused with new content
        for edit in self.HIST_RESULT_EDITS:
            yield {"kind": "history", "fn": "convolve", "steps": [
                {"x": [5, 3, 8, 1, 9, 2, 7], "psf": [8, 16, 8], "mode": "pad", "edit": edit},
                {"x": [5, 3, 8, 1, 9, 2, 7], "psf": [8, 16, 8], "mode": "pad", "edit": edit},
                {"x": [5, 3, 8, 1, 9, 2, 7], "psf": [4, 4, 24], "mode": "pad", "edit": edit},
                {"x": [1, 1, 2, 3, 5, 8, 13], "psf": [4, 4, 24], "mode": "pad", "edit": edit}]}
            yield {"kind": "history", "fn": "convolve", "steps": [
                {"x": [12, 12, 12, 12], "psf": [32], "mode": "pad", "edit": edit},
                {"x": [12, 12, 12, 12], "psf": [32], "mode": "pad", "edit": edit}]}
            for mode in ("valid", "same"):
                yield {"kind": "history", "fn": "deconv", "steps": [
                    {"x": [0, 9, 5, 43, 2, 27, 4, 15, 24], "psf": [19, 10, 3], "mode": mode, "edit": edit},
                    {"x": [0, 9, 5, 43, 2, 27, 4, 15, 24], "psf": [19, 10, 3], "mode": mode, "edit": edit},
                    {"x": [0, 9, 5, 43, 2, 27, 4, 15, 24], "psf": [-20, 4, 5], "mode": mode, "edit": edit},
                    {"x": [7, 0, 0, 0, 3, 0, 1, 6, 2], "psf": [-20, 4, 5], "mode": mode, "edit": edit}]}
        # deconvolution with long well-conditioned kernels and long signals
        for mode in ("valid", "same"):
            yield {"kind": "deconv", "x": [(13 * i * i + 5 * i) % 41 - 11 for i in range(200)], "psf": [24, 5, -3, 2, 1, -1, 1, 0, 1, -1, 0, 1], "mode": mode}
            yield {"kind": "deconv", "x": [(7 * i) % 23 - 8 for i in range(20)], "psf": [24] + [1, -1] * 7, "mode": mode}
        # signals / kernels in integer and single-precision containers, every mode
        sig = [5, 3, 8, 1, 9, 2, 7, 4, 6, 11, 12, 2, 10, 3, 9, 1, 8, 5, 7, 6, 4, 12, 3]
        for xdt, pdt in [("int64", "int64"), ("int32", "int32"), ("uint8", "uint8"), ("int32", "int64"), ("uint8", "int32"),
                         ("float32", "float32"), ("int64", "float64"), ("float64", "int64"), ("float32", "int32")]:
            for psf in ([5, 2, 1], [3, 1], [7], [6, 1, 1, 1, 1]):
                for mode in ("valid", "same"):
                    yield {"kind": "deconv", "x": sig, "psf": psf, "mode": mode, "pden": 1, "xdt": xdt, "pdt": pdt}
            for psf in ([0, 1, 0], [1, 2, 1], [1, 0], [2, 1, 0, 3], [1]):
                yield {"kind": "convolve", "x": [v % 10 for v in sig], "psf": psf, "xden": 1, "pden": 1, "xdt": xdt, "pdt": pdt}
                yield {"kind": "convolve", "x": [7] * (len(psf) + 2), "psf": psf, "xden": 1, "pden": 1, "xdt": xdt, "pdt": pdt}

    def targeted_types(self):
        """argument types x the dense grids (integers 1..30 in every integer type, the grids' single-precision
        neighbours), parameter types x every generator"""
        for ty in ARG_TYPES:
            if ty == "float":
                continue
            arr0 = ty_parse(ty)[2]
            if ty_integer(ty):
                yield {"kind": "gamma", "xs": [float(i) for i in range(1, 31)], "ty": ty}
                xs = [float(s * v) for v in ERF_INTS for s in (1, -1) if ty_domain(ty, [float(s * v)], both_signs=True) is None]
                xs = list(dict.fromkeys(xs))
                for ch in chunks(xs):
                    yield {"kind": "erf", "xs": ch, "array": False, "ty": ty}
                    if not arr0:
                        yield {"kind": "erf", "xs": ch, "array": True, "ty": ty}
                yield {"kind": "erfinv", "xs": [0.0], "ty": ty}
                continue
            single = ty_single(ty)
            thin = 3 if arr0 else 1                             # the 0-d arrays get every third grid point
            g = [x for x in (to_single(gamma_grid()) if single else gamma_grid()) if 0 < x <= 30][::thin]
            for ch in chunks(g, 64):
                yield {"kind": "gamma", "xs": ch, "ty": ty}
            e = (to_single(erf_grid()) if single else erf_grid())[::thin]
            for ch in chunks(e):
                yield {"kind": "erf", "xs": ch, "array": not arr0, "ty": ty}
            yield {"kind": "erf", "xs": [-1.0, 1.0, 0.5, 10.0, -0.5, 0.0], "array": False, "ty": ty}
            ei = [x for x in (to_single(erfinv_grid()) if single else erfinv_grid())
                  if abs(x) < 1 and not (single and 0 < abs(x) < F32_TINY)][::thin]
            for ch in chunks(ei):
                yield {"kind": "erfinv", "xs": ch, "ty": ty}
        # x*x underflows in single precision: the single-precision form of known finding C18-erfinv-underflow
        yield {"kind": "erfinv", "xs": to_single([1e-30, -1e-25, 1e-20]), "ty": "float32"}
        P = lambda name, size, args, scale, shift, ptype, stype: {"kind": "kernel", "name": name, "size": size, "args": args,
                                                                  "scale": scale, "shift": shift, "ptype": ptype, "sizetype": stype}
        for ptype, stype in [("int", "int"), ("int64", "int64"), ("int32", "int32"), ("int16", "int16"), ("float32", "int"),
                             ("float64", "int64")]:
            for size in (3, 10):
                yield P("beta", size, [1.0, 2.0], 1.0, 0.0, ptype, stype)
                yield P("beta", size, [12.0, 13.0], 1.0, 0.0, ptype, stype)          # gamma(25) behind the normalisation
                yield P("beta", size, [15.0, 15.0], -1.0, 1.0, ptype, stype)
                yield P("exponential", size, [1.0], 1.0, 0.0, ptype, stype)
                yield P("exponential", size, [2.0], 2.0, 1.0, ptype, stype)
                yield P("inversegamma", size, [1.0, 1.0], 1.0, 1.0, ptype, stype)
                if ptype not in ("int32", "int16"):                                  # 5**22 fits int64 only
                    yield P("inversegamma", size, [22.0, 5.0], 1.0, 1.0, ptype, stype)
                yield P("inversegamma", size, [6.0, 5.0], 2.0, 1.0, ptype, stype)
                yield P("laplace", size, [1.0, 1.0], 1.0, 0.0, ptype, stype)
                yield P("loglaplace", size, [1.0, 0.0], 1.0, 1.0, ptype, stype)
                yield P("lognormal", size, [1.0, 0.0], 2.0, 1.0, ptype, stype)
                yield P("normal", size, [1.0, 1.0], 1.0, 0.0, ptype, stype)
                yield P("normal", size, [2.0, -1.0], -1.0, 2.0, ptype, stype)
                yield P("super_gaussian", size, [1.0, 0.0, 2], 1.0, 0.0, ptype, stype)
                yield P("triangular", size, [-5.0, 5.0], 1.0, 0.0, ptype, stype)
                yield P("triangular", size, [-4.0, 3.0], 2.0, 1.0, ptype, stype)
            yield P("triangular", 9, [-5.0, 0.0], 1.0, 0.0, ptype, stype)           # mode on the limit and on the axis
            yield P("triangular", 9, [0.0, 4.0], -1.0, 0.0, ptype, stype)

    # ------------------------------------------------------------------ evaluation
    def evaluate(self, case, ctx):
        with np.errstate(all="ignore"):
            return getattr(self, "eval_" + case["kind"].replace("-", "_"))(case, ctx)

    def eval_convolve(self, case, ctx):
        from pewlib.process import convolve as cv

        xdt, pdt = case.get("xdt", "float64"), case.get("pdt", "float64")
        xq = [Fraction(v, case.get("xden", 4)) for v in case["x"]]
        pq = [Fraction(v, case.get("pden", 32)) for v in case["psf"]]
        n, m = len(xq), len(pq)
        why = dtype_domain(xdt, pdt, xq, pq)
        if why is not None:                     # outside the class (only a shrinker / hand-written replay gets here)
            return outcome({}, {}, {}, spec_ok=True, model_ok=True, undetermined=True, features=["convolve:outside-domain"],
                           note=why)
        inq = n >= m                            # the property's quantifier: signals at least as long as the kernel
        x, psf = np.array([float(v) for v in xq]).astype(xdt), np.array([float(v) for v in pq]).astype(pdt)
        rep = ctx.driver.call("c18.convolve", x=[core.rat(v) for v in xq], psf=[core.rat(v) for v in pq])
        hexs = lambda l: [float(v).hex() for v in l]
        try:
            out = cv.convolve(x, psf, mode="pad")
            vals = [float(v) for v in out]
            # the modes handed to numpy: full (the premise of the deconvolution clause), valid, same
            other = {md: hexs(cv.convolve(x, psf, mode=md)) for md in ("full", "valid", "same")}
        except Exception as e:
            r = {"raises": type(e).__name__}
            return outcome(r, {}, {}, spec_ok=not inq, model_ok=False, hyp=inq, features=["convolve:raises"])
        impl = {"values": hexs(vals), **other}
        # the mechanism model (padEdge, then the valid convolution), and the same values from the entry-by-entry
        # specification of the whole result (padConvSpec; pad_conv_eq_spec: the two agree for every input)
        model = {"values": hexs(fl(v) for v in rep["model"]), **{md: hexs(fl(v) for v in rep[md]) for md in other}}
        entries_ok = rep["entries"] == rep["model"]
        sp = rep["spec"]
        spec = {"length": sp["length"], "interior": [[k, fl(v).hex()] for k, v in sp["interior"]],
                "constant": None if sp["constant"] is None else fl(sp["constant"]).hex()}
        proj = {"length": len(vals), "interior": [[k, vals[k].hex()] for k, _ in sp["interior"] if k < len(vals)],
                "constant": None if sp["constant"] is None else
                (spec["constant"] if all(v.hex() == spec["constant"] for v in vals) else "not reproduced")}
        feats = {"convolve", f"convolve:m={m}" if m <= 9 else "convolve:m>=10", "convolve:m-" + ("odd" if m % 2 else "even")}
        if n == m:
            feats.add("convolve:n=m")
        if sp["constant"] is not None:
            feats.add("convolve:constant,sum=1")
        if sp["interior"]:
            feats.add("convolve:has-interior")
        feats |= self.dtype_features("convolve", xdt, pdt, out)
        spec_ok = core.canon(proj) == core.canon(spec)
        model_ok = entries_ok and core.canon(impl) == core.canon(model)
        if not inq:
            # a kernel longer than the signal: outside the quantifier.  The clauses that speak of every kernel length
            # (output length, constants reproduced) are compared with the model; the edge values and what numpy's own
            # modes return for swapped arguments are recorded only
            feats.add("convolve:n<m(model-only)")
            clauses_ok = entries_ok and len(vals) == len(rep["model"]) and proj["constant"] == spec["constant"]
            if clauses_ok and not model_ok:
                feats.add("convolve:n<m:differs-from-model-outside-the-quantifier(recorded only)")
            spec_ok, model_ok = True, clauses_ok
        return outcome(impl, model, spec, spec_ok=spec_ok, model_ok=model_ok, hyp=inq, features=feats)

    # -- class "convolve:float-kernel": TWO PUBLIC FUNCTIONS COMBINED - the weights a kernel generator returns (they sum
    #    to one up to rounding only, and are not dyadic) are the kernel of a pad-mode convolution
    def eval_convolve_kernel(self, case, ctx):
        from pewlib.process import convolve as cv

        g = case["gen"]
        xq = [Fraction(v, 4) for v in case["x"]]
        n = len(xq)
        sub = self.eval_kernel({"kind": "kernel", **g}, ctx)           # the kernel case itself must be inside its class
        if sub["undetermined"] or not (sub["spec_ok"] and sub["model_ok"]) or g["size"] < 2:
            return outcome({}, {}, {}, spec_ok=True, model_ok=True, undetermined=True,
                           features=["convolve:float-kernel:kernel-outside-its-class"], note=sub["note"])
        try:
            psf = np.asarray(getattr(cv, g["name"])(g["size"], *g["args"], scale=g["scale"], shift=g["shift"]))[:, 1].copy()
            x = np.array([float(v) for v in xq])
            out = cv.convolve(x, psf, mode="pad")
            vals = [float(v) for v in out]
        except Exception as e:
            return outcome({"raises": type(e).__name__}, {}, {}, spec_ok=False, model_ok=False, features=["convolve:raises"])
        m = len(psf)
        pq = [Fraction(float(v)) for v in psf]                       # the weights pewlib returned, exactly
        rep = ctx.driver.call("c18.convolve", x=[core.rat(v) for v in xq], psf=[core.rat(v) for v in pq])
        # a sum of m products in double precision: (m + 2) 2**-53 sum |psf_j| max |x|
        tol = (m + 2) * 2.0 ** -53 * float(sum(abs(v) for v in pq)) * max([float(abs(v)) for v in xq] + [1e-300])
        exact = [unrat(v) for v in rep["model"]]
        close = lambda a, q: abs(Fraction(a) - q) <= Fraction(tol)
        model_ok = len(vals) == len(exact) and all(close(a, q) for a, q in zip(vals, exact)) and rep["entries"] == rep["model"]
        sp = rep["spec"]
        inq = n >= m
        interior_ok = all(k < len(vals) and close(vals[k], unrat(v)) for k, v in sp["interior"])
        const = all(v == xq[0] for v in xq)
        off = abs(sum(pq) - 1)                                        # how far the returned weights are from unit sum
        # the hypothesis "the kernel sums to one" in floating point: within the rounding of a normalisation
        unit = off <= Fraction(8 * (m + 4), 2 ** 53)
        const_ok = (not (const and unit)) or all(abs(Fraction(a) - xq[0]) <= Fraction(tol) + off * abs(xq[0]) for a in vals)
        impl = {"length": len(vals), "interior_is_ordinary_convolution": bool(interior_ok), "constant_reproduced": bool(const_ok)}
        spec = {"length": n, "interior_is_ordinary_convolution": True, "constant_reproduced": True}
        feats = {"convolve:float-kernel", "convolve:float-kernel:" + g["name"], "convolve:float-kernel:m-" + ("odd" if m % 2 else "even")}
        if const and unit:
            feats.add("convolve:float-kernel:constant-signal,kernel-sums-to-one-up-to-rounding")
        if not inq:
            feats.add("convolve:float-kernel:n<m(model-only)")
        mdl = {"values": "lean convolvePad of the returned weights (exact)", "within": tol}
        return outcome(impl, mdl, spec, spec_ok=(not inq) or core.canon(impl) == core.canon(spec), model_ok=model_ok,
                       hyp=inq, features=feats)

    # -- class "history": the same array OBJECTS over several calls - equal arguments twice with the first result
    #    edited in place in between, the kernel / signal arrays overwritten with new content and passed again
    HIST_RESULT_EDITS = ["times-3-plus-1", "zeros", "nan", "reverse"]

    def eval_history(self, case, ctx):
        from pewlib.process import convolve as cv

        fn, steps = case["fn"], case["steps"]
        if fn not in ("convolve", "deconv") or not steps:
            return outcome({}, {}, {}, spec_ok=True, model_ok=True, undetermined=True, features=["history:outside-domain"])
        xden, pden = (4, 32) if fn == "convolve" else (1, 8)
        arrs = {}
        impl, model, spec = [], [], []
        spec_ok = model_ok = True
        feats = {"history", "history:" + fn, f"history:{fn}:steps={len(steps)}"}

        def put(key, vals):
            """the same array object as in the step before when the length allows it (np.copyto), else a new one"""
            a = arrs.get(key)
            if a is not None and a.shape == (len(vals),):
                np.copyto(a, np.array(vals))
                feats.add(f"history:{fn}:{key}-array-object-reused")
            else:
                arrs[key] = a = np.array(vals)
            return a

        prev = None
        for st in steps:
            xq = [Fraction(v, xden) for v in st["x"]]
            pq = [Fraction(v, pden) for v in st["psf"]]
            mode = st.get("mode", "pad" if fn == "convolve" else "valid")
            if not xq or not pq or len(xq) < len(pq) or st.get("edit") not in self.HIST_RESULT_EDITS \
                    or (fn == "deconv" and (4 * abs(pq[0]) < 5 * sum(abs(v) for v in pq[1:]) or mode not in ("valid", "same"))) \
                    or (fn == "convolve" and (mode != "pad" or dtype_domain("float64", "float64", xq, pq) is not None)):
                return outcome({}, {}, {}, spec_ok=True, model_ok=True, undetermined=True, features=["history:outside-domain"])
            if prev == (st["x"], st["psf"], mode):
                feats.add(f"history:{fn}:equal-arguments-again")
            prev = (st["x"], st["psf"], mode)
            try:
                if fn == "convolve":
                    rep = ctx.driver.call("c18.convolve", x=[core.rat(v) for v in xq], psf=[core.rat(v) for v in pq])
                    xa, pa = put("signal", [float(v) for v in xq]), put("kernel", [float(v) for v in pq])
                    res = cv.convolve(xa, pa, mode="pad")
                    vals = [float(v) for v in res]
                    want = [fl(v) for v in rep["model"]]
                    sp = rep["spec"]
                    ok_m = [v.hex() for v in vals] == [v.hex() for v in want]
                    ok_s = len(vals) == sp["length"] and all(k < len(vals) and vals[k].hex() == fl(v).hex() for k, v in sp["interior"]) \
                        and (sp["constant"] is None or all(v.hex() == fl(sp["constant"]).hex() for v in vals))
                else:
                    rep = ctx.driver.call("c18.deconv", x=[core.rat(v) for v in xq], psf=[core.rat(v) for v in pq])
                    ca, pa = put("signal", [fl(v) for v in rep["c"]]), put("kernel", [float(v) for v in pq])
                    res = cv.deconvolve(ca, pa, mode=mode)
                    vals = [float(v) for v in res]
                    tol = TOL64 * (1 + max(abs(float(v)) for v in xq))
                    lead = [fl(v) for v in rep["spec"]]
                    want = [fl(v) for v in (rep["model"] if mode == "valid" else rep["model_same"])]
                    xs = [float(v) for v in xq]
                    got = vals if mode == "valid" else vals[: len(lead)]
                    ok_s = len(lead) <= len(got) <= len(xs) and all(abs(a - b) <= tol for a, b in zip(got, xs))
                    ok_m = bool(rep["terminates"]) and len(vals) == len(want) and all(abs(a - b) <= tol for a, b in zip(vals, want))
                # the caller now edits the returned array in place
                ed = st["edit"]
                if isinstance(res, np.ndarray) and res.size:
                    if ed == "times-3-plus-1":
                        res *= 3.0
                        res += 1.0
                    elif ed == "zeros":
                        res[...] = 0.0
                    elif ed == "nan":
                        res[...] = np.nan
                    else:
                        res[...] = res[::-1].copy() + 0.5
                feats.add(f"history:{fn}:result-edited:{ed}")
            except Exception as e:
                return outcome({"raises": type(e).__name__}, {}, {}, spec_ok=False, model_ok=False, features=["history:raises"])
            impl.append([v.hex() for v in vals])
            model.append([v.hex() for v in want])
            spec.append("as for a single call" if ok_s else "violated")
            spec_ok, model_ok = spec_ok and ok_s, model_ok and ok_m
        return outcome({"steps": impl}, {"steps": model}, {"steps": spec}, spec_ok=spec_ok, model_ok=model_ok, features=feats)

    @staticmethod
    def dtype_features(op, xdt, pdt, out):
        if (xdt, pdt) == ("float64", "float64"):
            return set()
        kind = lambda d: {"i": "int", "u": "uint", "f": "float32" if np.dtype(d).itemsize == 4 else "float64"}[np.dtype(d).kind]
        return {op + ":dtype", f"{op}:dtype:signal-{kind(xdt)},kernel-{kind(pdt)}", f"{op}:dtype:result-{np.asarray(out).dtype}"}

    def eval_deconv(self, case, ctx):
        from pewlib.process import convolve as cv

        xdt, pdt = case.get("xdt", "float64"), case.get("pdt", "float64")
        typed = "xdt" in case or "pdt" in case
        xq = [Fraction(v) for v in case["x"]]
        pq = [Fraction(v, case.get("pden", 8)) for v in case["psf"]]
        mode = case["mode"]
        why = dtype_domain(xdt, pdt, xq, pq)
        if why is None and 4 * abs(pq[0]) < 5 * sum(abs(v) for v in pq[1:]):
            why = "kernel not first-tap dominant (|p0| >= 1.25 sum|rest|: condition number <= 9)"
        if why is not None:
            return outcome({}, {}, {}, spec_ok=True, model_ok=True, undetermined=True, features=["deconv:outside-domain"], note=why)
        inq = len(xq) >= len(pq)            # the property's quantifier: signals at least as long as the kernel
        rep = ctx.driver.call("c18.deconv", x=[core.rat(v) for v in xq], psf=[core.rat(v) for v in pq])
        cexact = [fl(v) for v in rep["c"]]
        psf = np.array([float(v) for v in pq]).astype(pdt)
        f32 = any(np.dtype(d) == np.float32 for d in (xdt, pdt))
        tol = (TOL32 if f32 else TOL64) * (1 + max(abs(float(v)) for v in xq))
        try:
            if typed:   # the full convolution is produced by pewlib itself from the typed arrays and keeps numpy's result dtype
                c = cv.convolve(np.array([float(v) for v in xq]).astype(xdt), psf, mode="full")
            else:
                c = np.array(cexact)
            full = [float(v) for v in c]
            res = cv.deconvolve(c, psf, mode=mode)
            out = [float(v) for v in res]
        except Exception as e:
            return outcome({"raises": type(e).__name__}, {}, {}, spec_ok=False, model_ok=False, features=["deconv:raises"])
        spec = [fl(v) for v in rep["spec"]]                       # the leading n - 2 samples (deconvolve_fullConv)
        model = [fl(v) for v in (rep["model"] if mode == "valid" else rep["model_same"])]
        xs = [float(v) for v in xq]
        # the property fixes what the samples are, not how many: demand at least the n - 2 leading samples of x,
        # and in 'valid' mode nothing but leading samples of x
        lead = out if mode == "valid" else out[: len(spec)]
        spec_ok = len(spec) <= len(lead) <= len(xs) and all(abs(a - b) <= tol for a, b in zip(lead, xs))
        # the quotient of a full convolution terminates (deconv_conv), so the model's values are comparable
        model_ok = bool(rep["terminates"]) and full == cexact and len(out) == len(model) and \
            all(abs(a - b) <= tol for a, b in zip(out, model))
        feats = {"deconv", "deconv:" + mode, f"deconv:m={len(pq)}"} | self.zero_features(xq)
        if len(xq) <= len(pq) + 2:
            feats.add("deconv:n-m=" + str(len(xq) - len(pq)) if inq else "deconv:n<m(model-only)")
        if typed:
            feats |= self.dtype_features("deconv", xdt, pdt, res)
            feats.add(f"deconv:dtype:full-convolution-{c.dtype}")
            if c.dtype.kind in "iu":
                feats.add(f"deconv:dtype:integer-full-convolution,{mode}")
        if not inq:     # shorter than the kernel: outside the property
            spec_ok = True
            if not model_ok and len(full) <= len(pq):
                # negative slice stop: the result depends on the transform length r, an artefact outside every clause of
                # the property; a difference from the model is recorded, never a broken correspondence
                feats.add("deconv:differs-from-model-outside-the-quantifier(recorded only)")
                model_ok = True
        return outcome({"full": full, "values": out}, {"full": cexact, "values": model}, {"leading": spec}, spec_ok=spec_ok,
                       model_ok=model_ok, hyp=inq, features=feats)

    def eval_deconv_raw(self, case, ctx):
        """deconvolve applied to an arbitrary array (any length >= 1): outside the property; compared with the model
        only - the length always (Python's slice with a negative stop), the values when the quotient terminates"""
        from pewlib.process import convolve as cv

        cq = [Fraction(v) for v in case["c"]]
        pq = [Fraction(v, case.get("pden", 8)) for v in case["psf"]]
        mode = case["mode"]
        if not cq or not pq or 4 * abs(pq[0]) < 5 * sum(abs(v) for v in pq[1:]):
            return outcome({}, {}, {}, spec_ok=True, model_ok=True, undetermined=True, features=["deconv:outside-domain"],
                           note="empty input or kernel not first-tap dominant")
        rep = ctx.driver.call("c18.deconv_raw", c=[core.rat(v) for v in cq], psf=[core.rat(v) for v in pq])
        try:
            res = cv.deconvolve(np.array([float(v) for v in cq]), np.array([float(v) for v in pq]), mode=mode)
            out = [float(v) for v in res]
        except Exception as e:
            return outcome({"raises": type(e).__name__}, {}, {}, spec_ok=True, model_ok=False, hyp=False,
                           features=["deconv-raw:raises"])
        mvalid = [fl(v) for v in rep["model"]]
        model = mvalid if mode == "valid" else [fl(v) for v in rep["model_same"]]
        tol = TOL64 * (1 + max(abs(float(v)) for v in cq))
        term = bool(rep["terminates"])
        model_ok = len(out) == len(model)
        if model_ok and mode == "same":         # the copied tail c[rec.size:] is exact whatever the quotient does
            model_ok = out[len(mvalid):] == model[len(mvalid):]
        if model_ok and term:
            model_ok = all(abs(a - b) <= tol for a, b in zip(out, model))
        n, m = len(cq), len(pq)
        feats = {"deconv-raw", "deconv-raw:" + mode,
                 "deconv-raw:len-c" + ("<" if n < m else "=" if n == m else "=len-psf+1" if n == m + 1 else ">") + ("len-psf" if n != m + 1 else ""),
                 "deconv-raw:quotient-" + ("terminates(values-compared)" if term else "does-not-terminate(length-only)")}
        if n <= m:
            feats.add("deconv-raw:negative-slice-stop")
            if not model_ok:
                # no longer than the kernel: the slice stop is negative and what comes back depends on the transform
                # length r, an artefact no clause of the property (signals of length >= kernel length) speaks about;
                # a different r is a harmless rewrite, so a difference here is recorded, never a broken correspondence
                feats.add("deconv-raw:differs-from-model-outside-the-quantifier(recorded only)")
                model_ok = True
        impl = {"length": len(out), "values": out if term else "not compared"}
        mdl = {"length": len(model), "values": model if term else "not compared"}
        return outcome(impl, mdl, {}, spec_ok=True, model_ok=model_ok, hyp=False, features=feats)

    def special(self, case, ctx, name, impl_fn, true_fn, ok_fn, model_op=None, model_rel=1e-10, model_max=1e6, model_abs=1e-300, model_min=1e-30):
        xs = [float(x) for x in case["xs"]]
        vals = impl_fn(xs)
        bad, badm = [], []
        exact = {}
        if model_op is not None:
            idx = [i for i, x in enumerate(xs) if 0 < abs(x) <= model_max and abs(x) >= model_min or x == 0]
            if idx:
                rep = ctx.driver.call(model_op, xs=[core.rat(xs[i]) for i in idx])
                exact = {i: fl(v) for i, v in zip(idx, rep["model"])}
        for i, (x, v) in enumerate(zip(xs, vals)):
            t = true_fn(x)
            if not ok_fn(v, t):
                bad.append([x.hex(), float(v).hex(), float(t).hex()])
            if i in exact and not near(v, exact[i], model_rel, model_abs):
                badm.append([x.hex(), float(v).hex(), exact[i].hex()])
        impl = {"n": len(xs), "outside_tolerance": bad}
        spec = {"n": len(xs), "outside_tolerance": []}
        model = {"n": len(xs), "differs_from_exact_evaluation": badm}
        feats = {name} | self.argtype_features(name, case.get("ty", "float"))
        if any(x < 0 for x in xs):
            feats.add(name + ":negative")
        if any(0 < abs(x) < 1e-6 for x in xs):
            feats.add(name + ":tiny")
        return impl, model, spec, not bad, not badm, feats

    @staticmethod
    def guarded(fn, errors):
        """fn(list) -> list of floats; an exception of the implementation (an argument type it does not take) becomes
        NaN for every argument - outside every tolerance - and its class name is recorded"""
        def run(xs):
            try:
                return fn(xs)
            except Exception as e:      # noqa: BLE001 - whatever the implementation raises is an observation
                errors.add(type(e).__name__)
                return [math.nan] * len(xs)
        return run

    @staticmethod
    def argtype_features(name, ty):
        if ty == "float":
            return set()
        return {name + ":argtype", f"{name}:argtype:{ty}", f"{name}:argtype:{ty_group(ty)}"}

    @staticmethod
    def outside_argtype(case, both_signs=False):
        """the undetermined outcome of a case whose arguments the argument type cannot hold (only a shrinker or a
        hand-written replay gets here), else None"""
        why = ty_domain(case.get("ty", "float"), [float(x) for x in case["xs"]], both_signs)
        if why is None:
            return None
        return outcome({}, {}, {}, spec_ok=True, model_ok=True, undetermined=True, features=[case["kind"] + ":outside-argtype"],
                       note=why)

    def eval_erf(self, case, ctx):
        from pewlib.process import convolve as cv

        ty = case.get("ty", "float")
        out = self.outside_argtype(case, both_signs=True)
        if out is not None:
            return out
        kind, dt, arr0 = ty_parse(ty)
        make = ty_make(ty)
        unsigned = ty_unsigned(ty)

        def run(xs):
            if case["array"] and not arr0:
                if kind == "pyfloat":
                    arr = np.array(xs)
                elif kind == "pyint":
                    arr = np.array([int(x) for x in xs]) if xs else np.array([], dtype=np.int64)
                else:
                    arr = np.array([int(x) for x in xs] if kind in "iu" else xs, dtype=dt)
                return [float(v) for v in np.asarray(cv.erf(arr)).ravel()]
            return [float(np.asarray(cv.erf(make(x))).ravel()[0]) for x in xs]

        errors = set()
        run = self.guarded(run, errors)
        impl, model, spec, sok, mok, feats = self.special(
            case, ctx, "erf", run, math.erf, lambda v, t: abs(v - t) <= ERF_ABS + (SINGLE_BUDGET if ty_single(ty) else 0.0),
            "c18.erf", model_rel=SINGLE_BUDGET if ty_single(ty) else 1e-11,
            model_abs=SINGLE_BUDGET if ty_single(ty) else 1e-13)  # 1 - 1/(1+s)^4 cancels for tiny x
        # oddness, bit-exact: erf(-x) == -erf(x)
        xs = [float(x) for x in case["xs"]]
        odd = [x for x in xs if not unsigned or x == 0]            # an unsigned type holds no negative argument
        pos, neg = run(odd), run([-x for x in odd])
        notodd = [x.hex() for x, a, b in zip(odd, pos, neg) if not (a == -b)]
        impl["not_odd"], spec["not_odd"] = notodd, []
        impl["raises"], spec["raises"] = sorted(errors), []
        if any(abs(x) > 1e3 for x in xs):
            feats.add("erf:huge")
        feats.add("erf:array" if case["array"] else "erf:scalar")
        return outcome(impl, model, spec, spec_ok=sok and not notodd and not errors, model_ok=mok, features=feats)

    def eval_erfinv(self, case, ctx):
        from pewlib.process import convolve as cv

        ty = case.get("ty", "float")
        out = self.outside_argtype(case, both_signs=True)
        if out is not None:
            return out
        make, single = ty_make(ty), ty_single(ty)
        unsigned = ty_unsigned(ty)
        errors = set()
        run = self.guarded(lambda xs: [float(cv.erfinv(make(x))) for x in xs], errors)
        tol = ERFINV_REL + (SINGLE_BUDGET if single else 0.0)
        ok = lambda v, t: (v == t) if t == 0 else abs(v - t) <= tol * abs(t)
        impl, _, spec, sok, _, feats = self.special(case, ctx, "erfinv", run, erfinv_true, ok)
        xs = [float(x) for x in case["xs"]]
        pos = run(xs)
        neg = pos if unsigned else run([-x for x in xs])           # an unsigned type holds 0 only: -0 is 0
        notodd = [x.hex() for x, a, b in zip(xs, pos, neg) if not (a == -b)]
        mrel = SINGLE_BUDGET if single else 1e-10                  # single precision: log1p, sqrt, the quotients in float32
        # the model: erfinv as coded around pi, log1p and sqrt (erfinvWith).  The opaque pieces get the standard library's
        # values (math.pi, math.log1p at the float -x*x the code forms) and a 30-digit rational square root; the rest
        # (sign, constants, the two nested quotients) is evaluated exactly by the driver
        ls = [math.log1p(-x * x) if abs(x) < 1 else math.nan for x in xs]
        idx = [i for i, l in enumerate(ls) if math.isfinite(l)]
        differs, modelodd = [], []
        if idx:
            rep = ctx.driver.call("c18.erfinv", xs=[core.rat(xs[i]) for i in idx], ls=[core.rat(ls[i]) for i in idx],
                                  pi=core.rat(math.pi))
            for i, mv, mn in zip(idx, rep["model"], rep["model_neg"]):
                if not near(pos[i], fl(mv), mrel):
                    differs.append([xs[i].hex(), pos[i].hex(), fl(mv).hex()])
                if unrat(mv) != -unrat(mn):
                    modelodd.append(xs[i].hex())
        impl["raises"], spec["raises"] = sorted(errors), []
        sok = sok and not errors
        impl["not_odd"], impl["differs_from_erfinvWith"] = notodd, differs
        model = {"not_odd": [], "differs_from_erfinvWith": [], "model_itself_not_odd": modelodd}
        spec["not_odd"] = notodd            # oddness of erfinv is a model fact (erfinv_odd), not a clause of the property
        if any(1 - abs(x) < 1e-9 for x in xs):
            feats.add("erfinv:near-one")
        if any(0 < abs(x) < (F32_TINY if single else UNDERFLOW) for x in xs):
            feats.add("erfinv:underflow-range")
        if idx:
            feats.add("erfinv:model-evaluated")
        return outcome(impl, model, spec, spec_ok=sok, model_ok=not notodd and not differs and not modelodd, features=feats)

    def eval_gamma(self, case, ctx):
        from pewlib.process import convolve as cv

        ty = case.get("ty", "float")
        out = self.outside_argtype(case)
        if out is None and any(not x > 0 for x in case["xs"]):
            out = outcome({}, {}, {}, spec_ok=True, model_ok=True, undetermined=True, features=["gamma:outside-argtype"],
                          note="gamma: positive arguments only")
        if out is not None:
            return out
        make = ty_make(ty)
        errors = set()
        run = self.guarded(lambda xs: [float(cv.gamma(make(x))) for x in xs], errors)
        # single precision: as coded only 1.0 / x below one is a float32 quotient (half an ulp = 6e-8: the 3e-7 still
        # holds, worst 2.94e-7 over every float32 below one); a rewrite may carry the product in float32
        gtol = GAMMA_REL + (SINGLE_BUDGET if ty_single(ty) else 0.0)
        impl, model, spec, sok, mok, feats = self.special(
            case, ctx, "gamma", run, math.gamma, lambda v, t: abs(v - t) <= gtol * abs(t), "c18.gamma",
            model_rel=SINGLE_BUDGET if ty_single(ty) else 1e-10, model_max=1e3, model_min=1e-310)
        xs = [float(x) for x in case["xs"]]
        # integer arguments, whatever type carries them: the Lean specification Gamma(n) = (n - 1)! (the model equals it
        # exactly: gammaApprox_nat) - no library gamma function involved
        ints = [i for i, x in enumerate(xs) if x == int(x) and 1 <= x <= 170]
        if ints:
            rep = ctx.driver.call("c18.gamma_int", ns=[int(xs[i]) for i in ints])
            vals = run([xs[i] for i in ints])
            badf = [[xs[i].hex(), repr(v), str(f)] for i, v, f in zip(ints, vals, rep["spec"])
                    if not (math.isfinite(v) and abs(Fraction(v) - f) <= Fraction(gtol) * f)]
            badm = [xs[i].hex() for i, m, f in zip(ints, rep["model"], rep["spec"]) if unrat(m) != f]
            impl["integer_outside_factorial_tolerance"], spec["integer_outside_factorial_tolerance"] = badf, []
            model["model_differs_from_factorial"] = badm
            sok, mok = sok and not badf, mok and not badm
            feats.add("gamma:integer:factorial-specification")
            if ty_integer(ty):
                top = max(xs[i] for i in ints)
                # (n-1)! leaves int32 at n = 14, int64 at n = 22, the exact range of float32 at n = 12
                feats.add("gamma:argtype:integer-typed:" + ("n>=22" if top >= 22 else "n>=14" if top >= 14 else "n<14"))
        impl["raises"], spec["raises"] = sorted(errors), []
        sok = sok and not errors
        if any(x < 1 for x in xs):
            feats.add("gamma:below-one")
        if any(x == int(x) for x in xs):
            feats.add("gamma:integer")
        if any(x > 20 for x in xs):
            feats.add("gamma:above-20")
        return outcome(impl, model, spec, spec_ok=sok, model_ok=mok, features=feats)

    @staticmethod
    def kernel_domain(name, size, args, axq, lim=None):
        """None when the parameters lie in the documented domain and the exact axis inside the density's support
        (the property's 'density finite on that axis'); else the reason.  Generated cases always pass; this keeps
        evaluate sound for cases a shrinker or a hand-written replay produces.  lim = None (double precision): whether
        the sampled densities have a positive finite float sum is decided by the Lean tail decision (c18.kernel), not
        here; lim = 70 (a single-precision parameter): the exponent limit of float32."""
        if size < 2 or not all(isinstance(v, (int, float)) and math.isfinite(v) for v in args):
            return "size < 2 or non-finite parameter"
        lo, hi = min(axq), max(axq)
        if name == "beta":
            if size < 3 or args[0] < 1 or args[1] < 1 or lo < 0 or hi > 1:
                return "beta: shapes >= 1, >= 3 points, axis inside [0, 1]"
        elif name == "exponential":
            if args[0] <= 0 or lo < 0 or (lim is not None and args[0] * float(lo) > lim):
                return "exponential: lambda > 0, axis inside x >= 0, density above the underflow range"
        elif name in POS_KERNELS:
            if args[0] <= 0 or lo <= 0 or (name == "inversegamma" and args[1] <= 0):
                return name + ": positive parameters, axis inside x > 0"
            if name == "inversegamma" and lim is not None and lim < 600 and (args[0] + 1) * max(0.0, -math.log10(float(lo))) > 36:
                return "inversegamma: x ** (-alpha - 1) overflows in single precision at the first axis point"
        elif name == "triangular":
            if not (args[0] <= 0 <= args[1] and args[0] < args[1]):
                return "triangular: a <= 0 <= b, a < b"
        else:
            if args[0] <= 0:
                return name + ": width > 0"
            if name == "super_gaussian" and not (args[2] == int(args[2]) and 1 <= args[2] <= 16):
                return "super_gaussian: integer power"
            if lim is None:
                return None
            d = float(min(abs(v - Fraction(args[1])) for v in axq)) / args[0]      # nearest axis point, in widths
            expo = {"laplace": d, "normal": 0.5 * d * d}.get(name) if name != "super_gaussian" else \
                0.5 * d ** (2 * int(args[2])) if d < 1e3 else math.inf
            if expo > lim:
                return name + ": no axis point carries density above the underflow range"
        return None

    @staticmethod
    def param_type_domain(name, size, args, ptype, stype):
        """None when the parameter / size types belong to the class, else the reason (undetermined)"""
        if ptype not in PARAM_TYPES + ["float"] or stype not in SIZE_TYPES:
            return "parameter or size type outside the class (unsigned numpy scalars: -x wraps around)"
        if stype != "int" and size > np.iinfo(np.dtype(stype)).max // 64:
            return "size too large for its type"
        if name == "inversegamma" and ptype in ("int64", "int32", "int16") and all(v == int(v) and 0 < v <= PARAM_INT_MAX for v in args[:2]):
            if int(args[1]) ** int(args[0]) > np.iinfo(np.dtype(ptype)).max:
                return "inversegamma: beta**alpha formed from two numpy integers leaves their type"
        return None

    @staticmethod
    def param_conv(ptype, size):
        """list of numbers -> (the same numbers, each in the parameter type when the type holds it, else as the Python
        float it is; which ones were converted).  Integer types take whole numbers up to PARAM_INT_MAX (integer-only
        subexpressions - size*scale + shift, a*(a - b), 2*power - then stay far inside int16); float32 takes
        multiples of 1/64 up to 64 (size*0.5*scale + shift is then exact in single precision for sizes <= 1024)."""
        def one(v):
            if isinstance(v, bool) or not isinstance(v, (int, float)) or ptype == "float":
                return v, False
            if ptype == "float64":
                return np.float64(v), True
            if ptype == "float32":
                if size <= 1024 and abs(v) <= 64 and v * 64 == int(v * 64):
                    return np.float32(v), True
                return v, False
            if v == int(v) and abs(v) <= PARAM_INT_MAX:
                return (int(v) if ptype == "int" else np.dtype(ptype).type(int(v))), True
            return v, False

        def conv(vals):
            pairs = [one(v) for v in vals]
            return [p[0] for p in pairs], [p[1] for p in pairs]
        return conv

    # ---- histories of the kernel generators: what the caller does to a returned kernel before asking again
    HIST_EDITS = ["scale-weights", "shift-axis", "zero-everything", "reverse-weights", "nan-weights"]
    HIST_AGAIN = ["same-objects", "python-int-where-whole", "numpy-float64"]

    @staticmethod
    def hist_edit(raw, edit):
        """edit a returned kernel IN PLACE, the way a caller may (peak-normalise, move the axis, clear, flip)"""
        if edit == "scale-weights":
            raw[:, 1] *= 3.0
        elif edit == "shift-axis":
            raw[:, 0] += 1.0
        elif edit == "zero-everything":
            raw[...] = 0.0
        elif edit == "reverse-weights":
            raw[:, 1] = raw[::-1, 1].copy()
            raw[0, 1] += 0.25
        elif edit == "nan-weights":
            raw[:, 1] = np.nan

    @staticmethod
    def hist_again(vals, how):
        """equal arguments for the second call: the same objects, or hash-equal numbers of another type"""
        if how == "python-int-where-whole":
            return [int(v) if isinstance(v, float) and v == int(v) and abs(v) < 2 ** 53 else v for v in vals]
        if how == "numpy-float64":
            return [np.float64(v) if isinstance(v, float) else v for v in vals]
        return list(vals)

    def eval_kernel(self, case, ctx):
        from pewlib.process import convolve as cv

        name, size, args, scale, shift = case["name"], case["size"], case["args"], case["scale"], case["shift"]
        axis_kind = "unit" if name == "beta" else "pos" if name in POS_KERNELS else "sym"
        if not all(isinstance(v, (int, float)) and math.isfinite(v) for v in list(args) + [scale, shift]):
            return outcome({}, {}, {}, spec_ok=True, model_ok=True, undetermined=True, features=["kernel:outside-domain"],
                           note="a parameter is not a finite number")
        rep = ctx.driver.call("c18.axis", kind=axis_kind, size=size, scale=core.rat(scale), shift=core.rat(shift))
        axq = [unrat(v) for v in rep["x"]]
        if size == 1:
            return self.eval_kernel_one(case, ctx, axq)
        ptype, stype = case.get("ptype", "float"), case.get("sizetype", "int")
        typed = "ptype" in case or "sizetype" in case
        hist = case.get("history")
        why = self.param_type_domain(name, size, args, ptype, stype) if typed else None
        if why is None and hist is not None and (typed or hist.get("edit") not in self.HIST_EDITS
                                                 or hist.get("again") not in self.HIST_AGAIN):
            why = "history: unknown edit / repeat, or combined with typed parameters"
        targs, tscale, tshift, tsize, conv = args, scale, shift, size, []
        if why is None and typed:
            pconv = self.param_conv(ptype, size)
            (*targs, tscale, tshift), conv = pconv(list(args) + [scale, shift])
            tsize = size if stype == "int" else np.dtype(stype).type(size)
        # a single-precision parameter anywhere: numpy forms the axis and / or the density in float32 (exp underflows
        # below -87 instead of -745; values, axis and unit sum hold to single-precision rounding)
        single = ptype == "float32" and any(conv)
        AX, WT, EDGE = (1e-6, 1e-5, 1e-5) if single else (1e-12, KERNEL_TOL, 1e-9)
        # unit sum: y / y.sum() in double precision is within (u + eps) / (1 - eps), u = 2**-53 per quotient,
        # eps <= (n - 1) 2**-53 for any order of summation (normalise_approx), whatever the magnitude of the densities
        SUM = 1e-5 if single else 8 * (size + 4) * 2.0 ** -53
        if why is None:
            why = self.kernel_domain(name, size, args, axq, lim=70 if single else None)
        feats = set()
        # the eight generators built from exp / log / powers: the model's weights and the TAIL DECISION (Lean): does
        # a double-precision evaluation of the densities have a positive finite sum, whatever order it multiplies in
        rk = tail = None
        overflow = False
        if why is None and name != "triangular":
            margs = [float(int(v)) if name == "super_gaussian" and i == 2 else v for i, v in enumerate(args)]
            rk = ctx.driver.call("c18.kernel", name=name, size=size, args=[core.rat(v) for v in margs],
                                 scale=core.rat(scale), shift=core.rat(shift))
            tail = rk["tail"]
            if tail["overflow"] and tail["robust"]:
                # an intermediate value of the coded expression may overflow somewhere on the axis (inf, inf * 0 = nan)
                # although the density itself is finite everywhere and robustly a positive double at its best axis
                # point: inside the quantifier, JUDGED against the property; a failure has the signature of known finding
                # C18-kernel-intermediate-overflow (known())
                overflow = True
                feats.add("kernel:tail:intermediate-overflow(judged)")
            elif not tail["robust"]:
                why = "no axis point carries a density robustly above the underflow threshold of double precision"
                feats.add("kernel:tail:underflow-band-or-all-zero(undetermined)")
        call = lambda a, sc, sh: getattr(cv, name)(tsize, *a, scale=sc, shift=sh)
        try:
            raw = call(targs, tscale, tshift) if why is None else None
            out = np.asarray(raw, dtype=float) if why is None else None
        except Exception as e:
            return outcome({"raises": type(e).__name__}, {}, {}, spec_ok=False, model_ok=False, features=["kernel:raises"])
        my = None
        if why is None and name == "triangular":
            r2 = ctx.driver.call("c18.triangular", size=size, a=core.rat(args[0]), b=core.rat(args[1]),
                                 scale=core.rat(scale), shift=core.rat(shift))
            my = [fl(v) for v in r2["y"]]
            thyp = bool(r2["hyp"])      # the hypotheses of triangular_spec: a < b and an axis point strictly inside (a, b)
            # normalisation needs an axis point that carries density whichever way the float axis rounds: one clear of
            # the support edges, or the mode 0 itself when it sits on the exact axis AND the returned axis holds 0.0 there
            mrg = Fraction(EDGE) * max(abs(v) for v in axq)
            a_, b_ = Fraction(args[0]), Fraction(args[1])
            xr = [float(v) for v in out[:, 0]] if out.ndim == 2 and out.shape == (size, 2) else [None] * size
            if not any(my) or not (any(a_ + mrg <= v <= b_ - mrg for v in axq)
                                   or any(v == 0 and xi == 0.0 for v, xi in zip(axq, xr))):
                why = "triangular: no axis point robustly inside the support (normalisation by a zero sum)"
            # the density is a quotient of products of the parameters: keep a * (a - b), b * (b - a) inside the normal range
            mags = [abs(v) for v in (a_, b_, b_ - a_) if v != 0] + [abs(v) for v in axq if v != 0]
            if why is None and min(mags) < Fraction(1, 10 ** 150):
                why = "triangular: a product of the parameters may underflow"
            elif why is None and max(mags) > Fraction(10) ** 150:
                # a * (a - b) or b * (b - a) may overflow although the density is finite: judged, known finding
                overflow = True
                feats.add("kernel:tail:intermediate-overflow(judged)")
        if why is not None:
            return outcome({}, {}, {}, spec_ok=True, model_ok=True, undetermined=True,
                           features=feats | {"kernel:outside-domain"}, note=why)
        ax = [float(v) for v in axq]
        span = max([1e-300] + [abs(v) for v in ax]) if name == "triangular" else max([1.0] + [abs(v) for v in ax])
        if name != "triangular" and rk["y"] is not None:
            mw = [fl(v) for v in rk["y"]]
            # in the subnormal range an intermediate product is known to one step of the subnormal grid only (magnified
            # by the factors above 1 multiplied in afterwards): each weight then moves by up to (n + 1) such steps
            # relative to the sum
            dsum = unrat(tail["dsum"])
            wtol = WT + float(4 * (size + 1) * unrat(tail["amp"]) * Fraction(1, 2 ** 1074) / dsum)

        def observe(o):
            """everything the property says about one returned array, and its comparison with the model"""
            shape_ok = o.ndim == 2 and o.shape == (size, 2)
            x = [float(v) for v in o[:, 0]] if shape_ok else []
            y = [float(v) for v in o[:, 1]] if shape_ok else []
            axis_ok = shape_ok and all(abs(a - b) <= AX * span for a, b in zip(x, ax))
            impl = {"shape": list(o.shape), "axis_matches_linspace": bool(axis_ok),
                    "finite": bool(shape_ok and all(math.isfinite(v) for v in y)),
                    "non_negative": bool(shape_ok and all(v >= 0 for v in y)),
                    "sums_to_one": bool(shape_ok and all(math.isfinite(v) for v in y) and abs(math.fsum(y) - 1.0) <= SUM)}
            model, model_ok, valued = {"axis": "lean linspace", "values": "not compared"}, axis_ok, False
            if name == "triangular" and shape_ok:
                # an axis point within rounding of a kink / support edge may fall on either side of it in floating point
                # (and the density jumps at 0 when a == 0 or b == 0): compare value by value only when every such point
                # is clear of the edges, or sits on one exactly both in the exact axis and in the returned one
                edges = [Fraction(args[0]), Fraction(args[1]), Fraction(0)]
                edge = any(abs(float(v - e)) <= EDGE * span and not (v == e and xi == float(e))
                           for v, xi in zip(axq, x) for e in edges)
                model_ok = axis_ok and (edge or all(abs(a - b) <= (WT if single else 1e-9) for a, b in zip(y, my)))
                model = {"axis": "lean linspace", "values": "lean triangular" + (" (edge within rounding: skipped)" if edge else "")}
            elif shape_ok:
                # the generator as modelled (density formula as coded, normalisation, stacking), the opaque exp / log /
                # power / sqrt(2 pi) evaluated by the driver to 40 digits; weight by weight
                if rk["y"] is None:
                    model = {"axis": "lean linspace", "values": "a modelled value left the domain of exp / log / power: not compared"}
                else:
                    worst = max(abs(a - b) for a, b in zip(y, mw)) if all(math.isfinite(v) for v in y) else math.inf
                    model_ok = axis_ok and worst <= wtol
                    model = {"axis": "lean linspace", "values": "lean " + name + " (40-digit exp/log/pow)",
                             "weights_within": wtol if worst <= wtol else worst}
                    valued = True
            return impl, model, model_ok, x, valued

        impl, model, model_ok, x, valued = observe(out)
        spec = {"shape": [size, 2], "axis_matches_linspace": True, "finite": True, "non_negative": True, "sums_to_one": True}
        if overflow:
            impl["intermediate_overflow_possible"] = spec["intermediate_overflow_possible"] = True
            if not (impl["finite"] and impl["non_negative"] and impl["sums_to_one"]):
                feats.add("kernel:tail:intermediate-overflow:pewlib-returns-nan(known finding)")
        if hist is not None:
            # HISTORY: the caller edits the returned kernel in place and asks again with equal arguments; the property
            # speaks of every call's return value, so the second array must meet it (and the model) like the first
            self.hist_edit(raw, hist["edit"])
            a2, sc2, sh2 = (lambda v: (v[:-2], v[-2], v[-1]))(self.hist_again(list(targs) + [tscale, tshift], hist["again"]))
            try:
                out2 = np.asarray(call(a2, sc2, sh2), dtype=float)
            except Exception as e:
                return outcome({"raises_on_second_call": type(e).__name__}, {}, {}, spec_ok=False, model_ok=False,
                               features=["kernel:history:raises"])
            impl2, model2, ok2, _, _ = observe(out2)
            impl, spec, model = {**impl, "second_call": impl2}, {**spec, "second_call": dict(spec)}, {**model, "second_call": model2}
            model_ok = model_ok and ok2
            feats |= {"kernel:history", "kernel:history:" + name, "kernel:history:edit:" + hist["edit"],
                      "kernel:history:again:" + hist["again"]}
        feats |= {"kernel:" + name, "kernel:size=" + (str(size) if size <= 3 else "4+" if size < 1000 else "1000+")}
        if valued:
            feats.add("kernel:weights-compared-with-the-model")
        if tail is not None:
            dmax = unrat(tail["dmax"])
            if dmax < Fraction(1, 10 ** 200):
                band = ("subnormal(<2.2e-308)" if dmax < Fraction(1, 2 ** 1022) else
                        "tiny-normal(2.2e-308..1e-300)" if dmax < Fraction(1, 10 ** 300) else "1e-300..1e-200")
                sband = "subnormal" if dsum < Fraction(1, 2 ** 1022) else "normal"
                feats |= {"kernel:tail", "kernel:tail:" + name, "kernel:tail:largest-density-" + band,
                          "kernel:tail:sum-of-densities-" + sband}
                if dsum < Fraction(1, 2 ** 1022):
                    feats.add("kernel:tail:sum-of-densities-subnormal:" + name)
                if any(v == 0.0 for v in out[:, 1]):
                    feats.add("kernel:tail:some-weights-exactly-0")
        if scale != 1.0:
            feats.add("kernel:scaled")
        if shift not in (0.0, 1e-6):
            feats.add("kernel:shifted")
        # boundary classes, detected from the case itself (whoever generated it)
        bd = set()
        zero_on_axis = any(v == 0 for v in axq) and 0.0 in x
        if scale < 0:
            bd.add("neg-scale")
        if zero_on_axis:
            bd.add("axis-has-exact-0")
        if name == "triangular":
            a_, b_ = args
            if b_ == 0:
                bd.add("triangular:b=0")
            if a_ == 0:
                bd.add("triangular:a=0")
            if (a_ == 0 or b_ == 0) and zero_on_axis:
                bd.add("triangular:mode-on-limit-and-on-axis")
            if any(v == e and xi == float(e) for v, xi in zip(axq, x) for e in (Fraction(a_), Fraction(b_)) if e != 0):
                bd.add("triangular:support-end-on-axis")
        elif name == "beta":
            if 1.0 in args:
                bd.add("beta:shape=1")
            if args[0] == 1.0 and 0.0 in x or args[1] == 1.0 and 1.0 in x:
                bd.add("beta:shape=1-at-its-end-point")
        elif name == "exponential":
            if zero_on_axis:
                bd.add("exponential:x=0")
        elif name in ("loglaplace", "lognormal"):
            if any(xi > 0 and math.log(xi) == args[1] for xi in x):
                bd.add(name + ":log-x=mu-on-axis")
        elif name in ("laplace", "normal", "super_gaussian"):
            if args[1] in x:
                bd.add(name + ":location-on-axis")
            if name == "super_gaussian":
                bd.add("super_gaussian:power" + ("=1" if args[2] == 1 else "=2" if args[2] == 2 else ">2"))
        if typed:
            if single:
                feats.add("kernel:param-type:single-precision-tolerances")
            feats |= {"kernel:param-type", "kernel:param-type:" + ptype, "kernel:param-type:" + name, "kernel:size-type:" + stype,
                      "kernel:param-type:" + ("every-parameter-typed" if all(conv) else "some-parameters-typed" if any(conv)
                                               else "no-parameter-representable")}
            if name in ("beta", "inversegamma") and conv[0] and ptype in ("int", "int64", "int32", "int16"):
                feats.add("kernel:param-type:gamma-of-an-integer-typed-shape")
                top = args[0] + args[1] if name == "beta" and conv[1] else args[0]
                if top >= 22:
                    feats.add("kernel:param-type:gamma-of-an-integer-typed-shape>=22")
        if case.get("boundary"):
            bd.add("generated")
        feats |= {"kernel:boundary:" + f for f in bd}
        if name == "triangular":
            feats.add("kernel:triangular:" + ("hypotheses-of-triangular_spec-hold" if thyp else
                                               "density-only-at-the-mode(outside-triangular_spec)"))
        return outcome(impl, model, spec, model_ok=model_ok, features=feats)

    def eval_kernel_one(self, case, ctx, axq):
        """size 1 (outside the property's sizes 2..n): np.linspace(a, b, 1) = [a] (linspace_one) and the single weight is
        y/y = 1; compared with the model only"""
        from pewlib.process import convolve as cv

        name, args, scale, shift = case["name"], case["args"], case["scale"], case["shift"]
        try:
            out = np.asarray(getattr(cv, name)(1, *args, scale=scale, shift=shift), dtype=float)
        except Exception as e:
            return outcome({"raises": type(e).__name__}, {}, {}, spec_ok=True, model_ok=False, hyp=False,
                           features=["kernel:size=1:raises"])
        impl = {"shape": list(out.shape), "axis": [float(v).hex() for v in out[:, 0]] if out.shape == (1, 2) else None}
        model = {"shape": [1, 2], "axis": [float(v).hex() for v in axq]}
        feats = {"kernel:size=1(model-only)", "kernel:size=1:" + name}
        if name == "triangular":
            r2 = ctx.driver.call("c18.triangular", size=1, a=core.rat(args[0]), b=core.rat(args[1]),
                                 scale=core.rat(scale), shift=core.rat(shift))
            my = [unrat(v) for v in r2["y"]]
            a_, b_, x0 = Fraction(args[0]), Fraction(args[1]), axq[0]
            if my == [1] and a_ < x0 < b_ and x0 != 0 and out.shape == (1, 2):     # clear of the kinks: the weight is 1
                # y / y exactly, or y * (1 / y) within an ulp: size 1 is outside the property, a rounding is not a difference
                w = float(out[0, 1])
                impl["weights"], model["weights"] = [1.0 if abs(w - 1.0) <= 2.0 ** -50 else w], [1.0]
                feats.add("kernel:size=1:triangular-weight")
        return outcome(impl, model, {}, spec_ok=True, hyp=False, features=feats)

    # ------------------------------------------------------------------ known findings / shrinking
    def known(self, case, out):
        if case.get("kind") == "kernel" and "history" not in case:
            i, sp = out["impl"], out["spec"]
            # signature of C18-kernel-intermediate-overflow: the tail decision reports a possible overflow of an
            # intermediate value, shape and axis are right, and what fails is finite / non-negative / unit sum
            if i.get("intermediate_overflow_possible") and i.get("shape") == sp.get("shape") and i.get("axis_matches_linspace") \
                    and not (i.get("finite") and i.get("non_negative") and i.get("sums_to_one")):
                return "C18-kernel-intermediate-overflow"
        if case.get("kind") == "erfinv":
            bad = out["impl"].get("outside_tolerance", [])
            lim = F32_TINY if ty_parse(case.get("ty", "float")) is not None and ty_single(case.get("ty", "float")) else UNDERFLOW
            if bad and all(0 < abs(float.fromhex(b[0])) < lim for b in bad):      # x*x underflows in the argument's precision
                return "C18-erfinv-underflow"
        return None

    def shrink(self, case):
        if "xs" in case and len(case["xs"]) > 1:
            h = len(case["xs"]) // 2
            yield {**case, "xs": case["xs"][:h]}
            yield {**case, "xs": case["xs"][h:]}
        if case["kind"] == "deconv-raw" and len(case["c"]) > 1:
            yield {**case, "c": case["c"][:-1]}
            yield {**case, "c": case["c"][1:]}
        if case["kind"] in ("convolve", "deconv"):
            x, p = case["x"], case["psf"]
            if len(x) > (len(p) if case["kind"] == "convolve" else 1):
                yield {**case, "x": x[:-1]}
                yield {**case, "x": x[1:]}
            if case["kind"] == "deconv":
                for i, v in enumerate(x):
                    if v not in (0, 1):
                        yield {**case, "x": x[:i] + [1] + x[i + 1:]}
                        break
            if len(p) > 1 and case["kind"] == "convolve":
                yield {**case, "psf": p[:-1]}
        if case["kind"] == "kernel" and case["size"] > 3:
            yield {**case, "size": case["size"] // 2 + 1}
            if case["size"] > 4:
                yield {**case, "size": case["size"] - 2}            # keeps the parity: 0 stays on a symmetric axis


PROP = C18()

if __name__ == "__main__":
    sys.exit(core.main(PROP, "harness.c18"))
