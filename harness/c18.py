"""C18 — convolution, kernels and special-function approximations (PARTIAL by design, DESIGN.md 5.18):
pewlib.process.convolve against PewModel/Convolve.lean.

Proved and modelled exactly over Rat: pad-mode convolution, series division (what the FFT quotient equals when
nothing wraps), linspace, normalisation, the rational erf approximation, the gamma polynomial + recursion, the
triangular density.  NOT proved: the numerical accuracy of erf/erfinv/gamma against the true functions and the
finiteness/positivity of the exp/log/power densities - these are validated numerically here against the standard
library (math.erf, statistics.NormalDist().inv_cdf, math.gamma) with the property's tolerances."""
import math
import sys
from fractions import Fraction
from statistics import NormalDist

import numpy as np

from harness import core
from harness.core import Prop, outcome, unrat

ND = NormalDist()
ERF_ABS, ERFINV_REL, GAMMA_REL = 5e-4, 6e-3, 3e-7
UNDERFLOW = 1e-160          # known finding C18-erfinv-underflow: x*x underflows below this


def erfinv_true(x: float) -> float:
    """reference inverse error function from the standard library's normal quantile, arranged so that neither
    tiny |x| nor |x| close to 1 loses accuracy (relative error << 1e-6 everywhere on (-1, 1))"""
    ax = abs(x)
    if ax == 0.0:
        return 0.0
    if ax < 1e-6:
        r = math.sqrt(math.pi) / 2 * (ax + math.pi / 12 * ax ** 3)
    elif ax <= 0.5:
        r = ND.inv_cdf((1 + ax) / 2) / math.sqrt(2)
    else:
        r = -ND.inv_cdf(float((1 - Fraction(ax)) / 2)) / math.sqrt(2)
    return math.copysign(r, x)


def fl(q) -> float:
    return float(unrat(q))


def near(a: float, b: float, rel: float, abs_: float = 0.0) -> bool:
    if math.isnan(a) or math.isnan(b) or math.isinf(a) or math.isinf(b):
        return a == b
    return abs(a - b) <= max(abs_, rel * max(abs(a), abs(b)))


def chunks(xs, k=96):
    for i in range(0, len(xs), k):
        yield xs[i:i + k]


# ---------------------------------------------------------------------------- deterministic dense grids
def erf_grid():
    xs = [i / 64 for i in range(-6 * 64, 6 * 64 + 1)]
    for v in (1e-300, 1e-12, 1e-6, 1e-3, 0.7543, 8.0, 10.0, 100.0, 1e6, 1e80, 1e200, 1.7e308):
        xs += [v, -v]
    xs += [0.0, -0.0]
    return xs


def erfinv_grid():
    xs = [i / 1000 for i in range(-999, 1000)]
    for k in range(1, 100):
        for m in (1.0, 3.7):
            xs += [m * 10.0 ** -k, -m * 10.0 ** -k]
    for k in range(1, 16):
        for m in (1, 2, 5, 7):
            v = 1 - m * 10.0 ** -k
            if 0 < v < 1:
                xs += [v, -v]
    xs += [math.nextafter(1.0, 0.0), -math.nextafter(1.0, 0.0), 0.0]
    return xs


def gamma_grid():
    xs = [i / 100 for i in range(1, 3001)]
    xs += [float(i) for i in range(1, 31)]
    xs += [i / 1000 for i in range(1, 1000, 7)]
    for i in range(1, 30):
        xs += [math.nextafter(float(i), 0.0), math.nextafter(float(i), 100.0), i + 1e-9, i + 0.5]
    xs += [1e-3, 1e-4, 1e-6, 1e-9]
    return xs


KERNELS = ["beta", "exponential", "inversegamma", "laplace", "loglaplace", "lognormal", "normal", "super_gaussian",
           "triangular"]


class C18(Prop):
    id = "C18"
    anchored = ["src/pewlib/process/convolve.py"]
    cases = {"quick": 300, "thorough": 6000}
    rule = ("PARTIAL EVIDENCE. convolve: signals of length m..40 (dyadic values, incl. constant signals), kernels of every "
            "length 1..9 (odd and even; sum-to-one and arbitrary signed), compared exactly with the Lean mechanism and with the "
            "Lean specification (length, interior = ordinary convolution, constants reproduced). deconvolve: full "
            "convolutions of non-zero signals with first-tap-dominant kernels (|p0| >= 1.5 sum|rest|), modes valid/same, "
            "tolerance 1e-8. Kernel generators: each of the 9 generators over its documented parameter domain with the axis "
            "inside the density's support (sizes 2..64, beta shapes >= 1 with >= 3 points, integer super-Gaussian powers, "
            "scales, shifts): size, axis (vs Lean linspace), finite, non-negative, |sum-1| <= 1e-9; triangular also value by "
            "value against the Lean model. erf / erfinv / gamma: deterministic dense grids (targeted) plus random arguments, "
            "validated numerically against math.erf (abs 5e-4, all reals incl. negative, tiny, huge), an inverse error "
            "function derived from statistics.NormalDist().inv_cdf (rel 6e-3 on (-1,1): |x| from 1e-99, 1-|x| down to one "
            "ulp) and math.gamma (rel 3e-7, 1e-9..30, integers and their float neighbours); erf and gamma additionally "
            "against the exact Lean evaluation of the approximation as coded; oddness checked bit-exactly. "
            "non-trivial = every case; distinct by canonical case hash")
    trusted = ["np.pad(mode='edge'), np.convolve(mode='valid'), np.linspace, np.trim_zeros as documented; "
               "irfft(rfft(c, r)/rfft(psf, r), r) equals the power-series quotient when the quotient has fewer than r "
               "coefficients and the spectrum of psf has no zero",
               "math.erf, math.gamma and statistics.NormalDist().inv_cdf are accurate to far better than the tolerances"]
    assumptions = ["VALIDATED, NOT PROVED: accuracy of the erf (5e-4 abs), erfinv (6e-3 rel) and gamma (3e-7 rel) approximations "
                   "against the true functions - checked on the dense grids and random arguments of this run only; Mathlib has no "
                   "erf and no verified bounds for these approximations",
                   "VALIDATED, NOT PROVED: finiteness, non-negativity and unit sum of the exp/log/power kernel generators - "
                   "checked numerically on generated parameters; proved only: normalisation by a positive sum of non-negative "
                   "finite values gives weights in [0,1] that sum to one (normalise_sums_to_one), linspace (linspace_spec)",
                   "erfinv itself (log1p, sqrt, pi) is not modelled; only its shape sign(x)*g(x*x) (erfinv_odd)",
                   "kernel parameter domain: the sampled axis lies inside the support of the density (beta: [0,1]; exponential, "
                   "inverse gamma, log-Laplace, log-normal: x > 0, shift >= 1e-6) and at least one axis point carries density "
                   "above the underflow range; outside that domain (e.g. beta with scale 2) the generators return NaN/negative "
                   "weights and the property's 'density finite on that axis' excludes them",
                   "known finding C18-erfinv-underflow: erfinv(x) = 0 for 0 < |x| < 1e-160; the grid stops at 1e-99, one targeted "
                   "case exercises it and is routed through known()",
                   "deconvolve is checked on signals without zero samples (np.trim_zeros would otherwise shorten the exact result) "
                   "and first-tap-dominant kernels ('well-conditioned')"]

    # ------------------------------------------------------------------ generation
    def gen_psf(self, rng, m, unit):
        if unit:
            while True:
                w = [rng.randint(0, 12) for _ in range(m - 1)]
                last = 32 - sum(w)
                if last >= 0:
                    w.insert(rng.randrange(m), last)
                    return w                                     # /32, sums to one
        while True:
            w = [rng.randint(-16, 16) * 4 for _ in range(m)]       # /32
            if any(w):
                return w

    def generate(self, rng, tier):
        kind = rng.choice(["convolve"] * 4 + ["deconv"] * 2 + ["kernel"] * 4 + ["erf", "erfinv", "gamma"])
        if kind == "convolve":
            m = rng.choice([1, 2, 3, 4, 5, 6, 7, 8, 9])
            n = m if rng.random() < 0.15 else rng.randint(m, 40)
            const = rng.random() < 0.25
            unit = const or rng.random() < 0.5
            c = rng.randint(-400, 400)
            x = [c] * n if const else [rng.randint(-400, 400) for _ in range(n)]
            return {"kind": kind, "x": x, "psf": self.gen_psf(rng, m, unit)}
        if kind == "deconv":
            m = rng.choice([1, 2, 3, 3, 4, 5, 6])
            n = rng.randint(max(m, 3), 40)
            x = [rng.choice([-1, 1]) * rng.randint(1, 100) if rng.random() < 0.3 else rng.randint(1, 100) for _ in range(n)]
            p0 = rng.choice([-1, 1]) * rng.randint(12, 24)
            budget = abs(p0) * 2 // 3
            rest = []
            for _ in range(m - 1):
                v = rng.randint(-budget, budget) if budget > 0 else 0
                rest.append(v)
                budget -= abs(v)
            return {"kind": kind, "x": x, "psf": [p0] + rest, "mode": rng.choice(["valid", "same"])}
        if kind == "kernel":
            return self.gen_kernel(rng)
        if kind == "erf":
            xs = [rng.choice([-1, 1]) * rng.choice([rng.random() * 6, rng.random(), 10 ** rng.uniform(-12, 3),
                                                    10 ** rng.uniform(3, 300)]) for _ in range(48)]
            return {"kind": kind, "xs": xs, "array": rng.random() < 0.5}
        if kind == "erfinv":
            xs = [rng.choice([-1, 1]) * rng.choice([rng.random(), 10 ** rng.uniform(-99, 0), 1 - 10 ** rng.uniform(-15.9, 0)])
                  for _ in range(48)]
            return {"kind": kind, "xs": [x for x in xs if 0 < abs(x) < 1]}
        xs = [rng.choice([rng.random() * 30, rng.random(), 10 ** rng.uniform(-9, 0), float(rng.randint(1, 30)),
                          rng.randint(1, 29) + 10 ** rng.uniform(-12, 0)]) for _ in range(32)]
        return {"kind": "gamma", "xs": [x for x in xs if 0 < x <= 30]}

    def gen_kernel(self, rng, name=None):
        name = name or rng.choice(KERNELS)
        size = rng.choice([2, 2, 3, 4, 5, 10, 10, 17, 32, 64])
        r2 = lambda lo, hi: round(rng.uniform(lo, hi), rng.choice([0, 1, 2, 6]))
        case = {"kind": "kernel", "name": name, "size": size}
        if name == "beta":
            case["size"] = max(size, 3)
            scale = rng.choice([1.0, 1.0, 1.0, 0.5, round(rng.uniform(0.05, 1.0), 3)])
            shift = 0.0 if scale == 1.0 else rng.choice([0.0, round(rng.uniform(0.0, 1.0 - scale), 3)])
            if scale + shift > 1.0:
                shift = 0.0
            case["args"] = [rng.choice([1.0, 1.0, 2.0, 3.0, 1.5, 2.5, max(1.0, r2(1, 8))]),
                            rng.choice([1.0, 2.0, 2.0, 5.0, 1.5, 3.5, max(1.0, r2(1, 8))])]
            case["scale"], case["shift"] = scale, shift
        elif name in ("exponential", "inversegamma", "loglaplace", "lognormal"):
            case["scale"] = rng.choice([1.0, 1.0, 0.5, 2.0, round(rng.uniform(0.1, 3.0), 3)])
            case["shift"] = rng.choice([1e-6, 1e-6, 1e-3, 0.5, 2.0])
            case["args"] = {"exponential": lambda: [rng.choice([1.0, 0.01, 0.5, 5.0, max(0.01, r2(0.01, 5))])],
                            "inversegamma": lambda: [rng.choice([1.0, 0.5, 3.0, 5.0, max(0.5, r2(0.5, 5))]),
                                                     rng.choice([1.0, 0.1, 5.0, max(0.1, r2(0.1, 5))])],
                            "loglaplace": lambda: [rng.choice([0.5, 1.0, 0.2, 3.0, max(0.2, r2(0.2, 3))]), rng.choice([0.0, 1.0, -1.0, r2(-1, 3)])],
                            "lognormal": lambda: [rng.choice([1.0, 0.2, 0.5, 2.0, max(0.2, r2(0.2, 2))]), rng.choice([0.0, 1.0, -1.0, r2(-1, 3)])],
                            }[name]()
        else:
            scale = rng.choice([1.0, 1.0, 0.5, 2.0, round(rng.uniform(0.1, 3.0), 3)])
            shift = rng.choice([0.0, 0.0, 1.0, -2.5, round(rng.uniform(-5, 5), 2)])
            half = case["size"] * 0.5 * scale
            case["scale"], case["shift"] = scale, shift
            width = rng.choice([1.0, 0.5, 2.0, round(rng.uniform(0.2, 5.0), 2)]) * max(scale, 0.2)
            # location within half a width of an axis point, so that the density there is far above the underflow range
            step = 2 * half / (case["size"] - 1)
            grid = shift - half + rng.randrange(case["size"]) * step
            loc = rng.choice([shift, round(grid + rng.uniform(-0.5, 0.5) * width, 3)])
            if loc == shift and case["size"] % 2 == 0 and step > width:
                loc = round(grid, 3)
            if name == "laplace":
                case["args"] = [width, loc]
            elif name == "normal":
                case["args"] = [width, loc]
            elif name == "super_gaussian":
                case["args"] = [width, loc, rng.choice([1, 2, 3, 4, 2.0])]
            else:  # triangular: a < 0 < b with an axis point strictly inside (a, b)
                step = 2 * half / (case["size"] - 1)
                case["shift"] = shift = rng.choice([0.0, 0.0, round(rng.uniform(-0.4, 0.4) * step, 3)])
                a = -round(rng.uniform(1.2, 4.0) * step + abs(shift), 3)
                b = round(rng.uniform(1.2, 4.0) * step + abs(shift), 3)
                case["args"] = [rng.choice([a, -5.0 if half >= 5 else a]), rng.choice([b, 5.0 if half >= 5 else b])]
        return case

    def targeted(self, tier):
        for ch in chunks(erf_grid()):
            yield {"kind": "erf", "xs": ch, "array": True}
        yield {"kind": "erf", "xs": [-1.0, 1.0, 0.1, 10.0, -0.5], "array": False}
        for ch in chunks(erfinv_grid()):
            yield {"kind": "erfinv", "xs": ch}
        yield {"kind": "erfinv", "xs": [1e-200, -1e-170, 1e-161]}          # known finding C18-erfinv-underflow
        for ch in chunks(gamma_grid(), 64):
            yield {"kind": "gamma", "xs": ch}
        # convolution boundary classes: kernel lengths 1 and 2, signal as short as the kernel, constants
        for m in range(1, 10):
            yield {"kind": "convolve", "x": list(range(1, m + 1)), "psf": [32 // m] * (m - 1) + [32 - (32 // m) * (m - 1)]}
            yield {"kind": "convolve", "x": [20] * (m + 3), "psf": [32 // m] * (m - 1) + [32 - (32 // m) * (m - 1)]}
            yield {"kind": "convolve", "x": [4 * i * i - 30 for i in range(m + 7)], "psf": [(-1) ** i * (i + 1) * 4 for i in range(m)]}
        yield {"kind": "deconv", "x": [5, 3, 8, 1, 9, 2, 7], "psf": [19, 10, 3], "mode": "valid"}
        yield {"kind": "deconv", "x": [5, 3, 8, 1, 9, 2, 7], "psf": [19, 10, 3], "mode": "same"}
        yield {"kind": "deconv", "x": [5, 3, 8], "psf": [16], "mode": "valid"}
        # the kernel tables of the repo's own test (size 10, default scale/shift)
        for name, args, scale, shift in [("beta", [1.0, 2.0], 1.0, 0.0), ("exponential", [1.0], 1.0, 1e-6),
                                         ("inversegamma", [1.0, 1.0], 1.0, 1e-6), ("laplace", [1.0, 1.0], 1.0, 0.0),
                                         ("loglaplace", [0.5, 0.0], 1.0, 1e-6), ("lognormal", [1.0, 0.0], 1.0, 1e-6),
                                         ("normal", [1.0, 1.0], 1.0, 0.0), ("super_gaussian", [1.0, 0.0, 2.0], 1.0, 0.0),
                                         ("triangular", [-5.0, 5.0], 1.0, 0.0)]:
            for size in (10, 2, 3):
                if name == "beta" and size < 3:
                    continue
                yield {"kind": "kernel", "name": name, "size": size, "args": args, "scale": scale, "shift": shift}

    # ------------------------------------------------------------------ evaluation
    def evaluate(self, case, ctx):
        with np.errstate(all="ignore"):
            return getattr(self, "eval_" + case["kind"])(case, ctx)

    def eval_convolve(self, case, ctx):
        from pewlib.process import convolve as cv

        xq = [Fraction(v, 4) for v in case["x"]]
        pq = [Fraction(v, 32) for v in case["psf"]]
        x, psf = np.array([float(v) for v in xq]), np.array([float(v) for v in pq])
        n, m = len(xq), len(pq)
        rep = ctx.driver.call("c18.convolve", x=[core.rat(v) for v in xq], psf=[core.rat(v) for v in pq])
        try:
            out = cv.convolve(x, psf, mode="pad")
            vals = [float(v) for v in out]
        except Exception as e:
            r = {"raises": type(e).__name__}
            return outcome(r, {}, {}, spec_ok=False, model_ok=False, features=["convolve:raises"])
        hexs = lambda l: [float(v).hex() for v in l]
        impl = {"values": hexs(vals)}
        model = {"values": hexs(fl(v) for v in rep["model"])}
        sp = rep["spec"]
        spec = {"length": sp["length"], "interior": [[k, fl(v).hex()] for k, v in sp["interior"]],
                "constant": None if sp["constant"] is None else fl(sp["constant"]).hex()}
        proj = {"length": len(vals), "interior": [[k, vals[k].hex()] for k, _ in sp["interior"] if k < len(vals)],
                "constant": None if sp["constant"] is None else
                (spec["constant"] if all(v.hex() == spec["constant"] for v in vals) else "not reproduced")}
        feats = {"convolve", f"convolve:m={m}", "convolve:m-" + ("odd" if m % 2 else "even")}
        if n == m:
            feats.add("convolve:n=m")
        if sp["constant"] is not None:
            feats.add("convolve:constant,sum=1")
        if sp["interior"]:
            feats.add("convolve:has-interior")
        return outcome(impl, model, spec, spec_ok=core.canon(proj) == core.canon(spec), features=feats)

    def eval_deconv(self, case, ctx):
        from pewlib.process import convolve as cv

        xq = [Fraction(v) for v in case["x"]]
        pq = [Fraction(v, 8) for v in case["psf"]]
        rep = ctx.driver.call("c18.deconv", x=[core.rat(v) for v in xq], psf=[core.rat(v) for v in pq])
        c = np.array([fl(v) for v in rep["c"]])
        psf = np.array([float(v) for v in pq])
        mode = case["mode"]
        tol = 1e-8 * (1 + max(abs(float(v)) for v in xq))
        try:
            out = [float(v) for v in cv.deconvolve(c, psf, mode=mode)]
        except Exception as e:
            return outcome({"raises": type(e).__name__}, {}, {}, spec_ok=False, model_ok=False, features=["deconv:raises"])
        spec = [fl(v) for v in rep["spec"]]                       # the leading n - 2 samples (trimming arithmetic)
        model = [fl(v) for v in (rep["model"] if mode == "valid" else rep["model_same"])]
        xs = [float(v) for v in xq]
        # the property fixes what the samples are, not how many: demand at least the n - 2 leading samples of x,
        # and in 'valid' mode nothing but leading samples of x
        lead = out if mode == "valid" else out[: len(spec)]
        spec_ok = len(spec) <= len(lead) <= len(xs) and all(abs(a - b) <= tol for a, b in zip(lead, xs))
        model_ok = len(out) == len(model) and all(abs(a - b) <= tol for a, b in zip(out, model))
        feats = {"deconv", "deconv:" + mode, f"deconv:m={len(pq)}"}
        return outcome({"values": out}, {"values": model}, {"leading": spec}, spec_ok=spec_ok, model_ok=model_ok, features=feats)

    def special(self, case, ctx, name, impl_fn, true_fn, ok_fn, model_op=None, model_rel=1e-10, model_max=1e6, model_abs=1e-300):
        xs = [float(x) for x in case["xs"]]
        vals = impl_fn(xs)
        bad, badm = [], []
        exact = {}
        if model_op is not None:
            idx = [i for i, x in enumerate(xs) if 0 < abs(x) <= model_max and abs(x) >= 1e-30 or x == 0]
            if idx:
                rep = ctx.driver.call(model_op, xs=[core.rat(xs[i]) for i in idx])
                exact = {i: fl(v) for i, v in zip(idx, rep["model"])}
        for i, (x, v) in enumerate(zip(xs, vals)):
            t = true_fn(x)
            if not ok_fn(v, t):
                bad.append([x.hex(), float(v).hex(), float(t).hex()])
            if i in exact and not near(v, exact[i], model_rel, model_abs):
                badm.append([x.hex(), float(v).hex(), exact[i].hex()])
        impl = {"n": len(xs), "outside_tolerance": bad}
        spec = {"n": len(xs), "outside_tolerance": []}
        model = {"n": len(xs), "differs_from_exact_evaluation": badm}
        feats = {name}
        if any(x < 0 for x in xs):
            feats.add(name + ":negative")
        if any(0 < abs(x) < 1e-6 for x in xs):
            feats.add(name + ":tiny")
        return impl, model, spec, not bad, not badm, feats

    def eval_erf(self, case, ctx):
        from pewlib.process import convolve as cv

        def run(xs):
            if case["array"]:
                return [float(v) for v in np.asarray(cv.erf(np.array(xs))).ravel()]
            return [float(np.asarray(cv.erf(x)).ravel()[0]) for x in xs]

        impl, model, spec, sok, mok, feats = self.special(
            case, ctx, "erf", run, math.erf, lambda v, t: abs(v - t) <= ERF_ABS, "c18.erf", model_rel=1e-11, model_abs=1e-13)  # 1 - 1/(1+s)^4 cancels for tiny x
        # oddness, bit-exact: erf(-x) == -erf(x)
        xs = [float(x) for x in case["xs"]]
        pos, neg = run(xs), run([-x for x in xs])
        notodd = [x.hex() for x, a, b in zip(xs, pos, neg) if not (a == -b)]
        impl["not_odd"], spec["not_odd"] = notodd, []
        if any(abs(x) > 1e3 for x in xs):
            feats.add("erf:huge")
        feats.add("erf:array" if case["array"] else "erf:scalar")
        return outcome(impl, model, spec, spec_ok=sok and not notodd, model_ok=mok, features=feats)

    def eval_erfinv(self, case, ctx):
        from pewlib.process import convolve as cv

        run = lambda xs: [float(cv.erfinv(x)) for x in xs]
        ok = lambda v, t: (v == t) if t == 0 else abs(v - t) <= ERFINV_REL * abs(t)
        impl, model, spec, sok, _, feats = self.special(case, ctx, "erfinv", run, erfinv_true, ok)
        xs = [float(x) for x in case["xs"]]
        pos, neg = run(xs), run([-x for x in xs])
        notodd = [x.hex() for x, a, b in zip(xs, pos, neg) if not (a == -b)]
        model = {"shape_sign_times_even_function_violated_at": notodd}
        if any(1 - abs(x) < 1e-9 for x in xs):
            feats.add("erfinv:near-one")
        if any(0 < abs(x) < UNDERFLOW for x in xs):
            feats.add("erfinv:underflow-range")
        return outcome(impl, model, spec, spec_ok=sok, model_ok=not notodd, features=feats)

    def eval_gamma(self, case, ctx):
        from pewlib.process import convolve as cv

        run = lambda xs: [float(cv.gamma(x)) for x in xs]
        impl, model, spec, sok, mok, feats = self.special(
            case, ctx, "gamma", run, math.gamma, lambda v, t: abs(v - t) <= GAMMA_REL * abs(t), "c18.gamma", model_rel=1e-10,
            model_max=1e3)
        xs = [float(x) for x in case["xs"]]
        if any(x < 1 for x in xs):
            feats.add("gamma:below-one")
        if any(x == int(x) for x in xs):
            feats.add("gamma:integer")
        if any(x > 20 for x in xs):
            feats.add("gamma:above-20")
        return outcome(impl, model, spec, spec_ok=sok, model_ok=mok, features=feats)

    def eval_kernel(self, case, ctx):
        from pewlib.process import convolve as cv

        name, size, args, scale, shift = case["name"], case["size"], case["args"], case["scale"], case["shift"]
        try:
            out = np.asarray(getattr(cv, name)(size, *args, scale=scale, shift=shift), dtype=float)
        except Exception as e:
            return outcome({"raises": type(e).__name__}, {}, {}, spec_ok=False, model_ok=False, features=["kernel:raises"])
        axis_kind = "unit" if name == "beta" else "pos" if name in ("exponential", "inversegamma", "loglaplace", "lognormal") else "sym"
        rep = ctx.driver.call("c18.axis", kind=axis_kind, size=size, scale=core.rat(scale), shift=core.rat(shift))
        ax = [fl(v) for v in rep["x"]]
        span = max([1.0] + [abs(v) for v in ax])
        shape_ok = out.ndim == 2 and out.shape == (size, 2)
        x = [float(v) for v in out[:, 0]] if shape_ok else []
        y = [float(v) for v in out[:, 1]] if shape_ok else []
        axis_ok = shape_ok and all(abs(a - b) <= 1e-12 * span for a, b in zip(x, ax))
        impl = {"shape": list(out.shape), "axis_matches_linspace": bool(axis_ok),
                "finite": bool(shape_ok and all(math.isfinite(v) for v in y)),
                "non_negative": bool(shape_ok and all(v >= 0 for v in y)),
                "sums_to_one": bool(shape_ok and abs(math.fsum(y) - 1.0) <= 1e-9)}
        spec = {"shape": [size, 2], "axis_matches_linspace": True, "finite": True, "non_negative": True, "sums_to_one": True}
        model, model_ok = {"axis": "lean linspace", "values": "not modelled"}, axis_ok
        if name == "triangular" and shape_ok:
            r2 = ctx.driver.call("c18.triangular", size=size, a=core.rat(args[0]), b=core.rat(args[1]),
                                 scale=core.rat(scale), shift=core.rat(shift))
            my = [fl(v) for v in r2["y"]]
            # axis points within rounding of a kink/support edge may fall on either side: compare only when clear
            edge = any(abs(v - e) <= 1e-9 * span for v in ax for e in (args[0], args[1], 0.0) if v != e)
            model_ok = axis_ok and (edge or all(abs(a - b) <= 1e-9 for a, b in zip(y, my)))
            model = {"axis": "lean linspace", "values": "lean triangular" + (" (edge within rounding: skipped)" if edge else "")}
        feats = {"kernel:" + name, "kernel:size=" + (str(size) if size <= 3 else "4+")}
        if scale != 1.0:
            feats.add("kernel:scaled")
        if shift not in (0.0, 1e-6):
            feats.add("kernel:shifted")
        return outcome(impl, model, spec, model_ok=model_ok, features=feats)

    # ------------------------------------------------------------------ known findings / shrinking
    def known(self, case, out):
        if case.get("kind") == "erfinv":
            bad = out["impl"].get("outside_tolerance", [])
            if bad and all(0 < abs(float.fromhex(b[0])) < UNDERFLOW for b in bad):
                return "C18-erfinv-underflow"
        return None

    def shrink(self, case):
        if "xs" in case and len(case["xs"]) > 1:
            h = len(case["xs"]) // 2
            yield {**case, "xs": case["xs"][:h]}
            yield {**case, "xs": case["xs"][h:]}
        if case["kind"] in ("convolve", "deconv"):
            x, p = case["x"], case["psf"]
            if len(x) > max(len(p), 3):
                yield {**case, "x": x[:-1]}
                yield {**case, "x": x[1:]}
            if len(p) > 1 and case["kind"] == "convolve":
                yield {**case, "psf": p[:-1]}
        if case["kind"] == "kernel" and case["size"] > 3:
            yield {**case, "size": case["size"] // 2 + 1}


PROP = C18()

if __name__ == "__main__":
    sys.exit(core.main(PROP, "harness.c18"))
