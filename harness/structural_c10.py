"""Structural (translator) ties for the scalar arithmetic of C09 / C10 (see harness/structural.py for the idea).

Each tie reads a function from /repo's working tree, walks its AST with the typed symbolic evaluator below and
emits a Lean *definition* `gen_…` (the expression tree of the code: float operations rounded by `Pew.fl` where the
model keeps the rounding, `np.round(..).astype(int)` = `Pew.roundHalfEven`, `//` = `Int.fdiv`, `np.lcm` = `Int.lcm`,
`int(round(v, 6))` = `trunc (round6 v)`, conditional expressions and `if` statements = `if … then … else …`), plus a
theorem that the generated definition equals the hand-written model function for ALL arguments.  Lean proves it on
every run (`lake env lean lean/.lake/gen/<name>.lean`).

Outcome per tie (structural.run counts them):
  ok            proved                                                   -> obligation discharged
  failed        not proved AND the two functions differ on a sample point -> broken obligation
  not proved but equal on every sample point, generated text that does not elaborate, or source outside the translator's subset
                -> Unsupported: no obligation, a note in the evidence (a harmless rewrite must not raise an alarm by itself;
                   the differential tie still stands)
All Lean runs of one property are started together (threads) and cached, so the ties cost one Lean start-up.
"""
from __future__ import annotations

import ast
import hashlib
import subprocess
from concurrent.futures import ThreadPoolExecutor
from fractions import Fraction

from harness import core
from harness import structural
from harness.structural import Unsupported, find_func, strip_doc


# ----------------------------------------------------------------------------- typed symbolic values
class Val:
    """a Lean term with a type: "F" float64 (a Rat), "I" Python / NumPy integer (an Int), "B" a decidable Prop"""

    def __init__(self, term, ty):
        self.term, self.ty = term, ty

    def __repr__(self):
        return f"Val({self.term!r}, {self.ty})"


class Vec(list):
    """NumPy vector of Vals (elementwise arithmetic)"""


class Known:
    """a value the translator knows concretely (e.g. `layer` is None / even / odd)"""

    def __init__(self, kind):
        self.kind = kind


def as_f(v: Val) -> str:
    if v.ty == "F":
        return v.term
    if v.ty == "I":
        return f"(({v.term} : Int) : Rat)"
    raise Unsupported("number expected")


class Ev:
    """expression / statement evaluator.  `flt`: wrap every float64 operation in `Pew.fl` (the model keeps the
    rounding) or not (the model is exact arithmetic over Rat)."""

    def __init__(self, env, flt=False, funcs=None, hook=None):
        self.env, self.flt, self.funcs = env, flt, funcs or {}
        self.attrs = {}  # assignments to `self.<attr>`
        self.hook = hook  # hook(expr, ev) -> value | None: tried before the generic rules (monadic reads of from_array)

    # ---- arithmetic
    def rnd(self, t):
        return f"(Pew.fl {t})" if self.flt else t

    def bin(self, op, l, r):
        if isinstance(l, Vec) or isinstance(r, Vec):
            n = len(l) if isinstance(l, Vec) else len(r)
            lv = l if isinstance(l, Vec) else Vec([l] * n)
            rv = r if isinstance(r, Vec) else Vec([r] * n)
            if len(lv) != len(rv):
                raise Unsupported("vector length mismatch")
            return Vec(self.bin(op, a, b) for a, b in zip(lv, rv))
        if not (isinstance(l, Val) and isinstance(r, Val)) or "B" in (l.ty, r.ty):
            raise Unsupported("arithmetic on non-numbers")
        sym = {ast.Add: "+", ast.Sub: "-", ast.Mult: "*"}.get(type(op))
        if l.ty == "I" and r.ty == "I":
            if sym:
                return Val(f"({l.term} {sym} {r.term})", "I")
            if isinstance(op, ast.FloorDiv):
                return Val(f"(Int.fdiv {l.term} {r.term})", "I")
            if isinstance(op, ast.Mod):
                return Val(f"(Int.fmod {l.term} {r.term})", "I")
            if isinstance(op, ast.Div):
                return Val(self.rnd(f"({as_f(l)} / {as_f(r)})"), "F")
            raise Unsupported(f"operator {type(op).__name__}")
        if sym:
            return Val(self.rnd(f"({as_f(l)} {sym} {as_f(r)})"), "F")
        if isinstance(op, ast.Div):
            return Val(self.rnd(f"({as_f(l)} / {as_f(r)})"), "F")
        raise Unsupported(f"float operator {type(op).__name__}")

    def const(self, v):
        if isinstance(v, bool) or not isinstance(v, (int, float)):
            raise Unsupported(f"constant {v!r}")
        if isinstance(v, int):
            return Val(f"({v})" if v < 0 else str(v), "I")
        q = Fraction(v)
        return Val(f"(({q.numerator} : Rat) / {q.denominator})" if q.denominator != 1 else f"({q.numerator} : Rat)", "F")

    def test(self, e):
        """a condition: a Python bool when it is known, else a Val of type B"""
        if isinstance(e, ast.Compare) and len(e.ops) == 1:
            op, l, r = e.ops[0], e.left, e.comparators[0]
            if isinstance(op, (ast.Is, ast.IsNot)) and isinstance(r, ast.Constant) and r.value is None:
                lv = self.ev(l)
                if isinstance(lv, Known):
                    return (lv.kind == "none") == isinstance(op, ast.Is)
                if isinstance(lv, (Val, Vec, tuple)):
                    return isinstance(op, ast.IsNot)
                raise Unsupported("is None on an unknown")
            # `layer % 2 == 0` / `== 1` for a layer of known parity
            if isinstance(l, ast.BinOp) and isinstance(l.op, ast.Mod) and isinstance(op, (ast.Eq, ast.NotEq)) \
                    and isinstance(r, ast.Constant) and r.value in (0, 1) \
                    and isinstance(l.right, ast.Constant) and l.right.value == 2:
                lv = self.ev(l.left)
                if isinstance(lv, Known) and lv.kind in ("even", "odd"):
                    return ((lv.kind == "even") == (r.value == 0)) == isinstance(op, ast.Eq)
            a, b = self.ev(l), self.ev(r)
            if isinstance(a, Val) and isinstance(b, Val) and "B" not in (a.ty, b.ty):
                sym = {ast.Lt: "<", ast.LtE: "≤", ast.Gt: ">", ast.GtE: "≥", ast.Eq: "="}.get(type(op))
                if sym is None:
                    raise Unsupported(f"comparison {type(op).__name__}")
                if a.ty == "I" and b.ty == "I":
                    return Val(f"({a.term} {sym} {b.term})", "B")
                return Val(f"({as_f(a)} {sym} {as_f(b)})", "B")
            raise Unsupported("comparison of non-numbers")
        if isinstance(e, ast.UnaryOp) and isinstance(e.op, ast.Not):
            t = self.test(e.operand)
            return (not t) if isinstance(t, bool) else Val(f"(¬ {t.term})", "B")
        if isinstance(e, ast.BoolOp):
            ts = [self.test(x) for x in e.values]
            if all(isinstance(t, bool) for t in ts):
                return all(ts) if isinstance(e.op, ast.And) else any(ts)
            raise Unsupported("boolean operator on symbolic conditions")
        raise Unsupported(f"test {type(e).__name__}")

    def ite(self, c: Val, a, b):
        if isinstance(a, (tuple, Vec)) and isinstance(b, (tuple, Vec)) and len(a) == len(b) and type(a) is type(b):
            return type(a)(self.ite(c, x, y) for x, y in zip(a, b))
        if isinstance(a, Val) and isinstance(b, Val):
            if a.ty == b.ty:
                return Val(f"(if {c.term} then {a.term} else {b.term})", a.ty)
            if "B" not in (a.ty, b.ty):
                return Val(f"(if {c.term} then {as_f(a)} else {as_f(b)})", "F")
        raise Unsupported("branches of different kinds")

    # ---- expressions
    def ev(self, e):
        if self.hook is not None:
            v = self.hook(e, self)
            if v is not None:
                return v
        key = ast.unparse(e)
        if key in self.env and not isinstance(e, ast.Constant):
            v = self.env[key]
            return v() if callable(v) else v
        if isinstance(e, ast.Constant):
            if e.value is None:
                return Known("none")
            if isinstance(e.value, bool):
                return Val("True" if e.value else "False", "B")
            return self.const(e.value)
        if isinstance(e, (ast.Name, ast.Attribute)):
            raise Unsupported(f"name {key}")
        if isinstance(e, ast.BinOp):
            return self.bin(e.op, self.ev(e.left), self.ev(e.right))
        if isinstance(e, ast.UnaryOp) and isinstance(e.op, ast.USub):
            v = self.ev(e.operand)
            if isinstance(v, Val) and v.ty in "FI":
                return Val(f"(-{v.term})", v.ty)
            raise Unsupported("negation")
        if isinstance(e, ast.IfExp):
            c = self.test(e.test)
            if isinstance(c, bool):
                return self.ev(e.body if c else e.orelse)
            return self.ite(c, self.ev(e.body), self.ev(e.orelse))
        if isinstance(e, (ast.Tuple, ast.List)):
            return tuple(self.ev(x) for x in e.elts)
        if isinstance(e, ast.Subscript):
            base = self.ev(e.value)
            if isinstance(base, (Vec, tuple)):
                if isinstance(e.slice, ast.Constant) and isinstance(e.slice.value, int):
                    return base[e.slice.value]
                if isinstance(e.slice, ast.Slice) and e.slice.step is None:
                    lo = e.slice.lower.value if isinstance(e.slice.lower, ast.Constant) else None
                    hi = e.slice.upper.value if isinstance(e.slice.upper, ast.Constant) else None
                    if (e.slice.lower is None or lo is not None) and (e.slice.upper is None or hi is not None):
                        return type(base)(base[lo:hi])
            raise Unsupported("subscript")
        if isinstance(e, ast.Call):
            return self.call(e)
        raise Unsupported(type(e).__name__)

    def call(self, e):
        f = ast.unparse(e.func)
        if e.keywords:
            raise Unsupported(f"keyword arguments in {f}")
        # np.round(x).astype(int)
        if isinstance(e.func, ast.Attribute) and e.func.attr == "astype" and len(e.args) == 1 and ast.unparse(e.args[0]) == "int" \
                and isinstance(e.func.value, ast.Call) and ast.unparse(e.func.value.func) in ("np.round", "np.around", "np.rint") \
                and len(e.func.value.args) == 1 and not e.func.value.keywords:
            x = self.ev(e.func.value.args[0])
            if isinstance(x, Val) and x.ty in "FI":
                return Val(f"(Pew.roundHalfEven {as_f(x)})", "I")
            raise Unsupported("np.round of a non-number")
        # int(np.round(x))
        if f == "int" and len(e.args) == 1 and isinstance(e.args[0], ast.Call) and not e.args[0].keywords \
                and ast.unparse(e.args[0].func) in ("np.round", "np.around", "np.rint") and len(e.args[0].args) == 1:
            x = self.ev(e.args[0].args[0])
            if isinstance(x, Val) and x.ty in "FI":
                return Val(f"(Pew.roundHalfEven {as_f(x)})", "I")
        args = [self.ev(a) for a in e.args]
        if f in self.funcs:
            return self.funcs[f](*args)
        if f in ("np.round", "np.around", "np.rint") and len(args) == 1 and isinstance(args[0], Val):
            return Val(f"((Pew.roundHalfEven {as_f(args[0])} : Int) : Rat)", "F")
        if f == "round" and len(args) == 2 and isinstance(args[0], Val) and isinstance(e.args[1], ast.Constant) and e.args[1].value == 6:
            return Val(f"(Pew.Extent.round6 {as_f(args[0])})", "F")
        if f == "int" and len(args) == 1 and isinstance(args[0], Val):
            v = args[0]
            return v if v.ty == "I" else Val(f"(Pew.Extent.trunc {as_f(v)})", "I")
        if f == "float" and len(args) == 1 and isinstance(args[0], Val):
            return Val(as_f(args[0]), "F")
        if f == "np.lcm" and len(args) == 2 and all(isinstance(a, Val) and a.ty == "I" for a in args):
            return Val(f"((Int.lcm {args[0].term} {args[1].term} : Nat) : Int)", "I")
        if f in ("np.array", "np.asarray", "tuple", "list") and len(args) == 1 and isinstance(args[0], (Vec, tuple)):
            return Vec(args[0]) if f.startswith("np.") else tuple(args[0])
        raise Unsupported(f"call {f}")

    # ---- statements
    def assign(self, t, v):
        if isinstance(t, ast.Name):
            self.env[t.id] = v
        elif isinstance(t, ast.Attribute) and ast.unparse(t.value) == "self":
            self.attrs[t.attr] = v
            self.env[ast.unparse(t)] = v
        elif isinstance(t, ast.Tuple) and isinstance(v, (tuple, Vec)) and len(t.elts) == len(v):
            for x, y in zip(t.elts, v):
                self.assign(x, y)
        else:
            raise Unsupported("assignment target")

    def run(self, stmts, stop=None):
        """the value returned by a statement list (None when it ends without `return`); `stop(stmt)` may end the walk
        with a value of its own"""
        for i, s in enumerate(stmts):
            if stop is not None:
                r = stop(s, self)
                if r is not None:
                    return r
            if isinstance(s, ast.Return):
                if s.value is None:
                    raise Unsupported("bare return")
                return self.ev(s.value)
            if isinstance(s, ast.Assign) and len(s.targets) == 1:
                self.assign(s.targets[0], self.ev(s.value))
            elif isinstance(s, ast.If):
                c = self.test(s.test)
                rest = stmts[i + 1:]
                if isinstance(c, bool):
                    return self.run(list(s.body if c else s.orelse) + rest, stop)
                saved = (dict(self.env), dict(self.attrs))
                a = self.run(list(s.body) + rest, stop)
                env_a = (self.env, self.attrs)
                self.env, self.attrs = dict(saved[0]), dict(saved[1])
                b = self.run(list(s.orelse) + rest, stop)
                if a is None or b is None:
                    raise Unsupported("a symbolic branch without a value")
                del env_a
                return self.ite(c, a, b)
            elif isinstance(s, ast.Expr) and isinstance(s.value, ast.Constant):
                continue
            elif isinstance(s, ast.Expr) and isinstance(s.value, ast.Call) and ast.unparse(s.value.func) in self.funcs:
                f = self.funcs[ast.unparse(s.value.func)]  # a call made for its effect (`super().__init__(...)`)
                f(*[self.ev(a) for a in s.value.args], **{k.arg: self.ev(k.value) for k in s.value.keywords if k.arg})
            else:
                raise Unsupported(f"statement {type(s).__name__}")
        return None


def find_method(tree, cls, name, decorator=None):
    """method `name` of class `cls`; `decorator`: None = the plain / @property one, "setter" = the `@name.setter` one"""
    for n in tree.body:
        if isinstance(n, ast.ClassDef) and n.name == cls:
            for m in n.body:
                if isinstance(m, ast.FunctionDef) and m.name == name:
                    decs = [ast.unparse(d) for d in m.decorator_list]
                    is_setter = any(d.endswith(".setter") for d in decs)
                    if (decorator == "setter") == is_setter:
                        return m
            raise Unsupported(f"{cls}.{name} not found")
    raise Unsupported(f"class {cls} not found")


def body_value(fn, ev: Ev):
    v = ev.run(strip_doc(fn.body))
    if v is None:
        raise Unsupported("no return value")
    return v


def term(v, ty=None):
    if not isinstance(v, Val):
        raise Unsupported("a single number expected")
    if ty == "F":
        return as_f(v)
    if ty is not None and v.ty != ty:
        raise Unsupported(f"value of type {v.ty}, {ty} expected")
    return v.term


# ----------------------------------------------------------------------------- sources
def sources():
    out = {}
    for key, rel in (("config", "src/pewlib/config.py"), ("srrconfig", "src/pewlib/srr/config.py"),
                     ("srr", "src/pewlib/srr/srr.py"), ("laser", "src/pewlib/laser.py")):
        src = (core.REPO / rel).read_text()
        out[key] = (ast.parse(src), hashlib.sha256(src.encode()).hexdigest()[:16], rel)
    return out


HEADER = """import PewModel.Extent
import PewProofs.Extent
import Mathlib.Tactic.Ring
import Mathlib.Tactic.FieldSimp
import Mathlib.Tactic.Linarith
import Mathlib.Algebra.Order.Field.Rat
open Pew Pew.Srr Pew.Extent
set_option linter.unusedVariables false
set_option linter.unusedSimpArgs false
set_option linter.unreachableTactic false
set_option linter.unusedTactic false
"""

CFG_ENV = {"self.spotsize": Val("c.spotsize", "F"), "self.speed": Val("c.speed", "F"), "self.scantime": Val("c.scantime", "F"),
           "self._warmup": Val("c.warmup", "I"), "self._subpixel_size": Val("(c.size : Int)", "I")}

# sample points for the fallback comparison (only used when a proof fails)
CFG_SAMPLES = ["Pew.Srr.SrrConfig.make 35 140 (1/4) (1/2) [(0, 2), (1, 2)]", "Pew.Srr.SrrConfig.make 105 140 (1/4) (3/8) [(1, 3), (2, 3), (0, 1)]",
               "Pew.Srr.SrrConfig.make (3/10) (1/10) 3 (-3) [(5, 6)]", "Pew.Srr.SrrConfig.make 7 (17/10) (1/3) 100 [(0, 4), (3, 4)]",
               "(Pew.Srr.SrrConfig.make 35 140 (1/4) 2 [(0, 1)]).setEqualOffsets 5"]
M_SAMPLES = ["1", "2", "3", "(7/2)", "(5/2)", "(1/2)", "(1/3)", "(2/5)", "(999999999/1000000000)", "(1000000001/1000000000)", "12"]


def gen_magnification(S):
    tree, sha, rel = S["srrconfig"]
    fn = find_method(tree, "SRRConfig", "magnification")
    g = term(body_value(fn, Ev(dict(CFG_ENV), flt=True)), "F")
    defs = f"def gen_magnification (c : SrrConfig) : Rat := {g}\n"
    thm = """theorem gen_magnification_eq (c : SrrConfig) : gen_magnification c = c.magnification := by
  first | rfl | (unfold gen_magnification SrrConfig.magnification; congr 1; first | ring | (congr 1; first | ring | (congr 1; ring)))
"""
    samples = f"#eval ([{', '.join(CFG_SAMPLES)}] : List SrrConfig).all (fun c => decide (gen_magnification c = c.magnification))\n"
    return rel, sha, defs, thm, samples


def gen_warmup(S):
    tree, sha, rel = S["srrconfig"]
    setter = find_method(tree, "SRRConfig", "warmup", "setter")
    if len(setter.args.args) != 2:
        raise Unsupported("warmup setter arguments")
    arg = setter.args.args[1].arg
    ev = Ev({**CFG_ENV, arg: Val("seconds", "F")}, flt=True)
    if ev.run(strip_doc(setter.body)) is not None or set(ev.attrs) != {"_warmup"}:
        raise Unsupported("the warmup setter does not just assign self._warmup")
    gs = term(ev.attrs["_warmup"], "I")
    getter = find_method(tree, "SRRConfig", "warmup")
    gg = term(body_value(getter, Ev(dict(CFG_ENV), flt=True)), "F")
    defs = f"def gen_warmup_set (c : SrrConfig) (seconds : Rat) : Int := {gs}\ndef gen_warmup_get (c : SrrConfig) : Rat := {gg}\n"
    thm = """theorem gen_warmup_eq (c : SrrConfig) (seconds : Rat) :
    gen_warmup_set c seconds = (c.setWarmup seconds).warmup ∧ gen_warmup_get c = c.warmupSeconds := by
  refine ⟨?_, ?_⟩
  · first | rfl | (unfold gen_warmup_set SrrConfig.setWarmup; simp only []; congr 2; ring)
  · first | rfl | (unfold gen_warmup_get SrrConfig.warmupSeconds; congr 1; ring)
"""
    samples = f"#eval ([{', '.join(CFG_SAMPLES)}] : List SrrConfig).all (fun c => decide (gen_warmup_get c = c.warmupSeconds) && " \
              "([0, 1/8, 3/8, 1/2, 7/10, -1/4, 25/2] : List Rat).all (fun s => decide (gen_warmup_set c s = (c.setWarmup s).warmup)))\n"
    return rel, sha, defs, thm, samples


def spp_term(S, m="m"):
    tree, _, _ = S["srrconfig"]
    fn = find_method(tree, "SRRConfig", "subpixels_per_pixel")
    return term(body_value(fn, Ev({**CFG_ENV, "self.magnification": Val(m, "F")}, flt=True)), "I")


def gen_spp(S):
    _, sha, rel = S["srrconfig"]
    g = spp_term(S)
    defs = f"def gen_spp (c : SrrConfig) (m : Rat) : Int := {g}\n"
    thm = """theorem gen_spp_eq (c : SrrConfig) (m : Rat) (hm : 0 < m) :
    gen_spp c m = ((subpixelsPerPixel c.size m : Nat) : Int) := by
  first | exact spp_int_eq c.size m hm | (unfold gen_spp; exact spp_int_eq c.size m hm) |
    (unfold gen_spp; have h := spp_int_eq c.size m hm; simp only [ge_iff_le, gt_iff_lt, not_le, not_lt] at h ⊢; first | exact h | (split_ifs at h ⊢ <;> simp_all))
"""
    samples = f"#eval ([{', '.join(CFG_SAMPLES)}] : List SrrConfig).all (fun c => ([{', '.join(M_SAMPLES)}] : List Rat).all " \
              "(fun m => decide (gen_spp c m = ((subpixelsPerPixel c.size m : Nat) : Int))))\n"
    return rel, sha, defs, thm, samples


def base_pixel(S, which, ev_env):
    """`Config.get_pixel_width/height` in exact arithmetic (what `super().get_pixel_*()` calls from SRRConfig)"""
    tree, _, _ = S["config"]
    return body_value(find_method(tree, "Config", which), Ev(dict(ev_env), flt=False))


def srr_pixel_branches(S, which):
    """SRRConfig.get_pixel_width / height for layer None / even / odd -> three Rat terms"""
    tree, _, _ = S["srrconfig"]
    fn = find_method(tree, "SRRConfig", which)
    if [a.arg for a in fn.args.args] != ["self", "layer"]:
        raise Unsupported(f"{which} arguments")
    out = []
    for kind in ("none", "even", "odd"):
        env = {**CFG_ENV, "layer": Known(kind),
               "self.subpixels_per_pixel": Val("((subpixelsPerPixel c.size m : Nat) : Int)", "I"),
               "super().get_pixel_width()": (lambda: base_pixel(S, "get_pixel_width", CFG_ENV)),
               "super().get_pixel_height()": (lambda: base_pixel(S, "get_pixel_height", CFG_ENV))}
        out.append(term(body_value(fn, Ev(env, flt=False)), "F"))
    return out


def gen_srr_pixel(S):
    _, sha, rel = S["srrconfig"]
    w, h = srr_pixel_branches(S, "get_pixel_width"), srr_pixel_branches(S, "get_pixel_height")
    defs = ""
    for nm, (a, b, c_) in (("w", w), ("h", h)):
        defs += f"def gen_p{nm}_none (c : SrrConfig) (m : Rat) : Rat := {a}\ndef gen_p{nm}_even (c : SrrConfig) (m : Rat) : Rat := {b}\n" \
                f"def gen_p{nm}_odd (c : SrrConfig) (m : Rat) : Rat := {c_}\n"
    thm = """theorem gen_srr_pixel_eq (c : SrrConfig) (m : Rat) :
    gen_pw_none c m = srrPixelWidth c m none ∧ gen_ph_none c m = srrPixelHeight c m none ∧
    (∀ l : Nat, l % 2 = 0 → gen_pw_even c m = srrPixelWidth c m (some l) ∧ gen_ph_even c m = srrPixelHeight c m (some l)) ∧
    (∀ l : Nat, l % 2 = 1 → gen_pw_odd c m = srrPixelWidth c m (some l) ∧ gen_ph_odd c m = srrPixelHeight c m (some l)) := by
  refine ⟨?_, ?_, ?_, ?_⟩
  · first | rfl | (simp [gen_pw_none, srrPixelWidth]; done) | (simp [gen_pw_none, srrPixelWidth]; ring)
  · first | rfl | (simp [gen_ph_none, srrPixelHeight]; done) | (simp [gen_ph_none, srrPixelHeight]; ring)
  · intro l hl
    have hl' : ¬ l % 2 = 1 := by omega
    constructor
    · first | (simp [gen_pw_even, srrPixelWidth, hl]; done) | (simp [gen_pw_even, srrPixelWidth, hl]; ring)
    · first | (simp [gen_ph_even, srrPixelHeight, hl]; done) | (simp [gen_ph_even, srrPixelHeight, hl]; ring)
  · intro l hl
    have hl' : ¬ l % 2 = 0 := by omega
    constructor
    · first | (simp [gen_pw_odd, srrPixelWidth, hl, hl']; done) | (simp [gen_pw_odd, srrPixelWidth, hl, hl']; ring)
    · first | (simp [gen_ph_odd, srrPixelHeight, hl, hl']; done) | (simp [gen_ph_odd, srrPixelHeight, hl, hl']; ring)
"""
    samples = f"#eval ([{', '.join(CFG_SAMPLES)}] : List SrrConfig).all (fun c => ([1, 2, 3] : List Rat).all (fun m => " \
              "decide (gen_pw_none c m = srrPixelWidth c m none) && decide (gen_ph_none c m = srrPixelHeight c m none) && " \
              "decide (gen_pw_even c m = srrPixelWidth c m (some 2)) && decide (gen_ph_even c m = srrPixelHeight c m (some 0)) && " \
              "decide (gen_pw_odd c m = srrPixelWidth c m (some 1)) && decide (gen_ph_odd c m = srrPixelHeight c m (some 3))))\n"
    return rel, sha, defs, thm, samples


def gen_srr_extent(S):
    """SRRLaser.shape, SRRLaser.extent and SRRConfig.data_extent(shape) (layer None) -> the four extent values"""
    tree_c, sha_c, rel_c = S["srrconfig"]
    tree_l, sha_l, rel_l = S["srr"]
    # SRRLaser.shape
    shape_fn = find_method(tree_l, "SRRLaser", "shape")
    shp = body_value(shape_fn, Ev({"self.data[0].shape": Vec([Val("(d0.rows : Int)", "I"), Val("(d0.cols : Int)", "I")]),
                                   "self.data[1].shape": Vec([Val("(d1.rows : Int)", "I"), Val("(d1.cols : Int)", "I")]),
                                   "len(self.data)": Val("(n : Int)", "I")}))
    if not (isinstance(shp, tuple) and len(shp) == 3):
        raise Unsupported("SRRLaser.shape is not a 3-tuple")
    px, py = srr_pixel_branches(S, "get_pixel_width")[0], srr_pixel_branches(S, "get_pixel_height")[0]

    def data_extent(shape):
        fn = find_method(tree_c, "SRRConfig", "data_extent")
        if [a.arg for a in fn.args.args] != ["self", "shape", "layer"]:
            raise Unsupported("data_extent arguments")
        env = {**CFG_ENV, "shape": shape, "layer": Known("none"),
               "self.get_pixel_width(layer)": Val(px, "F"), "self.get_pixel_height(layer)": Val(py, "F")}
        return body_value(fn, Ev(env, flt=False))

    ext_fn = find_method(tree_l, "SRRLaser", "extent")
    env = {"self.config.subpixels_per_pixel": Val("((subpixelsPerPixel c.size m : Nat) : Int)", "I"),
           "np.max(self.config._subpixel_offsets)": Val("((maxList c.offs : Nat) : Int)", "I"),
           "self.shape": tuple(shp), "self.config.magnification": Val("m", "F")}
    ext = body_value(ext_fn, Ev(env, flt=False, funcs={"self.config.data_extent": data_extent}))
    if not (isinstance(ext, tuple) and len(ext) == 4):
        raise Unsupported("extent is not a 4-tuple")
    e = [term(v, "F") for v in ext]
    sig = "{α : Type} (c : SrrConfig) (m : Rat) (d0 d1 : Arr2 α) (n : Nat)"
    defs = f"def gen_srr_extent {sig} : Ext :=\n  {{ x0 := {e[0]}, x1 := {e[1]}, y0 := {e[2]}, y1 := {e[3]} }}\n"
    thm = """theorem gen_srr_extent_eq {α : Type} (c : SrrConfig) (m : Rat) (layers : List (Arr2 α)) (d0 d1 : Arr2 α)
    (h0 : layers[0]? = some d0) (h1 : layers[1]? = some d1) :
    srrLaserExtent c m layers = some (gen_srr_extent c m d0 d1 layers.length) := by
  simp only [srrLaserExtent, srrShape, h0, h1, srrDataExtent, srrPixelWidth, srrPixelHeight, gen_srr_extent, Option.some.injEq,
    Ext.mk.injEq]
  refine ⟨?_, ?_, ?_, ?_⟩
  all_goals first | rfl | (push_cast; ring) | (simp; ring)
"""
    samples = f"#eval ([{', '.join(CFG_SAMPLES)}] : List SrrConfig).all (fun c => ([1, 2, 3] : List Rat).all (fun m => " \
              "let d0 : Arr2 Int := { rows := 2, cols := 9, get := fun _ _ => 0 }\n  let d1 : Arr2 Int := { rows := 3, cols := 7, get := fun _ _ => 0 }\n" \
              "  decide (srrLaserExtent c m [d0, d1, d0] = some (gen_srr_extent c m d0 d1 3))))\n"
    return f"{rel_l} + {rel_c}", sha_l + "+" + sha_c, defs, thm, samples


def gen_laser_get(S):
    """the extent -> index conversion of Laser.get: the block under `if extent is not None:`"""
    tree, sha, rel = S["laser"]
    fn = find_method(tree, "Laser", "get")
    blocks = [s for s in fn.body if isinstance(s, ast.If) and ast.unparse(s.test) == "extent is not None"]
    if len(blocks) != 1 or blocks[0].orelse:
        raise Unsupported("no single `if extent is not None:` block")
    found = {}

    def stop(s, ev):
        # data = data[a:b, c:d]
        if isinstance(s, ast.Assign) and len(s.targets) == 1 and ast.unparse(s.targets[0]) == "data" \
                and isinstance(s.value, ast.Subscript) and ast.unparse(s.value.value) == "data":
            sl = s.value.slice
            if isinstance(sl, ast.Tuple) and len(sl.elts) == 2 and all(isinstance(x, ast.Slice) and x.step is None and x.lower is not None
                                                                     and x.upper is not None for x in sl.elts):
                found["idx"] = [term(ev.ev(x), "I") for x in (sl.elts[0].lower, sl.elts[0].upper, sl.elts[1].lower, sl.elts[1].upper)]
                return True
            raise Unsupported("slice form")
        return None

    env = {"extent": (Val("e.x0", "F"), Val("e.x1", "F"), Val("e.y0", "F"), Val("e.y1", "F")),
           "self.config.get_pixel_width()": Val("c.pixelWidth", "F"), "self.config.get_pixel_height()": Val("c.pixelHeight", "F")}
    Ev(env, flt=False).run(list(blocks[0].body), stop)
    if "idx" not in found:
        raise Unsupported("no `data = data[r0:r1, c0:c1]` in the extent block")
    r0, r1, c0, c1 = found["idx"]
    defs = f"def gen_get_idx (c : Cfg) (e : Ext) : Int × Int × Int × Int := ({r0}, {r1}, {c0}, {c1})\n"
    thm = """theorem gen_laser_get_eq {α : Type} (c : Cfg) (data : Arr2 α) (e : Ext) :
    Pew.Extent.get c data e
      = data.slice (some (gen_get_idx c e).1) (some (gen_get_idx c e).2.1) (some (gen_get_idx c e).2.2.1) (some (gen_get_idx c e).2.2.2) := by
  first | rfl | (simp only [Pew.Extent.get, getQ, toIndex, gen_get_idx]; done)
"""
    samples = "#eval ([Cfg.raster 35 (17/10) (1/10), Cfg.spot (3/10) (7/1000)] : List Cfg).all (fun c => " \
              "([⟨0, 53 * (17/100), 0, 59 * 35⟩, ⟨3/10, 9/10, 7/1000, 21/1000⟩, ⟨1/3, 2, 5, 70⟩] : List Ext).all (fun e => " \
              "decide (gen_get_idx c e = (toIndex (e.y0 / c.pixelHeight), toIndex (e.y1 / c.pixelHeight), toIndex (e.x0 / c.pixelWidth), " \
              "toIndex (e.x1 / c.pixelWidth)))))\n"
    return rel, sha, defs, thm, samples



# ----------------------------------------------------------------------------- Laser.extent, array forms, SRR layer extents
CLS = {"raster": ("Config", {"self.spotsize": Val("spotsize", "F"), "self.speed": Val("speed", "F"), "self.scantime": Val("scantime", "F")},
                  "(spotsize speed scantime : Rat)", "(Cfg.raster spotsize speed scantime)", "spotsize speed scantime"),
       "spot": ("SpotConfig", {"self.spotsize": Val("sx", "F"), "self.spotsize_y": Val("sy", "F")},
                "(sx sy : Rat)", "(Cfg.spot sx sy)", "sx sy")}


def method_of(tree, cls, name, bases=("Config",)):
    """the method as `cls` sees it: its own, else the one inherited from `bases`"""
    try:
        return find_method(tree, cls, name)
    except Unsupported:
        for b in bases:
            if b != cls:
                return find_method(tree, b, name)
        raise


def gen_laser_extent(S):
    """Laser.shape, Laser.extent, Config.data_extent with the pixel getters of each class -> the four extent values"""
    tree_c, sha_c, rel_c = S["config"]
    tree_l, sha_l, rel_l = S["laser"]
    shape_fn = find_method(tree_l, "Laser", "shape")
    shp = body_value(shape_fn, Ev({"self.data.shape": Vec([Val("(data.rows : Int)", "I"), Val("(data.cols : Int)", "I")])}))
    if not isinstance(shp, (Vec, tuple)) or len(shp) != 2:
        raise Unsupported("Laser.shape is not the shape of the data")
    defs, thms, samples = "", "", []
    for kind, (cls, env, sig, ctor, args) in CLS.items():
        def pixel(which, cls=cls, env=env):
            return lambda: body_value(method_of(tree_c, cls, which), Ev(dict(env), flt=False))

        def data_extent(shape, cls=cls, env=env):
            fn = method_of(tree_c, cls, "data_extent")
            if [a.arg for a in fn.args.args] != ["self", "shape"]:
                raise Unsupported("data_extent arguments")
            return body_value(fn, Ev({**env, "shape": shape}, flt=False,
                                     funcs={"self.get_pixel_width": pixel("get_pixel_width"), "self.get_pixel_height": pixel("get_pixel_height")}))

        ext_fn = find_method(tree_l, "Laser", "extent")
        ext = body_value(ext_fn, Ev({"self.shape": type(shp)(shp)}, flt=False, funcs={"self.config.data_extent": data_extent}))
        if not (isinstance(ext, tuple) and len(ext) == 4):
            raise Unsupported("extent is not a 4-tuple")
        e = [term(v, "F") for v in ext]
        defs += f"def gen_laser_extent_{kind} {{α : Type}} {sig} (data : Arr2 α) : Ext :=\n  {{ x0 := {e[0]}, x1 := {e[1]}, y0 := {e[2]}, y1 := {e[3]} }}\n"
        thms += f"""theorem gen_laser_extent_{kind}_eq {{α : Type}} {sig} (data : Arr2 α) :
    gen_laser_extent_{kind} {args} data = laserExtent {ctor} data := by
  simp only [gen_laser_extent_{kind}, laserExtent, Cfg.dataExtent, Cfg.pixelWidth, Cfg.pixelHeight, List.getD_cons_zero, List.getD_cons_succ,
    Ext.mk.injEq]
  all_goals (try (refine ⟨?_, ?_, ?_, ?_⟩))
  all_goals (try (first | rfl | (push_cast; done) | (push_cast; ring) | (simp; done) | (simp; ring)))
"""
        pts = ["35 (17/10) (1/10)", "(3/10) (433/10) (7/1000)"] if kind == "raster" else ["(3/10) (7/1000)", "10 25"]
        for pt in pts:
            samples.append(f"decide (gen_laser_extent_{kind} {pt} ({{ rows := 59, cols := 53, get := fun _ _ => 0 }} : Arr2 Int) = "
                           f"laserExtent (Cfg.{kind} {pt}) ({{ rows := 59, cols := 53, get := fun _ _ => 0 }} : Arr2 Int))")
    return f"{rel_l} + {rel_c}", sha_l + "+" + sha_c, defs, thms, "#eval " + " && ".join(samples) + "\n"


def np_array_call(fn):
    """`return np.array(<tuple | list>, dtype=[(name, type), ...])` -> (values node, [(name, dtype text)])"""
    stmts = strip_doc(fn.body)
    pre, ret = stmts[:-1], stmts[-1] if stmts else None
    if not isinstance(ret, ast.Return) or not isinstance(ret.value, ast.Call) or ast.unparse(ret.value.func) != "np.array":
        raise Unsupported("to_array does not return np.array(...)")
    call = ret.value
    dt = [k.value for k in call.keywords if k.arg == "dtype"]
    if len(call.args) != 1 or len(dt) != 1 or not isinstance(dt[0], ast.List):
        raise Unsupported("np.array(values, dtype=[...]) expected")
    fields = []
    for f in dt[0].elts:
        if not (isinstance(f, ast.Tuple) and len(f.elts) >= 2 and isinstance(f.elts[0], ast.Constant) and isinstance(f.elts[0].value, str)):
            raise Unsupported("dtype entry")
        fields.append((f.elts[0].value, [ast.unparse(x) for x in f.elts[1:]]))
    return pre, call.args[0], fields


def lean_str_list(xs):
    return "[" + ", ".join('"' + x + '"' for x in xs) + "]"


def gen_to_array(S):
    """Config.to_array / SpotConfig.to_array / SRRConfig.to_array: field names in dtype order, shape and value order"""
    tree_c, sha_c, rel_c = S["config"]
    tree_s, sha_s, rel_s = S["srrconfig"]
    defs, thms, samples = "", "", []
    for kind, (cls, env, sig, ctor, args) in CLS.items():
        pre, values, fields = np_array_call(find_method(tree_c, cls, "to_array"))
        if pre:
            raise Unsupported("statements before the return")
        if any(d != ["np.float64"] for _, d in fields):
            raise Unsupported("a field that is not np.float64")
        ev = Ev(dict(env), flt=False)
        if isinstance(values, ast.Tuple):  # one record: a 0-d array
            if len(values.elts) != len(fields):
                raise Unsupported("record length")
            recs = "[[" + ", ".join(f".num {term(ev.ev(x), 'F')}" for x in values.elts) + "]]"
            dim = "none"
        elif isinstance(values, ast.List):  # a list of scalars for a one-field dtype: shape (n,)
            if len(fields) != 1:
                raise Unsupported("a list needs a one-field dtype")
            recs = "[" + ", ".join(f"[.num {term(ev.ev(x), 'F')}]" for x in values.elts) + "]"
            dim = f"some {len(values.elts)}"
        else:
            raise Unsupported("values are neither a tuple nor a list")
        defs += f"def gen_to_array_{kind} {sig} : RecArr :=\n  {{ names := {lean_str_list([n for n, _ in fields])}, dim := {dim}, recs := {recs} }}\n" \
                f"def gen_dtypes_{kind} : List String := {lean_str_list(['<f8' for _ in fields])}\n"
        thms += f"""theorem gen_to_array_{kind}_eq {sig} :
    gen_to_array_{kind} {args} = {ctor}.toRec ∧ gen_dtypes_{kind} = {ctor}.arrayDtypes := by
  constructor <;> rfl
"""
        pt = "35 (17/10) (1/10)" if kind == "raster" else "(3/10) (7/1000)"
        samples.append(f"decide (gen_to_array_{kind} {pt} = (Cfg.{kind} {pt}).toRec)")
    # SRRConfig.to_array: (spotsize, speed, scantime, warmup getter, offsets getter)
    pre, values, fields = np_array_call(find_method(tree_s, "SRRConfig", "to_array"))
    env = {**CFG_ENV, "self.warmup": Val("c.warmupSeconds", "F")}
    table = ".table (c.subpixelOffsets.map (fun p => ((p.1 : Int), (p.2 : Int))))"
    tables = {"self.subpixel_offsets"}
    for st in pre:
        if isinstance(st, ast.Assign) and len(st.targets) == 1 and isinstance(st.targets[0], ast.Name) \
                and ast.unparse(st.value) == "self.subpixel_offsets":
            tables.add(st.targets[0].id)
        else:
            raise Unsupported("statement before the return of SRRConfig.to_array")
    if not isinstance(values, ast.Tuple) or len(values.elts) != len(fields):
        raise Unsupported("SRRConfig.to_array record")
    ev = Ev(env, flt=False)
    cells = []
    for x, (name, d) in zip(values.elts, fields):
        if ast.unparse(x) in tables:
            cells.append(table)
        else:
            if d != ["np.float64"]:
                raise Unsupported("a scalar field that is not np.float64")
            cells.append(f".num {term(ev.ev(x), 'F')}")
    defs += f"def gen_to_array_srr (c : SrrConfig) : RecArr :=\n  {{ names := {lean_str_list([n for n, _ in fields])}, dim := none, recs := [[{', '.join(cells)}]] }}\n"
    thms += """theorem gen_to_array_srr_eq (c : SrrConfig) : gen_to_array_srr c = c.toRec := by
  first | rfl | (simp [gen_to_array_srr, SrrConfig.toRec, SrrConfig.toArray, srrNames]; done)
"""
    samples.append(f"([{', '.join(CFG_SAMPLES)}] : List SrrConfig).all (fun c => decide (gen_to_array_srr c = c.toRec))")
    return f"{rel_c} + {rel_s}", sha_c + "+" + sha_s, defs, thms, "#eval " + " && ".join(samples) + "\n"


def init_attrs(tree, cls, kwargs):
    """the attributes `cls(**kwargs)` sets: `__init__` evaluated symbolically (assignments to self.<attr>, `super().__init__(...)`)"""
    fn = find_method(tree, cls, "__init__")
    params = [a.arg for a in fn.args.args][1:]
    defaults = dict(zip(params[len(params) - len(fn.args.defaults):], fn.args.defaults))
    if set(kwargs) - set(params):
        raise Unsupported("a keyword that is no parameter of __init__")
    attrs = {}

    def parent(*a, **kw):
        if a:
            raise Unsupported("positional super().__init__")
        base = [b for b in next(n for n in tree.body if isinstance(n, ast.ClassDef) and n.name == cls).bases]
        if len(base) != 1 or not isinstance(base[0], ast.Name) or base[0].id == "object":
            raise Unsupported("base class")
        attrs.update(init_attrs(tree, base[0].id, kw))

    ev = Ev({}, flt=False, funcs={"super().__init__": parent})
    for p_ in params:
        if p_ in kwargs:
            ev.env[p_] = kwargs[p_]
        elif p_ in defaults:
            ev.env[p_] = ev.ev(defaults[p_])
        else:
            raise Unsupported(f"parameter {p_} without value")
    if ev.run(strip_doc(fn.body)) is not None:
        raise Unsupported("__init__ returns a value")
    attrs.update(ev.attrs)
    return attrs


def gen_from_array(S):
    """Config.from_array / SpotConfig.from_array: which fields are read, in which order, how, and which constructor
    parameter (hence attribute) each value becomes"""
    tree, sha, rel = S["config"]
    defs, thms, samples = "", "", []
    for kind, cls in (("raster", "Config"), ("spot", "SpotConfig")):
        fn = find_method(tree, cls, "from_array")
        if [a.arg for a in fn.args.args] != ["cls", "array"]:
            raise Unsupported("from_array arguments")
        stmts = strip_doc(fn.body)
        if len(stmts) != 1 or not isinstance(stmts[0], ast.Return) or not isinstance(stmts[0].value, ast.Call) \
                or ast.unparse(stmts[0].value.func) != "cls" or stmts[0].value.args:
            raise Unsupported("from_array is not `return cls(keyword=...)`")
        binds = []

        def hook(e, ev):
            # float(array["name"])
            if isinstance(e, ast.Call) and ast.unparse(e.func) == "float" and len(e.args) == 1 and not e.keywords \
                    and isinstance(e.args[0], ast.Subscript) and ast.unparse(e.args[0].value) == "array" \
                    and isinstance(e.args[0].slice, ast.Constant) and isinstance(e.args[0].slice.value, str):
                v = f"v{len(binds)}"
                binds.append(f'let {v} ← a.floatField "{e.args[0].slice.value}"')
                return Val(v, "F")
            # array["name"][i]
            if isinstance(e, ast.Subscript) and isinstance(e.slice, ast.Constant) and isinstance(e.slice.value, int) and e.slice.value >= 0 \
                    and isinstance(e.value, ast.Subscript) and ast.unparse(e.value.value) == "array" \
                    and isinstance(e.value.slice, ast.Constant) and isinstance(e.value.slice.value, str):
                c_, v = f"c{len(binds)}", f"v{len(binds)}"
                binds.append(f'let {c_} ← a.field "{e.value.slice.value}"')
                binds.append(f"let {v} ← (match a.dim with | none => throw ArrErr.indexError | some _ => spotElem {c_} {e.slice.value})")
                return Val(v, "F")
            if isinstance(e, ast.Name) and e.id == "array":
                raise Unsupported("the array used in another way")
            return None

        ev = Ev({}, flt=False, hook=hook)
        kwargs = {}
        for k in stmts[0].value.keywords:  # Python evaluates keyword arguments left to right
            if k.arg is None:
                raise Unsupported("**kwargs")
            kwargs[k.arg] = ev.ev(k.value)
        attrs = init_attrs(tree, cls, kwargs)
        need = ("spotsize", "speed", "scantime") if kind == "raster" else ("spotsize", "spotsize_y")
        if any(a not in attrs for a in need):
            raise Unsupported("an attribute the class needs is not set by __init__")
        result = f"Cfg.{kind} " + " ".join(term(attrs[a], "F") for a in need)
        body = "\n  ".join(binds + [f"pure ({result})"])
        defs += f"def gen_from_array_{kind} (a : RecArr) : Except ArrErr Cfg := do\n  {body}\n"
        thms += f"""theorem gen_from_array_{kind}_eq (a : RecArr) : gen_from_array_{kind} a = Cfg.fromRec .{kind} a := by
  first
  | rfl
  | (unfold gen_from_array_{kind} Cfg.fromRec
     cases h1 : a.field "spotsize" <;> cases h2 : a.dim <;>
       simp [h1, h2, bind, Except.bind, pure, Except.pure, throw, throwThe, MonadExceptOf.throw] <;>
       (try (split <;> simp_all [bind, Except.bind, pure, Except.pure])))
"""
        # sample arrays of the fallback comparison: the class's own array form and other layouts that carry every field it reads
        # (what from_array does with arrays of OTHER classes is outside the property; the differential tie records it)
        if kind == "raster":
            arrs = "[(Cfg.raster 35 (17/10) (1/10)).toRec, (Cfg.raster (3/10) (433/10) (7/1000)).toRec, " \
                   "(Pew.Srr.SrrConfig.make 35 140 (1/4) (1/2) [(0, 2), (1, 2)]).toRec, " \
                   '{ names := ["scantime", "extra", "speed", "spotsize"], dim := none, recs := [[.num 1, .num 9, .num 2, .num 3]] }]'
        else:
            arrs = "[(Cfg.spot (3/10) (7/1000)).toRec, (Cfg.spot 10 25).toRec, " \
                   '{ names := ["other", "spotsize"], dim := some 3, recs := [[.num 7, .num 1], [.num 8, .num 2], [.num 9, .num 3]] }]'
        samples.append(f"({arrs} : List RecArr).all (fun a => decide (gen_from_array_{kind} a = Cfg.fromRec .{kind} a))")
    return rel, sha, defs, thms, "#eval " + " && ".join(samples) + "\n"


SPECS = [
    ("C10Magnification", "SRRConfig.magnification (float64 product and quotient)", gen_magnification),
    ("C10Warmup", "SRRConfig.warmup setter and getter (float64 quotient, half-even rounding; float64 product)", gen_warmup),
    ("C10Spp", "SRRConfig.subpixels_per_pixel (np.round, np.lcm, //)", gen_spp),
    ("C10SrrPixel", "SRRConfig.get_pixel_width / get_pixel_height (layer None / even / odd)", gen_srr_pixel),
    ("C10SrrExtent", "SRRLaser.shape, SRRLaser.extent and SRRConfig.data_extent", gen_srr_extent),
    ("C10LaserGet", "Laser.get extent -> index conversion int(round(v / p, 6)) and the slice it feeds", gen_laser_get),
    ("C10LaserExtent", "Laser.shape, Laser.extent and Config.data_extent with the pixel getters of Config and SpotConfig", gen_laser_extent),
    ("C10ToArray", "to_array of Config, SpotConfig and SRRConfig (field names in dtype order, shape, value order, float64)", gen_to_array),
    ("C10FromArray", "from_array of Config and SpotConfig (fields read, order, conversion, constructor parameter of each value)", gen_from_array),
]

_cache = {}


def lean_run(name, source):
    d = core.LEAN / ".lake" / "gen"
    d.mkdir(parents=True, exist_ok=True)
    f = d / f"{name}.lean"
    f.write_text(source)
    r = subprocess.run(["lake", "env", "lean", str(f)], cwd=core.LEAN, capture_output=True, text=True, timeout=600)
    return r.returncode, r.stdout + r.stderr


def one(name, fn, S):
    """-> ("ok" | "failed" | "unsupported", text)"""
    try:
        rel, sha, defs, thm, samples = fn(S)
    except Unsupported as e:
        return "unsupported", str(e)
    head = HEADER + f"/- generated from {rel}, sha256 {sha} -/\n"
    code, out = lean_run(name, head + defs + "\n" + thm)
    if code == 0 and "error" not in out and "sorry" not in out:
        return "ok", ""
    # not proved: do the generated and the model function differ somewhere?
    code2, out2 = lean_run(name + "Samples", head + defs + "\n" + samples)
    last = ([ln.strip() for ln in out2.strip().splitlines() if ln.strip()][-1:] or [""])[0]
    if code2 == 0 and "error" not in out2 and last == "true":
        return "unsupported", "translated, but the equality with the model was not proved by the generated script " \
                              "(the two agree on every sample point)"
    if code2 == 0 and "error" not in out2 and last == "false":
        return "failed", (out[-500:] + " | the generated definition and the model function differ on a sample point")
    # the generated definition does not even elaborate: a limit of the translator, not a statement about the code
    return "unsupported", "translated, but the generated Lean text does not elaborate: " + out2[-200:]


def run_all():
    if "res" not in _cache:
        try:
            S = sources()
        except (OSError, SyntaxError) as e:
            _cache["res"] = {name: ("unsupported", f"source not readable: {e}") for name, _, _ in SPECS}
            return _cache["res"]
        with ThreadPoolExecutor(max_workers=len(SPECS)) as ex:
            futs = {name: ex.submit(one, name, fn, S) for name, _, fn in SPECS}
            res = {}
            for name, fut in futs.items():
                try:
                    res[name] = fut.result()
                except subprocess.TimeoutExpired:
                    res[name] = ("unsupported", "Lean timed out")
        _cache["res"] = res
    return _cache["res"]


def make_tie(name):
    def tie():
        status, text = run_all()[name]
        if status == "unsupported":
            raise Unsupported(text)
        return status == "ok", text
    return tie


TIES = {"C10": [(label, make_tie(name)) for name, label, _ in SPECS]}
# the C09 anchors cover the warm-up / magnification / sub-pixels-per-pixel arithmetic (src/pewlib/srr/config.py:40-80)
TIES["C09"] = [(label, make_tie(name)) for name, label, _ in SPECS if name in ("C10Magnification", "C10Warmup", "C10Spp")]
