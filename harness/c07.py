"""C07 — laser edit histories: pewlib.laser.Laser / pewlib.srr.SRRLaser (fresh and after an npz
save/load) against PewModel/LaserEdit.lean (mechanism `step`/`run`, specification `Spec.step`/`Spec.run`).

Every stored array is filled with a unique odd integer constant (its dataId), every non-default
calibration has the unique gradient 2**calId (calId 0 = default `Calibration()`), so a value read
from the laser decodes exactly to (dataId, calId): v = dataId / 2**calId.

Only successful operations are generated (the property speaks of successful operations only).
Order of the element tuple / calibration dict is not part of the property and is not compared.
"""
import itertools
import math
import os
import sys

import numpy as np

from harness import core
from harness.core import Prop, outcome, InternalError

KINDS = ["laser", "srr", "laser_npz", "srr_npz"]
DTYPES = ["<f8", "<f4"]


# ----------------------------------------------------------------------------- abstract tracking (generator side)
def start_state(start):
    """(present names in order, next data id, next cal id) of a start description"""
    ids = [i for layer in start["ids"] for i in layer]
    cals = [c for _, c in (start["given"] or [])]
    return list(start["names"]), max(ids + [-1]) + 2, max(cals + [0]) + 1


def abstract_apply(present, op):
    """the successful operations on the set of present names; None when the op would not succeed"""
    k = op["op"]
    if k == "add":
        return None if op["name"] in present else present + [op["name"]]
    if k == "remove":
        ns = op["names"]
        if len(set(ns)) != len(ns) or any(n not in present for n in ns):
            return None
        return [n for n in present if n not in ns]
    if k == "rename":
        m = dict(map(tuple, op["map"]))
        if len(m) != len(op["map"]) or any(o not in present for o in m):
            return None
        new = [m.get(n, n) for n in present]
        return new if len(set(new)) == len(new) else None
    if k == "get":
        return present if (op["target"] is None or op["target"] in present) else None
    if k == "caller_edit":
        return present
    raise InternalError(f"bad op {op}")


def abstract_run(start, ops):
    present, did, cid = start_state(start)
    for op in ops:
        present = abstract_apply(present, op)
        if present is None:
            return None
        if op["op"] == "add":
            did = max(did, max(op["data"]) + 2)
            cid = max(cid, op["cal"] + 1)
    return present, did, cid


def rename_maps(present, alphabet):
    """all injective partial maps on present names whose image avoids the untouched present names"""
    for r in range(1, len(present) + 1):
        for dom in itertools.combinations(present, r):
            rest = [n for n in present if n not in dom]
            targets = [n for n in alphabet if n not in rest]
            for img in itertools.permutations(targets, r):
                yield list(map(list, zip(dom, img)))


def successors(present, alphabet, did, cid, pos, nlayers):
    """every successful state-changing operation from a state with `present` names"""
    for j, n in enumerate(alphabet):
        if n not in present:
            data = [did + 2 * i for i in range(nlayers)]
            withcal = (pos + j) % 2 == 0
            yield ({"op": "add", "name": n, "data": data, "dtype": DTYPES[(pos + j) % 2], "cal": cid if withcal else 0},
                   did + 2 * nlayers, cid + (1 if withcal else 0))
    for r in range(1, len(present) + 1):
        for j, sub in enumerate(itertools.combinations(present, r)):
            names = list(sub) if (pos + j) % 2 == 0 else list(reversed(sub))
            yield ({"op": "remove", "names": names, "as_str": r == 1 and (pos + j) % 2 == 1}, did, cid)
    for j, m in enumerate(rename_maps(present, alphabet)):
        yield ({"op": "rename", "map": m if (pos + j) % 2 == 0 else list(reversed(m))}, did, cid)


def walk(seq, present, did, cid, depth, alphabet, nlayers):
    yield seq
    if depth <= 0:
        return
    for op, d2, c2 in successors(present, alphabet, did, cid, len(seq), nlayers):
        yield from walk(seq + [op], abstract_apply(present, op), d2, c2, depth - 1, alphabet, nlayers)


def op_features(op, present):
    k = op["op"]
    if k == "add":
        f = {"add", "add:cal" if op["cal"] else "add:nocal"}
        if not present:
            f.add("add:onto-empty")
        return f
    if k == "remove":
        f = {"remove", "remove:one" if len(op["names"]) == 1 else "remove:several"}
        if len(op["names"]) == len(present):
            f.add("remove:all")
        if op.get("as_str"):
            f.add("remove:str-arg")
        return f
    if k == "rename":
        m = dict(map(tuple, op["map"]))
        f = {"rename"}
        moved = {o: n for o, n in m.items() if o != n}
        if len(moved) < len(m):
            f.add("rename:identity-pair")
        if any(moved.get(n) == o for o, n in moved.items()):
            f.add("rename:swap")
        # cycles of length >= 3
        for o in moved:
            cur, steps = moved[o], 1
            while cur in moved and cur != o and steps <= len(moved):
                cur, steps = moved[cur], steps + 1
            if cur == o and steps >= 3:
                f.add("rename:cycle>=3")
        # chain: some new name is an old name of the map but the map is not a permutation there
        if any(n in moved and set(moved.values()) != set(moved) for n in moved.values()):
            f.add("rename:chain-onto-freed")
        if any(n not in present for n in moved.values()):
            f.add("rename:to-fresh-name")
        if len(m) >= 2:
            f.add("rename:multi")
        if len(m) == len(present):
            f.add("rename:all-elements")
        return f
    if k == "get":
        return {"get-op"}
    return {"caller-edit"}


# ----------------------------------------------------------------------------- real objects
def make_cal(cid):
    from pewlib import Calibration

    if cid == 0:
        return None
    pts = np.array([[0.0, 0.0], [1.0, 2.0 ** cid]]) if cid % 2 == 1 else None
    return Calibration(gradient=2.0 ** cid, intercept=0.0, unit=f"u{cid}", points=pts)


def cal_sig(c):
    return (float(c.gradient), float(c.intercept), str(c.unit), np.asarray(c.points, dtype=float).tolist())


def decode_cal(c, ncal):
    sig = cal_sig(c)
    g = sig[0]
    if sig == (1.0, 0.0, "", []):
        return 0
    if g > 1 and math.log2(g).is_integer():
        cid = int(math.log2(g))
        if cid < ncal and sig == cal_sig(make_cal(cid)):
            return cid
    return f"unknown:{sig!r}"


def make_config(srr, cfg):
    from pewlib import Config
    from pewlib.srr import SRRConfig

    if cfg == 0:
        return None
    if srr:
        return SRRConfig(spotsize=10.0, speed=40.0, scantime=0.25, warmup=0.0)
    return Config(spotsize=10.0, speed=40.0, scantime=0.25)


def cfg_sig(c):
    from pewlib.srr import SRRConfig

    t = (type(c).__name__, float(c.spotsize), float(c.speed), float(c.scantime))
    if isinstance(c, SRRConfig):
        t += (float(c.warmup), np.asarray(c.subpixel_offsets).tolist())
    return t


def decode_cfg(c, srr):
    from pewlib import Config
    from pewlib.srr import SRRConfig

    sig = cfg_sig(c)
    if sig == cfg_sig(make_config(srr, 1)):
        return 1
    if sig == cfg_sig(SRRConfig() if srr else Config()):
        return 0
    return f"unknown:{sig!r}"


def layer_shape(start, i):
    sh = start["shape"]
    return list(sh) if i % 2 == 0 else list(start.get("shape_odd", sh))


class World:
    """the real laser plus the objects the caller handed to the constructor"""

    def __init__(self, kind, start, tmp):
        from pewlib import Laser
        from pewlib.srr import SRRLaser
        from pewlib.io import npz

        self.kind, self.start = kind, start
        self.srr = kind.startswith("srr")
        self.reg = {}  # dataId -> (dtype, shape)
        names, dts = start["names"], start["dtypes"]
        layers = []
        for li, ids in enumerate(start["ids"]):
            sh = layer_shape(start, li)
            arr = np.empty(sh, dtype=[(n, d) for n, d in zip(names, dts)])
            for n, d, i in zip(names, dts, ids):
                arr[n] = i
                self.reg[i] = (d, sh)
            layers.append(arr)
        self.given = None if start["given"] is None else {n: make_cal(c) for n, c in start["given"]}
        self.config = make_config(self.srr, start["cfg"])
        self.ncal = max([c for _, c in (start["given"] or [])] + [0]) + 1
        if self.srr:
            laser = SRRLaser(layers, calibration=self.given, config=self.config)
        else:
            laser = Laser(layers[0], calibration=self.given, config=self.config)
        self.saved = None
        if kind.endswith("_npz"):
            path = tmp / "laser.npz"
            if not path.exists():  # within one tree case the same start is saved once and loaded for every sequence
                npz.save(path, laser)
            self.saved = laser
            laser = npz.load(path)
        self.laser = laser

    def layers(self):
        return list(self.laser.data) if self.srr else [self.laser.data]

    def apply(self, op):
        k = op["op"]
        if k == "add":
            arrs = []
            for li, i in enumerate(op["data"]):
                sh = layer_shape(self.start, li)
                self.reg[i] = (op["dtype"], sh)
                arrs.append(np.full(sh, i, dtype=op["dtype"]))
            self.ncal = max(self.ncal, op["cal"] + 1)
            self.laser.add(op["name"], arrs if self.srr else arrs[0], make_cal(op["cal"]))
        elif k == "remove":
            self.laser.remove(op["names"][0] if op.get("as_str") else list(op["names"]))
        elif k == "rename":
            self.laser.rename({o: n for o, n in op["map"]})
        elif k == "get":
            self.laser.get(op["target"], calibrate=op["calibrate"], **({"layer": op["layer"]} if self.srr else {}))
        elif k == "caller_edit":
            self.caller_edit()
        else:
            raise InternalError(f"bad op {op}")

    def caller_edit(self):
        """the caller goes on using (and changing) what it passed to the constructor"""
        from pewlib import Calibration

        dicts = [self.given]
        cfgs = [self.config]
        if self.saved is not None:  # the object that was saved keeps living on the caller's side
            dicts.append(self.saved.calibration)
            cfgs.append(self.saved.config)
        for g in dicts:
            if g is None:
                continue
            for c in list(g.values()):
                c.gradient = c.gradient * 3.0 + 1.0
                c.intercept = 5.0
                c.unit = "leak"
                if c._points.size:
                    c._points[...] = -1.0
            first = next(iter(g), None)
            if first is not None:
                del g[first]
            g["Zz"] = Calibration(gradient=7.0)
        for cfg in cfgs:
            if cfg is None:
                continue
            cfg.spotsize, cfg.speed, cfg.scantime = 999.0, 1.0, 2.0
            if self.srr:
                cfg.warmup = 4.0
                cfg.subpixel_offsets = [[0, 3], [1, 3], [2, 3]]

    # ------------------------------------------------------------------ observation
    def decode_data(self, arr):
        if arr.size == 0:
            return "empty"
        v = arr.flat[0]
        if not bool((arr == v).all()):
            return "mixed"
        fv = float(v)
        i = int(fv) if fv.is_integer() else None
        ent = self.reg.get(i)
        if ent is None:
            return f"unknown:{fv!r}"
        dtype, shape = ent
        if arr.dtype.str != np.dtype(dtype).str:
            return f"{i}:dtype:{arr.dtype.str}"
        if list(arr.shape) != list(shape):
            return f"{i}:shape:{list(arr.shape)}"
        if np.ascontiguousarray(arr).tobytes() != np.full(shape, i, dtype=dtype).tobytes():
            return f"{i}:bits"
        return i

    def state(self):
        las = self.laser
        elements = [str(n) for n in (las.elements or ())]
        layers = self.layers()
        data = {}
        for n in elements:
            data[n] = [self.decode_data(l[n]) if n in (l.dtype.names or ()) else "missing" for l in layers]
        return {
            "elements": sorted(elements),
            "n_elements": len(elements),
            "layer_names": [sorted(str(n) for n in (l.dtype.names or ())) for l in layers],
            "cal": {str(k): decode_cal(v, self.ncal) for k, v in las.calibration.items()},
            "n_cal": len(las.calibration),
            "shape": [int(x) for x in las.shape],
            "cfg": decode_cfg(las.config, self.srr),
            "data": data,
        }


def decode_vals(arr, drop_fill=False):
    out = []
    if arr.size and not drop_fill and bool((arr == arr.flat[0]).all()):
        vals = [arr.flat[0]]
    else:
        vals = np.unique(arr)
    for v in vals:
        fv = float(v)
        if drop_fill and (fv == 0.0 or fv != fv):
            continue
        if fv != fv or math.isinf(fv):
            out.append(["bad", repr(fv)])
            continue
        num, den = fv.as_integer_ratio()  # exact; den is a power of two
        out.append([num, den.bit_length() - 1])
    return sorted(out)


def decode_result(res, target, drop_fill=False):
    if target is None:
        names = res.dtype.names
        if names is None:
            return {"not-structured": str(res.dtype)}
        return {str(n): decode_vals(res[n], drop_fill) for n in names}
    if res.dtype.names is not None:
        return {"structured": [str(n) for n in res.dtype.names]}
    return {target: decode_vals(res, drop_fill)}


def read_plan(srr, nlayers, elements, cfg, light=False):
    """(label, model read indices, kwargs, drop_fill, sized): every get() variant that is observed.
    `light` (used at the leaves of the exhaustive trees only): all-element raw and calibrated reads
    and the calibrated read of every single element, per layer, no extent, no reconstruction."""
    plan, mreads = [], []

    def midx(layer, target, cal):
        mreads.append({"layer": layer, "target": target, "calibrate": cal})
        return len(mreads) - 1

    for layer in range(nlayers):
        for target in [None] + list(elements):
            for cal in (False, True):
                if light and target is not None and not cal:
                    continue
                i = midx(layer, target, cal)
                for ext in ((False, True) if (target is None or target == elements[0]) and not light else (False,)):
                    label = f"L{layer}|{target}|{'cal' if cal else 'raw'}|{'ext' if ext else 'full'}"
                    plan.append((label, [i], {"layer": layer, "target": target, "cal": cal, "ext": ext}, False, not ext))
    if srr and cfg == 1 and not light:
        for target in [None] + list(elements):
            for cal in (False, True):
                idx = [midx(layer, target, cal) for layer in range(nlayers)]
                label = f"SRR|{target}|{'cal' if cal else 'raw'}|full"
                plan.append((label, idx, {"layer": None, "target": target, "cal": cal, "ext": False}, True, False))
    return plan, mreads


def do_reads(world, plan):
    las, srr, start = world.laser, world.srr, world.start
    pix = 10.0 if start["cfg"] == 1 else 35.0
    reads, sizes = {}, {}
    for label, _, kw, drop_fill, sized in plan:
        args = {"calibrate": kw["cal"]}
        if srr:
            args["layer"] = kw["layer"]
        if kw["ext"]:
            sh = layer_shape(start, kw["layer"])
            if srr and kw["layer"] % 2 == 1:
                sh = sh[::-1]
            args["extent"] = (0.0, pix * max(1, sh[1] - 1), 0.0, pix * max(1, sh[0] - 1))
        try:
            res = las.get(kw["target"], **args)
            reads[label] = decode_result(res, kw["target"], drop_fill)
            if sized:
                sizes[label] = int(res.size)
        except Exception as e:  # generated reads never raise
            reads[label] = {"raises": type(e).__name__, "msg": str(e)[:120]}
    return reads, sizes


def observe_impl(world, elements, light=False):
    """state, every read variant, state again"""
    st = world.state()
    nl = len(world.start["ids"])
    plan, mreads = read_plan(world.srr, nl, elements, world.start["cfg"], light)
    reads, sizes = do_reads(world, plan)
    return {"state": st, "reads": reads, "sizes": sizes, "state_after_reads": world.state()}, plan, mreads


def readout(rs):
    """driver read result -> {name: [[dataId, calId]]} (None = the model says the read raises)"""
    if rs is None:
        return None
    out = {}
    for n, d, c in rs:
        out.setdefault(n, []).append([d, c or 0])
    return out


def merge_reads(parts):
    if any(p is None for p in parts):
        return {"raises": "model"}
    if len(parts) == 1:
        return parts[0]
    out = {}
    for p in parts:
        for n, v in p.items():
            out.setdefault(n, [])
            out[n] = sorted({tuple(x) for x in out[n]} | {tuple(x) for x in v})
            out[n] = [list(x) for x in out[n]]
    return out


def canon_side(o, plan, which):
    """canonical observation of the driver's mechanism (`model`) or specification (`spec`) reply"""
    if o is None:
        return {"raises": which}
    nl = len(o["sizes"])
    if which == "model":
        layers = [dict((n, i) for n, i in l) for l in o["layers"]]
        elements = list(o["elements"])
        data = {n: [l.get(n, "missing") for l in layers] for n in elements}
        cal = {n: c for n, c in o["cal"]}
        st = {"elements": sorted(elements), "n_elements": len(elements),
              "layer_names": [sorted(l) for l in layers],
              "cal": cal, "n_cal": len(o["cal"]), "shape": o["shape"], "cfg": o["cfg"], "data": data}
    else:
        elements = list(o["elements"])
        st = {"elements": sorted(elements), "n_elements": len(elements),
              "layer_names": [sorted(elements)] * nl,
              "cal": {n: c for n, _, c in o["map"]}, "n_cal": len(o["map"]), "shape": o["shape"], "cfg": o["cfg"],
              "data": {n: ds for n, ds, _ in o["map"]}}
    reads, sizes = {}, {}
    for label, idx, kw, _, sized in plan:
        reads[label] = merge_reads([readout(o["reads"][i]) for i in idx])
        if sized:
            sizes[label] = o["sizes"][kw["layer"]]
    return {"state": st, "reads": reads, "sizes": sizes, "state_after_reads": st}


def driver_req(kind, start, ops, mreads, last_only):
    layers = [{"shape": layer_shape(start, li), "fields": [[n, i] for n, i in zip(start["names"], ids)]}
              for li, ids in enumerate(start["ids"])]
    dops = []
    for op in ops:
        k = op["op"]
        if k == "add":
            dops.append({"op": "add", "name": op["name"], "data": op["data"], "cal": op["cal"]})
        elif k == "remove":
            dops.append({"op": "remove", "names": op["names"]})
        elif k == "rename":
            dops.append({"op": "rename", "map": op["map"]})
        elif k == "get":
            dops.append({"op": "get", "layer": op["layer"], "target": op["target"], "calibrate": op["calibrate"]})
        else:
            dops.append({"op": "caller_edit"})
    return dict(srr=kind.startswith("srr"), layers=layers, given=start["given"], cfg=start["cfg"],
                roundtrip=kind.endswith("_npz"), ops=dops, reads=mreads, last_only=last_only)


def default_start(kind, names=("A", "B")):
    srr = kind.startswith("srr")
    nl = 2 if srr else 1
    ids = [[1 + 2 * (li * len(names) + j) for j in range(len(names))] for li in range(nl)]
    return {"names": list(names), "dtypes": [DTYPES[j % 2] for j in range(len(names))],
            "shape": [3, 3] if srr else [2, 3], "ids": ids,
            "given": [[names[0], 1]] if names else None, "cfg": 1}


# ----------------------------------------------------------------------------- the property
class C07(Prop):
    id = "C07"
    anchored = ["src/pewlib/laser.py", "src/pewlib/srr/srr.py", "src/pewlib/io/npz.py"]
    cases = {"quick": 120, "thorough": 2400}
    rule = ("targeted: every successful add/remove/rename sequence up to length 3 over {A,B,C,D} from Laser, SRRLaser and both "
            "after npz save/load (16368 sequences each; thorough: over 5 names, 76695 each, plus all 578786 length-4 sequences "
            "over 4 names from Laser and SRRLaser and a quarter of them, by prefix, after npz save/load), grouped into trees "
            "by prefix; all get() variants are read at every node, a reduced set at the deepest leaves; generated: "
            "random successful sequences up to length 25 (adds, single/multi removes, renames incl. swaps, cycles, chains onto "
            "freed names, identity pairs, explicit get() calls, caller edits of the constructor arguments) with all get() variants "
            "observed after every step; non-trivial = at least one state-changing operation; distinct by canonical case hash")
    trusted = ["decoding of observed values: every array is a unique odd constant d, every non-default calibration has gradient "
               "2**k, so a read value is exactly d/2**k in float32 and float64",
               "numpy.lib.recfunctions.drop_fields / rename_fields and structured-dtype construction behave as read from NumPy 2.x "
               "(duplicate field names raise ValueError)"]
    assumptions = ["only successful operations are generated and compared; what a raising operation leaves behind is not part of the property",
                   "order of the element tuple and of the calibration dict is not compared (the property speaks of sets)",
                   "SRR reads with layer=None (reconstruction) are compared as the set of non-fill values per element; "
                   "sizes of extent-trimmed reads are C10's subject and are not compared"]

    # ---- enumeration
    def trees(self, alphabet, length, kinds=KINDS):
        """all successful sequences of length <= `length`: one tree for the short ones, then one tree per
        sequence of length `length - 1` (itself and its one-op extensions)"""
        for kind in kinds:
            start = default_start(kind)
            nl = len(start["ids"])
            base = {"mode": "tree", "kind": kind, "alphabet": alphabet, "start": start, "light_leaves": True}
            if length <= 1:
                yield {**base, "prefix": [], "depth": length}
                continue
            yield {**base, "prefix": [], "depth": length - 2, "light_leaves": False}
            present, did, cid = start_state(start)
            for seq in walk([], present, did, cid, length - 1, alphabet, nl):
                if len(seq) == length - 1:
                    yield {**base, "prefix": seq, "depth": 1}

    def targeted(self, tier):
        a4, a5 = ["A", "B", "C", "D"], ["A", "B", "C", "D", "E"]
        # probes of the constructor copies and a swap / chain / cycle on every kind, observed after every step
        for kind in KINDS:
            st = default_start(kind, ("A", "B", "C"))
            st["given"] = [["C", 1], ["A", 2]]
            nl = len(st["ids"])
            d0 = max(i for l in st["ids"] for i in l) + 2
            yield {"mode": "seq", "kind": kind, "start": st, "ops": [
                {"op": "caller_edit"},
                {"op": "rename", "map": [["A", "B"], ["B", "A"]]},
                {"op": "rename", "map": [["A", "B"], ["B", "C"], ["C", "A"]]},
                {"op": "remove", "names": ["C"], "as_str": True},
                {"op": "rename", "map": [["A", "B"], ["B", "C"]]},
                {"op": "add", "name": "A", "data": [d0 + 2 * i for i in range(nl)], "dtype": "<f4", "cal": 3},
                {"op": "caller_edit"},
                {"op": "remove", "names": ["B", "A", "C"]},
                {"op": "add", "name": "D", "data": [d0 + 2 * nl + 2 * i for i in range(nl)], "dtype": "<f8", "cal": 0},
            ]}
        if tier == "quick":
            yield from self.trees(a4, 3)
        else:
            yield from self.trees(a5, 3)
            yield from self.sampled_len4(a4)

    def sampled_len4(self, alphabet):
        """length 4 over 4 names: every sequence of length 2 is a prefix whose depth-2 subtree is walked (only the
        length-4 leaves are run; shorter ones are covered by the length-3 trees).  Exhaustive from Laser and SRRLaser;
        after an npz round trip (where every sequence costs a file load) every 4th prefix, the phase chosen by the seed."""
        phase = int(os.environ.get("VERIF_SEED", "0")) % 4
        for kind in KINDS:
            start = default_start(kind)
            nl = len(start["ids"])
            present, did, cid = start_state(start)
            stride = 4 if kind.endswith("_npz") else 1
            j = 0
            for seq in walk([], present, did, cid, 2, alphabet, nl):
                if len(seq) == 2:
                    j += 1
                    if j % stride != phase % stride:
                        continue
                    yield {"mode": "tree", "kind": kind, "alphabet": alphabet, "start": start, "prefix": seq, "depth": 2,
                           "min_len": 4, "light_leaves": True}

    def search_extra(self, tier):
        yield from self.trees(["A", "B", "C", "D"], 3)

    def generate(self, rng, tier):
        kind = rng.choice(KINDS)
        srr = kind.startswith("srr")
        pool = rng.choice([["A", "B", "C", "D", "E", "F"], ["Mg24", "P31", "Fe56", "Fe57", "Zn66", "Gd157"],
                           ["b", "a", "ab", "B", "a b", "é"]])
        n0 = rng.choice([1, 2, 2, 3, 3, 4])
        names = rng.sample(pool, n0)
        nl = rng.choice([2, 2, 3]) if srr else 1
        if srr:
            r = rng.randint(1, 3)
            if kind == "srr_npz":
                shape, shape_odd = [r, r + rng.randint(0, 2)], None
            else:
                r1 = rng.randint(1, 3)
                shape, shape_odd = [r, r1 + rng.randint(0, 2)], [r1, r + rng.randint(0, 2)]
        else:
            shape, shape_odd = [rng.randint(1, 4), rng.randint(1, 4)], None
        did = 1
        ids = []
        for _ in range(nl):
            ids.append([did + 2 * j for j in range(n0)])
            did += 2 * n0
        cid = 1
        given = None
        if rng.random() < 0.75:
            given = []
            for n in rng.sample(names, rng.randint(0, n0)):
                given.append([n, cid])
                cid += 1
        start = {"names": names, "dtypes": [rng.choice(DTYPES) for _ in names], "shape": shape, "ids": ids,
                 "given": given, "cfg": rng.choice([0, 1, 1])}
        if shape_odd is not None:
            start["shape_odd"] = shape_odd
        if srr:  # one dtype per element across layers is what the structured stack needs; already so
            pass
        present = list(names)
        ops = []
        length = rng.choice([1, 2, 3, 5, 8, 12, 18, 25])
        for _ in range(length):
            absent = [n for n in pool if n not in present]
            choices = ["get", "caller_edit"]
            if absent:
                choices += ["add"] * 3
            if present:
                choices += ["remove"] * 2 + ["rename"] * 5
            k = rng.choice(choices)
            if k == "add":
                withcal = rng.random() < 0.6
                op = {"op": "add", "name": rng.choice(absent), "data": [did + 2 * i for i in range(nl)],
                      "dtype": rng.choice(DTYPES), "cal": cid if withcal else 0}
                did += 2 * nl
                cid += 1 if withcal else 0
            elif k == "remove":
                m = 1 if rng.random() < 0.5 else rng.randint(1, len(present))
                if m == len(present) and rng.random() < 0.7 and len(present) > 1:
                    m -= 1
                ns = rng.sample(present, m)
                op = {"op": "remove", "names": ns, "as_str": m == 1 and rng.random() < 0.5}
            elif k == "rename":
                op = {"op": "rename", "map": self.gen_rename(rng, present, pool)}
            elif k == "get":
                op = {"op": "get", "layer": rng.randrange(nl), "target": rng.choice([None] + present) if present else None,
                      "calibrate": rng.random() < 0.5}
            else:
                op = {"op": "caller_edit"}
            nxt = abstract_apply(present, op)
            if nxt is None:
                raise InternalError(f"generator produced an unsuccessful op {op} on {present}")
            present = nxt
            ops.append(op)
        return {"mode": "seq", "kind": kind, "start": start, "ops": ops}

    def gen_rename(self, rng, present, pool):
        absent = [n for n in pool if n not in present]
        style = rng.choice(["swap", "cycle", "chain", "fresh", "any", "any", "identity"])
        if style == "swap" and len(present) >= 2:
            a, b = rng.sample(present, 2)
            m = [[a, b], [b, a]]
        elif style == "cycle" and len(present) >= 3:
            c = rng.sample(present, rng.randint(3, len(present)))
            m = [[c[i], c[(i + 1) % len(c)]] for i in range(len(c))]
        elif style == "chain" and len(present) >= 2 and absent:
            c = rng.sample(present, rng.randint(2, len(present)))
            tgt = c[1:] + [rng.choice(absent)]
            m = [[o, n] for o, n in zip(c, tgt)]
        elif style == "fresh" and absent:
            dom = rng.sample(present, rng.randint(1, min(len(present), len(absent))))
            m = [[o, n] for o, n in zip(dom, rng.sample(absent, len(dom)))]
        elif style == "identity":
            dom = rng.sample(present, rng.randint(1, len(present)))
            m = [[o, o] for o in dom]
        else:
            dom = rng.sample(present, rng.randint(1, len(present)))
            rest = [n for n in present if n not in dom]
            targets = [n for n in pool if n not in rest]
            m = [[o, n] for o, n in zip(dom, rng.sample(targets, len(dom)))]
        rng.shuffle(m)
        return m

    # ---- evaluation
    @staticmethod
    def presents_of(start, ops):
        present = list(start["names"])
        out = [present]
        for op in ops:
            present = abstract_apply(present, op)
            if present is None:
                raise InternalError(f"unsuccessful op in case: {op}")
            out.append(present)
        return out

    def plan_sequence(self, kind, start, ops, every_step, light):
        """-> (observed step indices, read plans, driver requests): what is asked of the driver for one sequence"""
        presents = self.presents_of(start, ops)
        steps = list(range(len(ops) + 1)) if every_step else [len(ops)]
        plans, reqs = [], []
        for i in steps:
            # reads name the present elements, so they differ per step: one driver run per observed step
            plan, mreads = read_plan(kind.startswith("srr"), len(start["ids"]), presents[i], start["cfg"], light)
            plans.append(plan)
            reqs.append(driver_req(kind, start, ops[:i], mreads, True))
        return steps, plans, reqs, presents

    def run_impl(self, kind, start, ops, steps, presents, tmp, light):
        """the real objects: construct (save/load), apply the operations, observe at `steps`"""
        impl = []
        world = None
        raised = None
        try:
            world = World(kind, start, tmp)
        except InternalError:
            raise
        except Exception as e:
            raised = {"raises": type(e).__name__, "msg": str(e)[:160], "at": "construct"}
        for i in range(len(ops) + 1):
            if raised is None and i > 0:
                try:
                    world.apply(ops[i - 1])
                except InternalError:
                    raise
                except Exception as e:
                    raised = {"raises": type(e).__name__, "msg": str(e)[:160], "at": i, "op": ops[i - 1]}
            if i in steps:
                if raised is not None:
                    impl.append(raised)
                    continue
                try:
                    o, _, _ = observe_impl(world, presents[i], light)
                except InternalError:
                    raise
                except Exception as e:
                    o = {"raises": type(e).__name__, "msg": str(e)[:160], "at": f"observe {i}"}
                impl.append(o)
        return impl

    def sides(self, reps, plans, what):
        model, spec = [], []
        for rep, plan in zip(reps, plans):
            st = rep["steps"][-1]
            if st["model"] is None or st["spec"] is None:
                raise InternalError(f"model/spec reject a generated (successful) sequence: {what}")
            if not st["inv"] or not st["abs_eq"]:
                raise InternalError(f"driver: invariant/abstraction fails (contradicts the theorems): {what}")
            model.append(canon_side(st["model"], plan, "model"))
            spec.append(canon_side(st["spec"], plan, "spec"))
        return model, spec

    def evaluate(self, case, ctx):
        kind, start = case["kind"], case["start"]
        tmp = ctx.tmpdir() if kind.endswith("_npz") else None
        feats = {f"kind:{kind}"}
        if case["mode"] == "seq":
            ops = case["ops"]
            steps, plans, reqs, presents = self.plan_sequence(kind, start, ops, True, False)
            for op, present in zip(ops, presents):
                feats |= op_features(op, present)
            feats.add(f"len:{'0' if not ops else '1-3' if len(ops) <= 3 else '4-10' if len(ops) <= 10 else '11-25'}")
            feats.add(f"start-elements:{len(start['names'])}")
            if start["given"] is None:
                feats.add("no-calibration-arg")
            reps = ctx.driver.call("c07.batch", runs=reqs)["runs"]
            model, spec = self.sides(reps, plans, (kind, start, ops))
            impl = self.run_impl(kind, start, ops, steps, presents, tmp, False)
            changing = any(op["op"] in ("add", "remove", "rename") for op in ops)
            return outcome({"steps": impl}, {"steps": model}, {"steps": spec}, features=feats if changing else [])
        # tree: every successful sequence below the prefix, observed at its end
        alphabet = case["alphabet"]
        nl = len(start["ids"])
        st = abstract_run(start, case["prefix"])
        if st is None:
            raise InternalError("tree prefix is not successful")
        present, did, cid = st
        min_len = case.get("min_len", 0)
        full = len(case["prefix"]) + case["depth"]
        todo = []
        for seq in walk(list(case["prefix"]), present, did, cid, case["depth"], alphabet, nl):
            if len(seq) < min_len:  # shorter sequences are covered exhaustively by other trees
                continue
            light = bool(case.get("light_leaves")) and len(seq) == full and case["depth"] > 0
            steps, plans, reqs, presents = self.plan_sequence(kind, start, seq, False, light)
            for op, p in zip(seq, presents):
                feats |= op_features(op, p)
            if light:
                feats.add("light-reads-at-leaf")
            todo.append((seq, steps, plans, reqs, presents, light))
        reps = ctx.driver.call("c07.batch", runs=[t[3][0] for t in todo])["runs"] if todo else []
        for (seq, steps, plans, reqs, presents, light), rep in zip(todo, reps):
            model, spec = self.sides([rep], plans, (kind, start, seq))
            impl = self.run_impl(kind, start, seq, steps, presents, tmp, light)
            if impl != spec or impl != model:
                return outcome({"seq": seq, "obs": impl}, {"seq": seq, "obs": model}, {"seq": seq, "obs": spec}, features=feats)
        feats.add(f"tree-depth:{full}")
        summary = {"sequences": len(todo), "all_agree": True}
        return outcome(summary, summary, summary, features=feats)

    # ---- shrinking
    def first_failing_seq(self, case):
        ctx = core.Ctx()
        try:
            out = self.evaluate(case, ctx)
            if isinstance(out["impl"], dict) and "seq" in out["impl"]:
                return out["impl"]["seq"]
        finally:
            ctx.close()
        return None

    def shrink(self, case):
        if case["mode"] == "tree":
            seq = self.first_failing_seq(case)
            if seq is not None:
                yield {"mode": "seq", "kind": case["kind"], "start": case["start"], "ops": seq}
            return
        ops, start, kind = case["ops"], case["start"], case["kind"]
        if len(ops) > 1:  # a prefix (the first failing step is usually early)
            for n in range(1, len(ops)):
                yield {**case, "ops": ops[:n]}
        for i in range(len(ops)):
            cand = ops[:i] + ops[i + 1:]
            if abstract_run(start, cand) is not None:
                yield {**case, "ops": cand}
        if kind.endswith("_npz"):
            yield {**case, "kind": kind[:-4]}
        for i, op in enumerate(ops):
            if op["op"] == "rename" and len(op["map"]) > 1:
                for j in range(len(op["map"])):
                    cand = ops[:i] + [{**op, "map": op["map"][:j] + op["map"][j + 1:]}] + ops[i + 1:]
                    if abstract_run(start, cand) is not None:
                        yield {**case, "ops": cand}
            if op["op"] == "remove" and len(op["names"]) > 1:
                for j in range(len(op["names"])):
                    cand = ops[:i] + [{**op, "names": op["names"][:j] + op["names"][j + 1:]}] + ops[i + 1:]
                    if abstract_run(start, cand) is not None:
                        yield {**case, "ops": cand}


PROP = C07()

if __name__ == "__main__":
    sys.exit(core.main(PROP, "harness.c07"))
