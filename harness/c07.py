"""C07 — laser edit histories: pewlib.laser.Laser / pewlib.srr.SRRLaser (fresh and after an npz
save/load) against PewModel/LaserEdit.lean (mechanism `step`/`run`, specification `Spec.step`/`Spec.run`).

Every stored array is filled with a unique odd integer constant (its dataId), every non-default
calibration has the unique gradient 2**calId (calId 0 = default `Calibration()`), so a value read
from the laser decodes exactly to (dataId, calId): v = dataId / 2**calId.

Three kinds of cases:
* "tree" / "seq": successful operations only, compared with the content-level mechanism (`step`) and the
  dictionary specification (`Spec.step`) - the exhaustive enumeration lives here;
* "obj": histories run on the OBJECT-LEVEL model (`hstep` on a heap of array cells, Calibration / Config /
  dict objects): besides the contents, the model predicts which objects are the same and which arrays share
  memory (stored calibrations vs. the caller's, stored arrays vs. the caller's, every returned array vs. the
  stored ones), the exception class of failing calls and the state they leave behind, what edits of the
  caller's objects and in-place writes through returned views change.  Steps the property speaks about
  (successful add/remove/rename/get, edits of what was given at construction) are also compared with the
  dictionary specification; the others with the model only.
Order of the element tuple / calibration dict is not part of the property and is not compared.
"""
import itertools
import math
import os
import sys

import numpy as np

from harness import core
from harness.core import Prop, outcome, InternalError

KINDS = ["laser", "srr", "laser_npz", "srr_npz"]
# element names of the random histories: plain letters; isotopes; names that contain other names of the pool (ratio images,
# 'P31 -> 47', 'Fe' / 'Fe56'), with '/', blanks and '>'; one-letter / case / blank / non-ASCII variants
NAME_POOLS = [["A", "B", "C", "D", "E", "F"], ["Mg24", "P31", "Fe56", "Fe57", "Zn66", "Gd157"],
              ["Ca44", "P31", "Ca44/P31", "P31 -> 47", "Fe", "Fe56"], ["b", "a", "ab", "B", "a b", "é"]]
DTYPES = ["<f8", "<f4"]
# the byte-swapped twins: generated for arrays handed to add() and for the start arrays of every kind but srr_npz
SWAPPED = [">f8", ">f4"]
# data ids from WIDE on (odd, so 31 significant bits) are not float32 values: an array of a 64-bit dtype filled with
# one of them comes back changed from any detour through a narrower type.  The low part stays the running counter.
WIDE = 2 ** 30


def narrow(i):
    return i % WIDE


def is_f8(dt):
    return np.dtype(dt).itemsize == 8


def widen(i, dt, yes):
    """the id an array of dtype `dt` gets: beyond float32 precision when asked for and the dtype can hold it"""
    return i + WIDE if yes and is_f8(dt) and i < WIDE else i


def start_layer_dtypes(start, li):
    """field dtypes of start layer `li`: `layer_dtypes` (one list per layer) when the layers differ, else `dtypes`"""
    ld = start.get("layer_dtypes")
    return list(ld[li]) if ld else list(start["dtypes"])


def add_dtypes(op, n):
    """dtype of each array handed to add(): `dtypes` (one per layer) when they differ, else `dtype` for all"""
    return list(op["dtypes"]) if op.get("dtypes") else [op["dtype"]] * n


def mixed_layers(dts):
    return len({np.dtype(d).str for d in dts}) > 1


def swapped(dt):
    return np.dtype(dt).str != np.dtype(dt).newbyteorder("=").str


def dtype_features(start, ops):
    """which of the dtype / value classes a case exercises"""
    f = set()
    nl = len(start["ids"])
    cols = [[start_layer_dtypes(start, li)[j] for li in range(nl)] for j in range(len(start["names"]))]
    if any(mixed_layers(c) for c in cols):
        f.add("start:layers-of-different-dtype")
        if any(not is_f8(c[0]) and any(is_f8(d) for d in c[1:]) for c in cols):
            f.add("start:layer0-narrower-than-a-later-layer")
    if any(swapped(d) for c in cols for d in c):
        f.add("start:byte-swapped-dtype")
    if any(i >= WIDE for l in start["ids"] for i in l):
        f.add("start:value-beyond-float32")
    for op in ops:
        if op["op"] != "add":
            continue
        dts = add_dtypes(op, len(op["data"]))
        if mixed_layers(dts):
            f.add("add:layers-of-different-dtype")
            f.add("add:layer0-narrower-than-a-later-layer" if not is_f8(dts[0]) and any(is_f8(d) for d in dts[1:])
                  else "add:layer0-not-the-narrowest" if is_f8(dts[0]) else "add:layers-differ-in-byte-order-only")
            if cols and any(mixed_layers(c) for c in cols):
                f.add("add:layers-of-different-dtype-onto-such-a-start")
        if any(swapped(d) for d in dts):
            f.add("add:byte-swapped-dtype")
        if any(i >= WIDE for i in op["data"]):
            f.add("add:value-beyond-float32")
    return f


class OutOfScope(Exception):
    """the case is not one the comparison is sound for (a shrinker or a hand-written replay may build one)"""


def guard(kind, start, ops):
    """Conditions the decoding of observed values rests on, checked for ANY case before it is run:
    * every array's fill value (its id) is exactly representable in the array's dtype;
    * a laser that goes through an npz file is saved as ONE stacked array: SRR layers with different field dtypes
      are promoted by np.savez, a byte-swapped field comes back in native order (known finding C01-srr-byteorder) -
      such a start is not a well-formed "after an npz round trip" laser;
    * the reconstruction read of an SRR laser (layer=None, read when cfg == 1) stacks all layers into an array of
      layer 0's dtype: with layers of different precision a value beyond float32 precision would come back rounded.
      That read is outside the property's quantifier (see `assumptions`): such cases are not judged."""
    srr = kind.startswith("srr")
    nl = len(start["ids"])
    births = []  # every element ever stored: its per-layer ids and dtypes (rename / remove do not change them)
    for li in range(nl):
        if len(start_layer_dtypes(start, li)) != len(start["names"]) or len(start["ids"][li]) != len(start["names"]):
            raise InternalError("start: one id and one dtype per field and layer")
    for j in range(len(start["names"])):
        col = [start_layer_dtypes(start, li)[j] for li in range(nl)]
        if mixed_layers(col) and kind.endswith("_npz"):
            raise OutOfScope("npz start with layers of different field dtypes")
        if kind == "srr_npz" and any(swapped(d) for d in col):
            raise OutOfScope("srr npz start with a byte-swapped field (C01-srr-byteorder)")
        births.append(([start["ids"][li][j] for li in range(nl)], col))
    for op in ops:
        if op["op"] == "add":
            dts = add_dtypes(op, len(op["data"]))
            if len(dts) != len(op["data"]):
                raise InternalError("add: one dtype per array")
            births.append((list(op["data"]), dts))
    for ids, dts in births:
        for i, dt in zip(ids, dts):
            t = np.dtype(dt)
            if t.kind != "f" or float(t.type(i)) != float(i) or int(t.type(i)) != i:
                raise OutOfScope(f"id {i} is not a value of dtype {dt}")
        if srr and start["cfg"] == 1 and dts and not is_f8(dts[0]) and any(i >= WIDE for i in ids[1:]):
            raise OutOfScope("reconstruction read: a value beyond float32 under a 32-bit field of layer 0")


# ----------------------------------------------------------------------------- abstract tracking (generator side)
def start_state(start):
    """(present names in order, next data id, next cal id) of a start description"""
    ids = [narrow(i) for layer in start["ids"] for i in layer]
    cals = [c for _, c in (start["given"] or [])]
    return list(start["names"]), max(ids + [-1]) + 2, max(cals + [0]) + 1


def abstract_apply(present, op):
    """the successful operations on the set of present names; None when the op would not succeed"""
    k = op["op"]
    if k == "add":
        return None if op["name"] in present else present + [op["name"]]
    if k == "remove":
        ns = op["names"]
        if len(set(ns)) != len(ns) or any(n not in present for n in ns):
            return None
        return [n for n in present if n not in ns]
    if k == "rename":
        m = dict(map(tuple, op["map"]))
        if len(m) != len(op["map"]) or any(o not in present for o in m):
            return None
        new = [m.get(n, n) for n in present]
        return new if len(set(new)) == len(new) else None
    if k == "get":
        return present if (op["target"] is None or op["target"] in present) else None
    if k == "caller_edit":
        return present
    raise InternalError(f"bad op {op}")


def abstract_run(start, ops):
    present, did, cid = start_state(start)
    for op in ops:
        present = abstract_apply(present, op)
        if present is None:
            return None
        if op["op"] == "add":
            did = max(did, max(map(narrow, op["data"])) + 2)
            cid = max(cid, op["cal"] + 1)
    return present, did, cid


def rename_maps(present, alphabet):
    """all injective partial maps on present names whose image avoids the untouched present names"""
    for r in range(1, len(present) + 1):
        for dom in itertools.combinations(present, r):
            rest = [n for n in present if n not in dom]
            targets = [n for n in alphabet if n not in rest]
            for img in itertools.permutations(targets, r):
                yield list(map(list, zip(dom, img)))


def successors(present, alphabet, did, cid, pos, nlayers, deco=None):
    """every successful state-changing operation from a state with `present` names.
    `deco` (decoration of the enumerated adds; the enumeration itself is over names): with "mixed" the arrays handed to an
    SRR add cycle through all-64-bit, all-32-bit, 32-bit first / 64-bit later, 64-bit first / 32-bit later (by position
    in the sequence and name); with "wide" every other all-64-bit add and the leading 64-bit array hold a value beyond
    float32 precision"""
    deco = deco or {}
    for j, n in enumerate(alphabet):
        if n not in present:
            k = pos + j
            withcal = k % 2 == 0
            op = {"op": "add", "name": n, "dtype": DTYPES[k % 2], "cal": cid if withcal else 0}
            dts = [DTYPES[k % 2]] * nlayers
            if deco.get("mixed") and nlayers > 1 and k % 4 >= 2:
                dts = [DTYPES[(li + k + 1) % 2] for li in range(nlayers)]  # k%4 == 2: <f4 first; 3: <f8 first
                op["dtype"], op["dtypes"] = dts[0], dts
            wide = [bool(deco.get("wide")) and (k % 4 == 0 or (k % 4 == 3 and li == 0)) for li in range(nlayers)]
            op["data"] = [widen(did + 2 * li, dts[li], wide[li]) for li in range(nlayers)]
            yield (op, did + 2 * nlayers, cid + (1 if withcal else 0))
    for r in range(1, len(present) + 1):
        for j, sub in enumerate(itertools.combinations(present, r)):
            names = list(sub) if (pos + j) % 2 == 0 else list(reversed(sub))
            yield ({"op": "remove", "names": names, "as_str": r == 1 and (pos + j) % 2 == 1}, did, cid)
    for j, m in enumerate(rename_maps(present, alphabet)):
        yield ({"op": "rename", "map": m if (pos + j) % 2 == 0 else list(reversed(m))}, did, cid)


def walk(seq, present, did, cid, depth, alphabet, nlayers, deco=None):
    yield seq
    if depth <= 0:
        return
    for op, d2, c2 in successors(present, alphabet, did, cid, len(seq), nlayers, deco):
        yield from walk(seq + [op], abstract_apply(present, op), d2, c2, depth - 1, alphabet, nlayers, deco)


def op_features(op, present):
    k = op["op"]
    if k == "add":
        f = {"add", "add:cal" if op["cal"] else "add:nocal"}
        if not present:
            f.add("add:onto-empty")
        return f
    if k == "remove":
        f = {"remove", "remove:one" if len(op["names"]) == 1 else "remove:several"}
        if len(op["names"]) == len(present):
            f.add("remove:all")
        if op.get("as_str"):
            f.add("remove:str-arg")
        return f
    if k == "rename":
        m = dict(map(tuple, op["map"]))
        f = {"rename"}
        moved = {o: n for o, n in m.items() if o != n}
        if len(moved) < len(m):
            f.add("rename:identity-pair")
        if any(moved.get(n) == o for o, n in moved.items()):
            f.add("rename:swap")
        # cycles of length >= 3
        for o in moved:
            cur, steps = moved[o], 1
            while cur in moved and cur != o and steps <= len(moved):
                cur, steps = moved[cur], steps + 1
            if cur == o and steps >= 3:
                f.add("rename:cycle>=3")
        # chain: some new name is an old name of the map but the map is not a permutation there
        if any(n in moved and set(moved.values()) != set(moved) for n in moved.values()):
            f.add("rename:chain-onto-freed")
        if any(n not in present for n in moved.values()):
            f.add("rename:to-fresh-name")
        if len(m) >= 2:
            f.add("rename:multi")
        if len(m) == len(present):
            f.add("rename:all-elements")
        return f
    if k == "get":
        return {"get-op"}
    return {"caller-edit"}


# ----------------------------------------------------------------------------- real objects
def make_cal(cid):
    from pewlib import Calibration

    if cid == 0:
        return None
    pts = np.array([[0.0, 0.0], [1.0, 2.0 ** cid]]) if cid % 2 == 1 else None
    return Calibration(gradient=2.0 ** cid, intercept=0.0, unit=f"u{cid}", points=pts)


def cal_sig(c):
    return (float(c.gradient), float(c.intercept), str(c.unit), np.asarray(c.points, dtype=float).tolist())


def decode_cal(c, ncal):
    sig = cal_sig(c)
    g = sig[0]
    if sig == (1.0, 0.0, "", []):
        return 0
    if g > 1 and math.log2(g).is_integer():
        cid = int(math.log2(g))
        if cid < ncal and sig == cal_sig(make_cal(cid)):
            return cid
    return f"unknown:{sig!r}"


def make_config(srr, cfg):
    from pewlib import Config
    from pewlib.srr import SRRConfig

    if cfg == 0:
        return None
    if srr:
        return SRRConfig(spotsize=10.0 * cfg, speed=40.0 * cfg, scantime=0.25, warmup=0.0)
    return Config(spotsize=10.0 * cfg, speed=40.0 * cfg, scantime=0.25)


def cfg_sig(c, offsets=True):
    from pewlib.srr import SRRConfig

    t = (type(c).__name__, float(c.spotsize), float(c.speed), float(c.scantime))
    if isinstance(c, SRRConfig):
        t += (float(c.warmup),)
        if offsets:
            t += (np.asarray(c.subpixel_offsets).tolist(),)
    return t


# content tokens of an SRRConfig's `_subpixel_offsets` array: 0 = as constructed, 1 = written in place, 2 = rebound by the setter
OFFS = {0: [0, 1], 1: [1, 0], 2: [0, 1, 2]}


def decode_offs(c):
    v = [int(x) for x in np.asarray(c._subpixel_offsets).tolist()]
    for t, want in OFFS.items():
        if v == want:
            return t
    return f"unknown:{v!r}"


def decode_cfg(c, srr):
    from pewlib import Config
    from pewlib.srr import SRRConfig

    sig = cfg_sig(c, offsets=False)
    for t in range(1, 40):
        if sig == cfg_sig(make_config(srr, t), offsets=False):
            return t
    if sig == cfg_sig(SRRConfig() if srr else Config(), offsets=False):
        return 0
    return f"unknown:{sig!r}"


def pixel(cfg):
    """pixel width = height of the configuration with content token `cfg` (`make_config`; 0 = the default config)"""
    return 35.0 if cfg == 0 else 10.0 * cfg


def layer_shape(start, i):
    sh = start["shape"]
    return list(sh) if i % 2 == 0 else list(start.get("shape_odd", sh))


class World:
    """the real laser plus the objects the caller handed to the constructor"""

    def __init__(self, kind, start, tmp):
        from pewlib import Laser
        from pewlib.srr import SRRLaser
        from pewlib.io import npz

        self.kind, self.start = kind, start
        self.srr = kind.startswith("srr")
        self.reg = {}  # dataId -> (dtype, shape)
        names = start["names"]
        layers = []
        for li, ids in enumerate(start["ids"]):
            sh = layer_shape(start, li)
            dts = start_layer_dtypes(start, li)
            arr = np.empty(sh, dtype=[(n, d) for n, d in zip(names, dts)])
            for n, d, i in zip(names, dts, ids):
                arr[n] = i
                self.reg[i] = (d, sh)
            layers.append(arr)
        self.given = None if start["given"] is None else {n: make_cal(c) for n, c in start["given"]}
        self.config = make_config(self.srr, start["cfg"])
        self.ncal = max([c for _, c in (start["given"] or [])] + [0]) + 1
        if self.srr:
            laser = SRRLaser(layers, calibration=self.given, config=self.config)
        else:
            laser = Laser(layers[0], calibration=self.given, config=self.config)
        self.saved = None
        if kind.endswith("_npz"):
            path = tmp / "laser.npz"
            if not path.exists():  # within one tree case the same start is saved once and loaded for every sequence
                npz.save(path, laser)
            self.saved = laser
            laser = npz.load(path)
        self.laser = laser

    def layers(self):
        return list(self.laser.data) if self.srr else [self.laser.data]

    def apply(self, op):
        k = op["op"]
        if k == "add":
            arrs = []
            dts = add_dtypes(op, len(op["data"]))
            for li, i in enumerate(op["data"]):
                sh = layer_shape(self.start, li)
                self.reg[i] = (dts[li], sh)
                arrs.append(np.full(sh, i, dtype=dts[li]))
            self.ncal = max(self.ncal, op["cal"] + 1)
            self.laser.add(op["name"], arrs if self.srr else arrs[0], make_cal(op["cal"]))
        elif k == "remove":
            self.laser.remove(op["names"][0] if op.get("as_str") else list(op["names"]))
        elif k == "rename":
            self.laser.rename({o: n for o, n in op["map"]})
        elif k == "get":
            self.laser.get(op["target"], calibrate=op["calibrate"], **({"layer": op["layer"]} if self.srr else {}))
        elif k == "caller_edit":
            self.caller_edit()
        else:
            raise InternalError(f"bad op {op}")

    def caller_edit(self):
        """the caller goes on using (and changing) what it passed to the constructor"""
        from pewlib import Calibration

        dicts = [self.given]
        cfgs = [self.config]
        if self.saved is not None:  # the object that was saved keeps living on the caller's side
            dicts.append(self.saved.calibration)
            cfgs.append(self.saved.config)
        for g in dicts:
            if g is None:
                continue
            for c in list(g.values()):
                c.gradient = c.gradient * 3.0 + 1.0
                c.intercept = 5.0
                c.unit = "leak"
                if c._points.size:
                    c._points[...] = -1.0
            first = next(iter(g), None)
            if first is not None:
                del g[first]
            g["Zz"] = Calibration(gradient=7.0)
        for cfg in cfgs:
            if cfg is None:
                continue
            cfg.spotsize, cfg.speed, cfg.scantime = 999.0, 1.0, 2.0
            if self.srr:
                cfg.warmup = 4.0
                cfg.subpixel_offsets = [[0, 3], [1, 3], [2, 3]]

    # ------------------------------------------------------------------ observation
    def decode_data(self, arr):
        if arr.size == 0:
            return "empty"
        v = arr.flat[0]
        if not bool((arr == v).all()):
            return "mixed"
        fv = float(v)
        i = int(fv) if fv.is_integer() else None
        ent = self.reg.get(i)
        if ent is None:
            return f"unknown:{fv!r}"
        dtype, shape = ent
        if arr.dtype.str != np.dtype(dtype).str:
            return f"{i}:dtype:{arr.dtype.str}"
        if list(arr.shape) != list(shape):
            return f"{i}:shape:{list(arr.shape)}"
        if np.ascontiguousarray(arr).tobytes() != np.full(shape, i, dtype=dtype).tobytes():
            return f"{i}:bits"
        return i

    def state(self):
        las = self.laser
        elements = [str(n) for n in (las.elements or ())]
        layers = self.layers()
        data = {}
        for n in elements:
            data[n] = [self.decode_data(l[n]) if n in (l.dtype.names or ()) else "missing" for l in layers]
        return {
            "elements": sorted(elements),
            "n_elements": len(elements),
            "layer_names": [sorted(str(n) for n in (l.dtype.names or ())) for l in layers],
            "cal": {str(k): decode_cal(v, self.ncal) for k, v in las.calibration.items()},
            "n_cal": len(las.calibration),
            "shape": [int(x) for x in las.shape],
            "cfg": decode_cfg(las.config, self.srr),
            "offs": decode_offs(las.config) if self.srr else None,
            "data": data,
        }


def decode_vals(arr, drop_fill=False):
    out = []
    if arr.size and not drop_fill and bool((arr == arr.flat[0]).all()):
        vals = [arr.flat[0]]
    else:
        vals = np.unique(arr)
    for v in vals:
        fv = float(v)
        if drop_fill and (fv == 0.0 or fv != fv):
            continue
        if fv != fv or math.isinf(fv):
            out.append(["bad", repr(fv)])
            continue
        num, den = fv.as_integer_ratio()  # exact; den is a power of two
        out.append([num, den.bit_length() - 1])
    return sorted(out)


def decode_result(res, target, drop_fill=False):
    if target is None:
        names = res.dtype.names
        if names is None:
            return {"not-structured": str(res.dtype)}
        return {str(n): decode_vals(res[n], drop_fill) for n in names}
    if res.dtype.names is not None:
        return {"structured": [str(n) for n in res.dtype.names]}
    return {target: decode_vals(res, drop_fill)}


def read_plan(srr, nlayers, elements, cfg, light=False):
    """(label, model read indices, kwargs, drop_fill, sized): every get() variant that is observed.
    `light` (used at the leaves of the exhaustive trees only): all-element raw and calibrated reads
    and the calibrated read of every single element, per layer, no extent, no reconstruction."""
    plan, mreads = [], []

    def midx(layer, target, cal):
        mreads.append({"layer": layer, "target": target, "calibrate": cal})
        return len(mreads) - 1

    for layer in range(nlayers):
        for target in [None] + list(elements):
            for cal in (False, True):
                if light and target is not None and not cal:
                    continue
                i = midx(layer, target, cal)
                for ext in ((False, True) if (target is None or target == elements[0]) and not light else (False,)):
                    label = f"L{layer}|{target}|{'cal' if cal else 'raw'}|{'ext' if ext else 'full'}"
                    plan.append((label, [i], {"layer": layer, "target": target, "cal": cal, "ext": ext}, False, not ext))
    if srr and not light:
        # `flat=True` changes nothing for a single-layer read (the result is 2-d already): the stored values again
        for layer in range(nlayers):
            plan.append((f"L{layer}|None|raw|full|flat", [midx(layer, None, False)],
                         {"layer": layer, "target": None, "cal": False, "ext": False, "flat": True}, False, True))
    if srr and cfg == 1 and not light:
        for target in [None] + list(elements):
            for cal in (False, True):
                idx = [midx(layer, target, cal) for layer in range(nlayers)]
                label = f"SRR|{target}|{'cal' if cal else 'raw'}|full"
                plan.append((label, idx, {"layer": None, "target": target, "cal": cal, "ext": False}, True, False))
        # the flattened reconstruction (mean over the layer axis): its values are C09's subject; here only that it
        # returns a 2-d array and (like every read) leaves what is stored alone
        for target in [None] + list(elements[:1]):
            for cal in (False, True):
                label = f"SRR|{target}|{'cal' if cal else 'raw'}|flat"
                plan.append((label, [], {"layer": None, "target": target, "cal": cal, "ext": False, "flat": True,
                                         "returned_only": True}, True, False))
    return plan, mreads


def do_reads(world, plan):
    las, srr, start = world.laser, world.srr, world.start
    pix = pixel(start["cfg"])
    reads, sizes = {}, {}
    for label, _, kw, drop_fill, sized in plan:
        args = {"calibrate": kw["cal"]}
        if srr:
            args["layer"] = kw["layer"]
        elif kw["ext"] and not kw["cal"]:
            args["calibrate"] = None   # `Laser.get(calibrate: bool | None = False)`: None is "off"
        if kw["ext"]:
            sh = layer_shape(start, kw["layer"])
            if srr and kw["layer"] % 2 == 1:
                sh = sh[::-1]
            args["extent"] = (0.0, pix * max(1, sh[1] - 1), 0.0, pix * max(1, sh[0] - 1))
        if kw.get("flat"):
            args["flat"] = True
        try:
            res = las.get(kw["target"], **args)
            reads[label] = {"returned-ndim": int(res.ndim)} if kw.get("returned_only") else decode_result(res, kw["target"], drop_fill)
            if sized:
                sizes[label] = int(res.size)
        except Exception as e:  # generated reads never raise
            reads[label] = {"raises": type(e).__name__, "msg": str(e)[:120]}
    return reads, sizes


def observe_impl(world, elements, light=False):
    """state, every read variant, state again"""
    st = world.state()
    nl = len(world.start["ids"])
    plan, mreads = read_plan(world.srr, nl, elements, world.start["cfg"], light)
    reads, sizes = do_reads(world, plan)
    return {"state": st, "reads": reads, "sizes": sizes, "state_after_reads": world.state()}, plan, mreads


def readout(rs):
    """driver read result -> {name: [[dataId, calId]]} (None = the model says the read raises)"""
    if rs is None:
        return None
    out = {}
    for n, d, c in rs:
        out.setdefault(n, []).append([d, c or 0])
    return out


def merge_reads(parts):
    if any(p is None for p in parts):
        return {"raises": "model"}
    if len(parts) == 1:
        return parts[0]
    out = {}
    for p in parts:
        for n, v in p.items():
            out.setdefault(n, [])
            out[n] = sorted({tuple(x) for x in out[n]} | {tuple(x) for x in v})
            out[n] = [list(x) for x in out[n]]
    return out


def canon_side(o, plan, which, offs="auto"):
    """canonical observation of the driver's mechanism (`model`) or specification (`spec`) reply.
    offs: content token of the config's offsets array (SRR; the content level has no such thing: it is the
    constructor's value 0 there), None for Laser"""
    if o is None:
        return {"raises": which}
    nl = len(o["sizes"])
    if offs == "auto":
        offs = 0 if len(o["shape"]) == 3 and nl > 1 else None
    if which == "model":
        layers = [dict((n, i) for n, i in l) for l in o["layers"]]
        elements = list(o["elements"])
        data = {n: [l.get(n, "missing") for l in layers] for n in elements}
        cal = {n: c for n, c in o["cal"]}
        st = {"elements": sorted(elements), "n_elements": len(elements),
              "layer_names": [sorted(l) for l in layers],
              "cal": cal, "n_cal": len(o["cal"]), "shape": o["shape"], "cfg": o["cfg"],
              "offs": offs, "data": data}
    else:
        elements = list(o["elements"])
        st = {"elements": sorted(elements), "n_elements": len(elements),
              "layer_names": [sorted(elements)] * nl,
              "cal": {n: c for n, _, c in o["map"]}, "n_cal": len(o["map"]), "shape": o["shape"], "cfg": o["cfg"],
              "offs": offs, "data": {n: ds for n, ds, _ in o["map"]}}
    reads, sizes = {}, {}
    for label, idx, kw, _, sized in plan:
        reads[label] = {"returned-ndim": 2} if kw.get("returned_only") else merge_reads([readout(o["reads"][i]) for i in idx])
        if sized:
            sizes[label] = o["sizes"][kw["layer"]]
    return {"state": st, "reads": reads, "sizes": sizes, "state_after_reads": st}


def driver_req(kind, start, ops, mreads, last_only):
    layers = [{"shape": layer_shape(start, li), "fields": [[n, i] for n, i in zip(start["names"], ids)]}
              for li, ids in enumerate(start["ids"])]
    dops = []
    for op in ops:
        k = op["op"]
        if k == "add":
            dops.append({"op": "add", "name": op["name"], "cal": op["cal"],
                         "data": [[layer_shape(start, li), i] for li, i in enumerate(op["data"])]})
        elif k == "remove":
            dops.append({"op": "remove", "names": op["names"]})
        elif k == "rename":
            dops.append({"op": "rename", "map": op["map"]})
        elif k == "get":
            dops.append({"op": "get", "layer": op["layer"], "target": op["target"], "calibrate": op["calibrate"]})
        else:
            dops.append({"op": "caller_edit"})
    return dict(srr=kind.startswith("srr"), layers=layers, given=start["given"], cfg=start["cfg"],
                roundtrip=kind.endswith("_npz"), ops=dops, reads=mreads, last_only=last_only)


def default_start(kind, names=("A", "B"), deco=None):
    """`deco` "mixed": the layers of a freshly constructed SRR laser hold every other element in the other precision
    (layer 0 of the first element 64-bit, of the second 32-bit, ...); "wide": the 64-bit arrays of layer 0 hold values
    beyond float32 precision"""
    deco = deco or {}
    srr = kind.startswith("srr")
    nl = 2 if srr else 1
    ids = [[1 + 2 * (li * len(names) + j) for j in range(len(names))] for li in range(nl)]
    st = {"names": list(names), "dtypes": [DTYPES[j % 2] for j in range(len(names))],
          "shape": [3, 3] if srr else [2, 3], "ids": ids,
          "given": [[names[0], 1]] if names else None, "cfg": 1}
    if deco.get("mixed") and kind == "srr":
        st["layer_dtypes"] = [[DTYPES[(j + li) % 2] for j in range(len(names))] for li in range(nl)]
    if deco.get("wide"):
        st["ids"] = [[widen(i, dt, li == 0) for i, dt in zip(l, start_layer_dtypes(st, li))] for li, l in enumerate(ids)]
    return st


# ----------------------------------------------------------------------------- object-level cases ("obj" mode)
LASER_OPS = ("add", "remove", "rename", "get")
FOREIGN_EDITS = ("edit_cal", "edit_dict", "edit_cfg", "set_offsets")


def make_cal_obj(cid):
    from pewlib import Calibration

    return Calibration() if cid == 0 else make_cal(cid)


def mutate_cal(c, cid):
    """the holder of Calibration object `c` turns it into content `cid`: attributes are assigned, the points array
    is written in place when it has the shape of the new one"""
    new = make_cal_obj(cid)
    c.gradient, c.intercept, c.unit = new.gradient, new.intercept, new.unit
    if c._points.shape == new._points.shape:
        c._points[...] = new._points
    else:
        c._points = new._points.copy()


def same_cal(a, b):
    """one object, or two objects sharing an array"""
    return a is b or bool(np.shares_memory(a._points, b._points)) or bool(np.shares_memory(a._weights, b._weights))


def columns(a):
    """the columns of an array: its fields, or itself"""
    if a.dtype.names is None:
        return [a]
    return [a[n] for n in a.dtype.names]


class ObjWorld:
    """the real laser and everything the caller created: arrays, Calibration objects, dicts, configs - in creation order"""

    def __init__(self, kind, start, tmp):
        from pewlib import Laser
        from pewlib.srr import SRRLaser
        from pewlib.io import npz

        self.kind, self.start = kind, start
        self.srr = kind.startswith("srr")
        self.reg = {}
        names = start["names"]
        self.arrs = []
        for li, ids in enumerate(start["ids"]):
            sh = layer_shape(start, li)
            dts = start_layer_dtypes(start, li)
            arr = np.empty(sh, dtype=[(n, d) for n, d in zip(names, dts)])
            for n, d, i in zip(names, dts, ids):
                arr[n] = i
                self.reg[i] = (d, sh)
            self.arrs.append(arr)
        layers = list(self.arrs)
        self.cals = [make_cal_obj(c) for c in start["cal_objs"]]
        self.ncal = max(list(start["cal_objs"]) + [0]) + 1
        self.dicts, self.cfgs = [], []
        given = None
        if start["given"] is not None:
            if len({n for n, _ in start["given"]}) != len(start["given"]):
                raise InternalError("a Python dict cannot be given the same key twice")
            given = {n: self.cals[j] for n, j in start["given"]}
            self.dicts.append(given)
        config = make_config(self.srr, start["cfg"])
        if config is not None:
            self.cfgs.append(config)
        if self.srr:
            laser = SRRLaser(layers, calibration=given, config=config)
        else:
            laser = Laser(layers[0], calibration=given, config=config)
        if kind.endswith("_npz"):
            path = tmp / "laser.npz"
            npz.save(path, laser)
            # the saved laser lives on at the caller's side
            self.cals += list(laser.calibration.values())
            self.dicts.append(laser.calibration)
            self.cfgs.append(laser.config)
            laser = npz.load(path)
        self.laser = laser
        self.offs_written = False

    def layers(self):
        return list(self.laser.data) if self.srr else [self.laser.data]

    decode_data = World.decode_data
    state = World.state

    def apply(self, op):
        """-> name of the exception class the call raised, or None"""
        k = op["op"]
        try:
            if k == "add":
                if not self.srr and len(op["data"]) != 1:
                    raise InternalError("Laser.add takes one array")
                shapes = op.get("shapes") or [layer_shape(self.start, li) for li in range(len(op["data"]))]
                arrs = []
                dts = add_dtypes(op, len(op["data"]))
                for li, i in enumerate(op["data"]):
                    self.reg[i] = (dts[li], layer_shape(self.start, li))
                    a = np.full(shapes[li], i, dtype=dts[li])
                    arrs.append(a)
                    self.arrs.append(a)
                c = op["cal"]
                if c is None:
                    cal = None
                elif "obj" in c:
                    cal = self.cals[c["obj"]]
                else:
                    cal = make_cal_obj(c["new"])
                    self.cals.append(cal)
                    self.ncal = max(self.ncal, c["new"] + 1)
                self.laser.add(op["name"], arrs if self.srr else arrs[0], cal)
            elif k == "remove":
                self.laser.remove(op["names"][0] if op.get("as_str") and len(op["names"]) == 1 else list(op["names"]))
            elif k == "rename":
                self.laser.rename({o: n for o, n in op["map"]})
            elif k == "get":
                self.laser.get(op["target"], calibrate=op["calibrate"], **({"layer": op["layer"]} if self.srr else {}))
            elif k == "edit_cal":
                self.ncal = max(self.ncal, op["content"] + 1)
                mutate_cal(self.cals[op["obj"]], op["content"])
            elif k == "edit_dict":
                g = self.dicts[op["obj"]]
                g.clear()
                g.update({n: self.cals[j] for n, j in op["entries"]})
            elif k == "edit_cfg":
                cfg, new = self.cfgs[op["obj"]], make_config(self.srr, op["content"])
                cfg.spotsize, cfg.speed, cfg.scantime = new.spotsize, new.speed, new.scantime
            elif k == "set_offsets":
                self.cfgs[op["obj"]].subpixel_offsets = [[0, 3], [1, 3], [2, 3]]
            elif k == "write_offsets":
                self.cfgs[op["obj"]]._subpixel_offsets[...] = OFFS[1]
                self.offs_written = True
            elif k == "write_arr":
                col = columns(self.arrs[op["arr"]])[op["col"]]
                self.reg.setdefault(op["content"], (col.dtype.str, list(col.shape)))
                col[...] = op["content"]
            elif k == "write_result":
                res = self.laser.get(op["target"], calibrate=op["calibrate"], **({"layer": op["layer"]} if self.srr else {}))
                for col in columns(res):
                    self.reg.setdefault(op["content"], (col.dtype.str, list(col.shape)))
                    col[...] = op["content"]
            else:
                raise InternalError(f"bad op {op}")
        except InternalError:
            raise
        except Exception as e:
            return type(e).__name__
        return None

    def alias(self):
        las = self.laser
        out = {
            "cal_owner": {str(n): [j for j, c in enumerate(self.cals) if same_cal(v, c)] for n, v in las.calibration.items()},
            "cal_groups": sorted(sorted(str(m) for m, u in las.calibration.items() if u is v) for v in
                                 {id(v): v for v in las.calibration.values()}.values()),
            "dict_is": [j for j, d in enumerate(self.dicts) if las.calibration is d],
            "cfg_is": [j for j, c in enumerate(self.cfgs) if las.config is c],
            "offs_shared": [j for j, c in enumerate(self.cfgs) if self.srr and
                            bool(np.shares_memory(las.config._subpixel_offsets, c._subpixel_offsets))],
            "data_shares": {},
        }
        caller_cols = [(k, ci, col) for k, a in enumerate(self.arrs) for ci, col in enumerate(columns(a))]
        for li, l in enumerate(self.layers()):
            for n in (l.dtype.names or ()):
                out["data_shares"][f"L{li}|{n}"] = [[k, ci] for k, ci, col in caller_cols if bool(np.shares_memory(l[n], col))]
        return out

    def read_shares(self, res, target):
        """which stored columns the returned array shares memory with, per column of the result"""
        if isinstance(res, dict):
            return res
        cols = {target: res} if target is not None else {str(n): res[n] for n in (res.dtype.names or ())}
        out = []
        for li, l in enumerate(self.layers()):
            for n in (l.dtype.names or ()):
                for rn, col in cols.items():
                    if bool(np.shares_memory(col, l[n])):
                        out.append([rn, f"L{li}|{n}"])
        return sorted(out)


def model_alias(rep):
    """the same relations, predicted from the identities of the object-level model"""
    cal_ids = {n: i for n, i in rep["cal_ids"]}
    ids = sorted(set(cal_ids.values()))
    out = {
        "cal_owner": {n: [j for j, c in enumerate(rep["caller_cals"]) if c == i] for n, i in cal_ids.items()},
        "cal_groups": sorted(sorted(n for n, i in cal_ids.items() if i == x) for x in ids),
        "dict_is": [j for j, d in enumerate(rep["caller_dicts"]) if d == rep["dict_id"]],
        "cfg_is": [j for j, c in enumerate(rep["caller_cfgs"]) if c == rep["cfg_id"]],
        "offs_shared": [j for j, o in enumerate(rep["caller_cfg_offs"]) if o is not None and o == rep["cfg_offs"]],
        "data_shares": {},
    }
    for li, l in enumerate(rep["layer_cells"]):
        for n, cell in l:
            out["data_shares"][f"L{li}|{n}"] = [[k, ci] for k, cells in enumerate(rep["caller_arrs"])
                                                for ci, c in enumerate(cells) if c == cell]
    return out


def alias_le(im, mo):
    """the implementation shares no more than the model: every identity / common-memory relation it shows is one the
    model predicts (it may copy more than the model says, never less)"""
    sub = lambda a, b: all(x in b for x in a)
    if set(im["cal_owner"]) != set(mo["cal_owner"]) or set(im["data_shares"]) != set(mo["data_shares"]):
        return False
    if not all(sub(im["cal_owner"][n], mo["cal_owner"][n]) for n in im["cal_owner"]):
        return False
    if not all(sub(im["data_shares"][k], mo["data_shares"][k]) for k in im["data_shares"]):
        return False
    if not all(sub(im[k], mo[k]) for k in ("dict_is", "cfg_is", "offs_shared")):
        return False
    # names sharing one Calibration object in the implementation share one in the model
    return all(any(set(g) <= set(h) for h in mo["cal_groups"]) for g in im["cal_groups"])


def shares_le(im, mo):
    if set(im) != set(mo):
        return False
    for label in im:
        a, b = im[label], mo[label]
        if isinstance(a, dict) or isinstance(b, dict):
            if a != b:
                return False
        elif not all(x in b for x in a):
            return False
    return True


def model_read_shares(rep, r):
    if "raises" in r:
        return {"raises": r["raises"]}
    out = []
    for li, l in enumerate(rep["layer_cells"]):
        for n, cell in l:
            for rn, rc in r["cells"]:
                if rc == cell:
                    out.append([rn, f"L{li}|{n}"])
    return sorted(out)


def obj_req(kind, start, ops, mreads):
    layers = [{"shape": layer_shape(start, li), "fields": [[n, i] for n, i in zip(start["names"], ids)]}
              for li, ids in enumerate(start["ids"])]
    dops = []
    for op in ops:
        if op["op"] == "add":
            shapes = op.get("shapes") or [layer_shape(start, li) for li in range(len(op["data"]))]
            dops.append({"op": "add", "name": op["name"], "cal": op["cal"], "data": [[sh, i] for sh, i in zip(shapes, op["data"])]})
        elif op["op"] == "remove":
            dops.append({"op": "remove", "names": op["names"]})
        else:
            dops.append(op)
    return dict(srr=kind.startswith("srr"), layers=layers, cal_objs=start["cal_objs"], given=start["given"],
                cfg=start["cfg"] if start["cfg"] else None, offs=0, roundtrip=kind.endswith("_npz"), ops=dops, reads=mreads)


def obj_do_reads(world, plan):
    """every get() variant of the plan: decoded values, sizes, and which stored columns the result shares memory with"""
    las, srr, start = world.laser, world.srr, world.start
    pix = pixel(start["cfg"])
    reads, sizes, shares = {}, {}, {}
    for label, _, kw, drop_fill, sized in plan:
        args = {"calibrate": kw["cal"]}
        if srr:
            args["layer"] = kw["layer"]
        elif kw["ext"] and not kw["cal"]:
            args["calibrate"] = None   # `Laser.get(calibrate: bool | None = False)`: None is "off"
        if kw["ext"]:
            sh = layer_shape(start, kw["layer"])
            if srr and kw["layer"] % 2 == 1:
                sh = sh[::-1]
            args["extent"] = (0.0, pix * max(1, sh[1] - 1), 0.0, pix * max(1, sh[0] - 1))
        if kw.get("flat"):
            args["flat"] = True
        try:
            res = las.get(kw["target"], **args)
            reads[label] = {"returned-ndim": int(res.ndim)} if kw.get("returned_only") else decode_result(res, kw["target"], drop_fill)
            if sized:
                sizes[label] = int(res.size)
            if kw["layer"] is not None:
                shares[label] = world.read_shares(res, kw["target"])
        except InternalError:
            raise
        except Exception as e:  # whatever it is: a verdict (the model names the class it expects), never an internal error
            reads[label] = {"raises": type(e).__name__}
            if kw["layer"] is not None:
                shares[label] = {"raises": type(e).__name__}
    return reads, sizes, shares


def pick_dtype(rng, native_only=False):
    return rng.choice(DTYPES) if native_only or rng.random() < 0.75 else rng.choice(SWAPPED)


def gen_start_dtypes(rng, kind, n0, nl):
    """-> (dtypes, layer_dtypes or None).  A file holds one stacked native-order array per SRR laser, so the layers of
    an srr_npz start share their native dtypes; the layers of a freshly constructed SRRLaser are the caller's and differ
    in half of the cases (in precision, byte order or both)"""
    dts = [pick_dtype(rng, kind == "srr_npz") for _ in range(n0)]
    if kind == "srr" and rng.random() < 0.5:
        ld = [[d if rng.random() < 0.4 else pick_dtype(rng) for d in dts] for _ in range(nl)]
        if any(mixed_layers([ld[li][j] for li in range(nl)]) for j in range(n0)):
            return ld[0], ld
    return dts, None


def gen_add_dtypes(rng, srr, nl):
    """the arrays handed to one add(): one dtype for all layers, or (SRR, half of the adds) one per layer"""
    if srr and rng.random() < 0.5:
        return [pick_dtype(rng) for _ in range(nl)]
    return [pick_dtype(rng)] * nl


def gen_widen(rng, srr, cfg, ids, dts):
    """ids of the arrays of one element (one per layer): 64-bit arrays hold a value beyond float32 precision in 40 % of
    the cases - not in the later layers of an element whose layer 0 is 32-bit when the reconstruction is read (`guard`)"""
    out = []
    for li, (i, dt) in enumerate(zip(ids, dts)):
        ok = not (srr and cfg == 1 and li > 0 and not is_f8(dts[0]))
        out.append(widen(i, dt, ok and rng.random() < 0.4))
    return out


def add_op_dtypes(op, dts):
    """store the dtypes of an add in the case: `dtype` alone when all layers share it"""
    op["dtype"] = dts[0]
    if mixed_layers(dts):
        op["dtypes"] = list(dts)
    return op


def widen_start(rng, srr, start):
    nl, n0 = len(start["ids"]), len(start["names"])
    for j in range(n0):
        col = gen_widen(rng, srr, start["cfg"], [start["ids"][li][j] for li in range(nl)],
                        [start_layer_dtypes(start, li)[j] for li in range(nl)])
        for li in range(nl):
            start["ids"][li][j] = col[li]


# ----------------------------------------------------------------------------- several lasers ("multi" mode)
# A case: the caller's objects - structured arrays (layers), Python lists of them, Calibration objects, calibration
# dicts, config objects - and a history of steps:
#   {"op": "construct", "srr": bool, "list": k | "arr": a, "given": dict index | None, "cfg": config index | None}
#   {"op": "load", "laser": i}                      npz.save(lasers[i]) + npz.load: a further laser, the saved one lives on
#   {"op": "call", "laser": i, "call": {add / remove / rename / get as in the other modes}}
#   {"op": "edit_cal" | "edit_dict" | "edit_cfg" | "set_offsets", "obj": j, ...}   the caller edits what it handed over
#   {"op": "set_list", "list": k, "entries": [array indices]}                    the caller edits its list of layers
# Several lasers may be built from the SAME list / array / dict / config object.  After every step EVERY laser is
# judged against its own dictionary (Lean: `MWorld`, `mstep`, one `Spec` per laser), and the caller's lists against
# what the caller put there.
MULTI_EDITS = ("edit_cal", "edit_dict", "edit_cfg", "set_offsets", "set_list")


class MultiAbs:
    """abstract run of a multi-laser case: which lasers exist, their element names, dtypes and layer shapes.
    Raises OutOfScope where the case leaves what the comparison is sound for, InternalError where it is malformed."""

    def __init__(self, case):
        self.arrays = case["arrays"]
        for a in self.arrays:
            if not (len(a["names"]) == len(a["dtypes"]) == len(a["ids"])) or len(set(a["names"])) != len(a["names"]):
                raise InternalError("array: one dtype and one id per (distinct) field")
        self.lists = [list(l) for l in case["lists"]]
        self.cal_objs = list(case["cal_objs"])
        self.n_con_cals = len(self.cal_objs)
        self.dicts = [[list(e) for e in d] for d in case["dicts"]]
        self.cfgs = [dict(c) for c in case["cfgs"]]
        if any(c["scal"] < 1 for c in self.cfgs):
            raise OutOfScope("content 0 stands for `no config given`")
        self.lasers = []          # {"srr", "shapes", "names", "dts": {name: [dtype per layer]}, "args": (...)}
        self.reg = {}             # data id -> (dtype, shape)
        self.cal_pool = list(self.cal_objs)   # contents of every Calibration object the caller holds, by index
        for a in self.arrays:
            for d, i in zip(a["dtypes"], a["ids"]):
                self.check_id(i, d)
                self.reg[i] = (d, list(a["shape"]))

    @staticmethod
    def check_id(i, dt):
        t = np.dtype(dt)
        if i >= WIDE or t.kind != "f" or float(t.type(i)) != float(i) or int(t.type(i)) != i:
            raise OutOfScope(f"id {i} is not a (small) value of dtype {dt}")

    def idx(self, seq, i, what):
        if not (isinstance(i, int) and 0 <= i < len(seq)):
            raise InternalError(f"{what} index {i} out of range")
        return seq[i]

    def apply(self, step):
        k = step["op"]
        if k == "construct":
            srr = bool(step["srr"])
            if srr:
                ents = [self.idx(self.arrays, a, "array") for a in self.idx(self.lists, step["list"], "list")]
                if len(ents) < 2:
                    raise OutOfScope("SRRLaser of fewer than two layers")
            else:
                ents = [self.idx(self.arrays, step["arr"], "array")]
            names = list(ents[0]["names"])
            if any(list(e["names"]) != names for e in ents):
                raise OutOfScope("layers with different fields")
            shapes = [list(e["shape"]) for e in ents]
            if any(shapes[li] != shapes[li % 2] for li in range(len(shapes))):
                raise OutOfScope("layer shapes do not alternate")
            if srr and (shapes[0][1] < shapes[1][0] or shapes[1][1] < shapes[0][0]):
                raise OutOfScope("layers too short to be crossed (the reconstruction read raises)")
            if step["given"] is not None:
                g = self.idx(self.dicts, step["given"], "dict")
                if len({n for n, _ in g}) != len(g):
                    raise InternalError("a Python dict cannot hold a key twice")
                if any(n not in names for n, _ in g):
                    raise OutOfScope("calibration key that names no element")
            if step["cfg"] is not None and bool(self.idx(self.cfgs, step["cfg"], "config")["srr"]) != srr:
                raise OutOfScope("config of the other kind")
            self.lasers.append({"srr": srr, "shapes": shapes, "names": names,
                                "dts": {n: [e["dtypes"][j] for e in ents] for j, n in enumerate(names)},
                                "args": ("list", step["list"]) if srr else ("arr", step["arr"]),
                                "given": step["given"], "cfg": step["cfg"]})
        elif k == "load":
            las = self.idx(self.lasers, step["laser"], "laser")
            if not las["names"]:
                raise OutOfScope("npz of a laser without elements")
            if step.get("reuse_file"):
                # the file written by the last save of this laser is loaded once more: it holds what the laser
                # holds now only if the laser was not edited since
                if las.get("saved") != las.get("version", 0):
                    raise OutOfScope("the file does not hold what the laser holds now")
            las["saved"] = las.get("version", 0)
            if las["srr"]:
                # a file holds ONE stacked native-order array per SRR laser
                if any(sh != las["shapes"][0] for sh in las["shapes"]):
                    raise OutOfScope("npz of an SRR laser with layers of different shape")
                for n in las["names"]:
                    if mixed_layers(las["dts"][n]) or any(swapped(d) for d in las["dts"][n]):
                        raise OutOfScope("npz of an SRR laser with layers of different / byte-swapped field dtypes")
            self.lasers.append({"srr": las["srr"], "shapes": [list(x) for x in las["shapes"]], "names": list(las["names"]),
                                "dts": {n: list(v) for n, v in las["dts"].items()}, "args": ("load", step["laser"]),
                                "given": None, "cfg": None})
        elif k == "call":
            las = self.idx(self.lasers, step["laser"], "laser")
            op = step["call"]
            nl = len(las["shapes"])
            if op["op"] == "add":
                dts = add_dtypes(op, len(op["data"]))
                if len(op["data"]) != nl or len(dts) != nl or op["name"] in las["names"]:
                    raise OutOfScope("add that does not succeed")
                for li, i in enumerate(op["data"]):
                    self.check_id(i, dts[li])
                    if i in self.reg:
                        raise InternalError(f"data id {i} used twice")
                    self.reg[i] = (dts[li], list(las["shapes"][li]))
                c = op["cal"]
                if c is not None and "obj" in c:
                    self.idx(self.cal_pool, c["obj"], "calibration")
                    if c["obj"] < self.n_con_cals:
                        raise OutOfScope("a construction-time Calibration handed to add()")
                elif c is not None:
                    self.cal_pool.append(c["new"])
                las["names"] = las["names"] + [op["name"]]
                las["dts"][op["name"]] = dts
                las["version"] = las.get("version", 0) + 1
            elif op["op"] in ("remove", "rename", "get"):
                if op["op"] == "get" and not (0 <= op["layer"] < nl):
                    raise OutOfScope("read of an absent layer")
                nxt = abstract_apply(las["names"], op)
                if nxt is None:
                    raise OutOfScope("call that does not succeed")
                if op["op"] == "rename":
                    m = dict(map(tuple, op["map"]))
                    las["dts"] = {m.get(n, n): v for n, v in las["dts"].items() if n in las["names"]}
                elif op["op"] == "remove":
                    las["dts"] = {n: v for n, v in las["dts"].items() if n in nxt}
                las["names"] = nxt
                if op["op"] != "get":
                    las["version"] = las.get("version", 0) + 1
            else:
                raise InternalError(f"bad call {op}")
        elif k == "edit_cal":
            if not (0 <= step["obj"] < self.n_con_cals):
                raise OutOfScope("edit of a Calibration that was not created for a constructor")
            self.cal_pool[step["obj"]] = step["content"]
        elif k == "edit_dict":
            self.idx(self.dicts, step["obj"], "dict")
            if len({n for n, _ in step["entries"]}) != len(step["entries"]):
                raise InternalError("a Python dict cannot hold a key twice")
            for _, j in step["entries"]:
                if not (0 <= j < self.n_con_cals):
                    raise OutOfScope("dict entry that is not a construction-time Calibration")
            self.dicts[step["obj"]] = [list(e) for e in step["entries"]]
        elif k == "edit_cfg":
            if step["content"] < 1:
                raise OutOfScope("content 0 stands for `no config given`")
            self.idx(self.cfgs, step["obj"], "config")["scal"] = step["content"]
        elif k == "set_offsets":
            if not self.idx(self.cfgs, step["obj"], "config")["srr"]:
                raise OutOfScope("offsets of a plain Config")
        elif k == "set_list":
            self.idx(self.lists, step["list"], "list")
            for a in step["entries"]:
                self.idx(self.arrays, a, "array")
            self.lists[step["list"]] = list(step["entries"])
        else:
            raise InternalError(f"bad step {step}")

    def snapshot(self):
        return [{"srr": l["srr"], "shapes": [list(x) for x in l["shapes"]], "names": list(l["names"])} for l in self.lasers]


def multi_track(case):
    """the abstract state (per laser: kind, layer shapes) before every step and after the last; the data registry"""
    ab = MultiAbs(case)
    snaps = [ab.snapshot()]
    for st in case["steps"]:
        ab.apply(st)
        snaps.append(ab.snapshot())
    return snaps, ab


def multi_req(case, snaps, upto, reads):
    """the driver's request for the first `upto` steps; `reads`: one list of model reads per laser (final state)"""
    steps = []
    for i, st in enumerate(case["steps"][:upto]):
        if st["op"] == "call" and st["call"]["op"] == "add":
            op = st["call"]
            shapes = snaps[i][st["laser"]]["shapes"]
            steps.append({"op": "call", "laser": st["laser"],
                          "call": {"op": "add", "name": op["name"], "cal": op["cal"],
                                   "data": [[shapes[li], d] for li, d in enumerate(op["data"])]}})
        elif st["op"] == "call" and st["call"]["op"] == "remove":
            steps.append({"op": "call", "laser": st["laser"], "call": {"op": "remove", "names": st["call"]["names"]}})
        elif st["op"] == "construct":
            d = {"op": "construct", "srr": st["srr"], "given": st["given"], "cfg": st["cfg"]}
            d["list" if st["srr"] else "arr"] = st["list"] if st["srr"] else st["arr"]
            steps.append(d)
        else:
            steps.append(st)
    return dict(arrays=[{"shape": a["shape"], "fields": [[n, i] for n, i in zip(a["names"], a["ids"])]} for a in case["arrays"]],
                lists=case["lists"], cal_objs=case["cal_objs"], dicts=case["dicts"], cfgs=case["cfgs"], steps=steps,
                reads=reads)


class LaserView:
    """one laser of a MultiWorld, with what `World.state` and `do_reads` need"""
    decode_data = World.decode_data
    state = World.state

    def __init__(self, laser, srr, reg, ncal, shapes, cfg):
        self.laser, self.srr, self.reg, self.ncal = laser, srr, reg, ncal
        self.start = {"shape": shapes[0], "shape_odd": shapes[1] if len(shapes) > 1 else shapes[0], "cfg": cfg}

    def layers(self):
        return list(self.laser.data) if self.srr else [self.laser.data]


class MultiWorld:
    """the real lasers and everything the caller created, in creation order"""

    def __init__(self, case, reg, tmp):
        self.reg, self.tmp = reg, tmp
        self.structured = []
        for a in case["arrays"]:
            arr = np.empty(a["shape"], dtype=[(n, d) for n, d in zip(a["names"], a["dtypes"])])
            for n, i in zip(a["names"], a["ids"]):
                arr[n] = i
            self.structured.append(arr)
        self.arrs = list(self.structured)       # every array the caller made (then those handed to add)
        self.lists = [[self.structured[j] for j in l] for l in case["lists"]]
        self.cals = [make_cal_obj(c) for c in case["cal_objs"]]
        self.ncal = max(list(case["cal_objs"]) + [0]) + 1
        self.dicts = [{n: self.cals[j] for n, j in d} for d in case["dicts"]]
        self.cfgs = []
        for c in case["cfgs"]:
            self.cfgs.append(make_config(c["srr"], c["scal"]))
        self.lasers, self.srr = [], []
        self.nsaved, self.files = 0, {}

    def apply(self, st):
        """-> name of the exception class the step raised, or None"""
        from pewlib import Laser
        from pewlib.srr import SRRLaser
        from pewlib.io import npz

        k = st["op"]
        try:
            if k == "construct":
                given = None if st["given"] is None else self.dicts[st["given"]]
                config = None if st["cfg"] is None else self.cfgs[st["cfg"]]
                if st["srr"]:
                    las = SRRLaser(self.lists[st["list"]], calibration=given, config=config)
                else:
                    las = Laser(self.structured[st["arr"]], calibration=given, config=config)
                self.lasers.append(las)
                self.srr.append(bool(st["srr"]))
            elif k == "load":
                if st.get("reuse_file"):
                    path = self.files[st["laser"]]
                else:
                    path = self.tmp / f"laser{self.nsaved}.npz"
                    self.nsaved += 1
                    npz.save(path, self.lasers[st["laser"]])
                    self.files[st["laser"]] = path
                self.lasers.append(npz.load(path))
                self.srr.append(self.srr[st["laser"]])
            elif k == "call":
                las, srr, op = self.lasers[st["laser"]], self.srr[st["laser"]], st["call"]
                if op["op"] == "add":
                    dts = add_dtypes(op, len(op["data"]))
                    arrs = []
                    for li, i in enumerate(op["data"]):
                        a = np.full(self.reg[i][1], i, dtype=dts[li])
                        arrs.append(a)
                        self.arrs.append(a)
                    c = op["cal"]
                    if c is None:
                        cal = None
                    elif "obj" in c:
                        cal = self.cals[c["obj"]]
                    else:
                        cal = make_cal_obj(c["new"])
                        self.cals.append(cal)
                        self.ncal = max(self.ncal, c["new"] + 1)
                    las.add(op["name"], arrs if srr else arrs[0], cal)
                elif op["op"] == "remove":
                    las.remove(op["names"][0] if op.get("as_str") and len(op["names"]) == 1 else list(op["names"]))
                elif op["op"] == "rename":
                    las.rename({o: n for o, n in op["map"]})
                else:
                    las.get(op["target"], calibrate=op["calibrate"], **({"layer": op["layer"]} if srr else {}))
            elif k == "edit_cal":
                self.ncal = max(self.ncal, st["content"] + 1)
                mutate_cal(self.cals[st["obj"]], st["content"])
            elif k == "edit_dict":
                g = self.dicts[st["obj"]]
                g.clear()
                g.update({n: self.cals[j] for n, j in st["entries"]})
            elif k == "edit_cfg":
                cfg = self.cfgs[st["obj"]]
                new = make_config(hasattr(cfg, "_subpixel_offsets"), st["content"])
                cfg.spotsize, cfg.speed, cfg.scantime = new.spotsize, new.speed, new.scantime
            elif k == "set_offsets":
                self.cfgs[st["obj"]].subpixel_offsets = [[0, 3], [1, 3], [2, 3]]
            elif k == "set_list":
                self.lists[st["list"]][:] = [self.structured[j] for j in st["entries"]]
            else:
                raise InternalError(f"bad step {st}")
        except InternalError:
            raise
        except Exception as e:
            return type(e).__name__
        return None

    def layers(self, i):
        return list(self.lasers[i].data) if self.srr[i] else [self.lasers[i].data]

    def caller_lists(self):
        """what the caller's list objects hold: index of the caller's array, -1 for anything else"""
        return [[next((j for j, a in enumerate(self.structured) if a is x), -1) for x in l] for l in self.lists]

    def alias(self):
        """every identity / common-memory relation between a laser and the caller's objects, and between two lasers"""
        rel = set()
        offs = lambda c: getattr(c, "_subpixel_offsets", None)
        shares = lambda a, b: a is not None and b is not None and bool(np.shares_memory(a, b))
        caller_cols = [(k, ci, col) for k, a in enumerate(self.arrs) for ci, col in enumerate(columns(a))]
        cols = []
        for i, las in enumerate(self.lasers):
            cols.append([(li, str(n), l[n]) for li, l in enumerate(self.layers(i)) for n in (l.dtype.names or ())])
            for n, v in las.calibration.items():
                rel |= {f"L{i}.cal[{n}]~caller.cal{j}" for j, c in enumerate(self.cals) if same_cal(v, c)}
            rel |= {f"L{i}.dict=caller.dict{j}" for j, d in enumerate(self.dicts) if las.calibration is d}
            rel |= {f"L{i}.cfg=caller.cfg{j}" for j, c in enumerate(self.cfgs) if las.config is c}
            rel |= {f"L{i}.offs~caller.cfg{j}" for j, c in enumerate(self.cfgs) if shares(offs(las.config), offs(c))}
            rel |= {f"L{i}.data=caller.list{k}" for k, l in enumerate(self.lists) if las.data is l}
            rel |= {f"L{i}.data{li}[{n}]~caller.arr{k}.{ci}" for li, n, col in cols[i] for k, ci, c in caller_cols
                    if bool(np.shares_memory(col, c))}
        for i in range(len(self.lasers)):
            for j in range(i + 1, len(self.lasers)):
                a, b = self.lasers[i], self.lasers[j]
                if a.calibration is b.calibration:
                    rel.add(f"L{i}.dict=L{j}.dict")
                if a.config is b.config:
                    rel.add(f"L{i}.cfg=L{j}.cfg")
                if shares(offs(a.config), offs(b.config)):
                    rel.add(f"L{i}.offs~L{j}.offs")
                if self.srr[i] and self.srr[j] and a.data is b.data:   # one list object (two Lasers may hold one array)
                    rel.add(f"L{i}.data=L{j}.data")
                rel |= {f"L{i}.cal[{n}]~L{j}.cal[{m}]" for n, u in a.calibration.items() for m, v in b.calibration.items()
                        if same_cal(u, v)}
                rel |= {f"L{i}.data{li}[{n}]~L{j}.data{lj}[{m}]" for li, n, c in cols[i] for lj, m, d in cols[j]
                        if bool(np.shares_memory(c, d))}
        return sorted(rel)


def multi_model_alias(rep):
    """the same relations, predicted from the identities of the Lean model"""
    rel = set()
    L = rep["lasers"]
    caller_cells = [(k, ci, c) for k, cells in enumerate(rep["caller_arrs"]) for ci, c in enumerate(cells)]
    for i, las in enumerate(L):
        for n, cid in las["cal_ids"]:
            rel |= {f"L{i}.cal[{n}]~caller.cal{j}" for j, c in enumerate(rep["caller_cals"]) if c == cid}
        rel |= {f"L{i}.dict=caller.dict{j}" for j, d in enumerate(rep["caller_dicts"]) if d == las["dict_id"]}
        rel |= {f"L{i}.cfg=caller.cfg{j}" for j, c in enumerate(rep["caller_cfgs"]) if c == las["cfg_id"]}
        rel |= {f"L{i}.offs~caller.cfg{j}" for j, o in enumerate(rep["caller_cfg_offs"])
                if o is not None and o == las["cfg_offs"]}
        rel |= {f"L{i}.data=caller.list{k}" for k, l in enumerate(rep["caller_lists"]) if l == las["list_id"]}
        rel |= {f"L{i}.data{li}[{n}]~caller.arr{k}.{ci}" for li, l in enumerate(las["layer_cells"]) for n, cell in l
                for k, ci, c in caller_cells if c == cell}
    for i in range(len(L)):
        for j in range(i + 1, len(L)):
            a, b = L[i], L[j]
            if a["dict_id"] == b["dict_id"]:
                rel.add(f"L{i}.dict=L{j}.dict")
            if a["cfg_id"] == b["cfg_id"]:
                rel.add(f"L{i}.cfg=L{j}.cfg")
            if a["cfg_offs"] is not None and a["cfg_offs"] == b["cfg_offs"]:
                rel.add(f"L{i}.offs~L{j}.offs")
            if a["list_id"] is not None and a["list_id"] == b["list_id"]:
                rel.add(f"L{i}.data=L{j}.data")
            rel |= {f"L{i}.cal[{n}]~L{j}.cal[{m}]" for n, u in a["cal_ids"] for m, v in b["cal_ids"] if u == v}
            rel |= {f"L{i}.data{li}[{n}]~L{j}.data{lj}[{m}]" for li, l in enumerate(a["layer_cells"]) for n, c in l
                    for lj, r in enumerate(b["layer_cells"]) for m, d in r if c == d}
    return sorted(rel)


# decoration of the exhaustive trees (see `successors`, `default_start`); a tree case without "deco" (older replays) has none
TREE_DECO = {"mixed": True, "wide": True}


# ----------------------------------------------------------------------------- the property
class C07(Prop):
    id = "C07"
    anchored = ["src/pewlib/laser.py", "src/pewlib/srr/srr.py", "src/pewlib/io/npz.py"]
    cases = {"quick": 120, "thorough": 2400}
    rule = ("targeted: every successful add/remove/rename sequence up to length 3 over {A,B,C,D} from Laser and SRRLaser "
            "(16368 sequences each) and, after npz save/load, every sequence up to length 2 plus the one-op extensions of "
            "every second length-2 sequence (the half chosen by the seed; thorough: all of them, over 5 names, 76695 each from all "
            "four starts, plus all 578786 length-4 sequences "
            "over 4 names from Laser and SRRLaser and a quarter of them, by prefix, after npz save/load), grouped into trees "
            "by prefix; all get() variants are read at every node, a reduced set at the deepest leaves; the arrays of the "
            "enumerated adds cycle through all-float64, all-float32, float32 first / float64 later, float64 first / float32 "
            "later per SRR layer, the fresh SRRLaser starts from layers that differ in precision already, and the leading "
            "float64 arrays hold values that are not float32 values; 56 probes (42 content-level, 14 object-level) of SRR lasers (2 and 3 layers, fresh and "
            "loaded, with and without reconstruction reads) whose layers differ in precision, in byte order or both, at "
            "construction and in add(), followed by swap / chain renames, removes and further adds; object-level probes on "
            "every kind of laser (constructor copies, add by reference, views and copies, write-through, shared offsets array, "
            "one Calibration under two keys, stray calibration keys, every failing call); multi-laser probes on SRRLaser (2 and 3 "
            "layers) and Laser: two and three lasers built from the SAME list object / array / calibration dict / config "
            "object, every state-changing call on each in turn, caller edits between and after the constructions (its list of "
            "layers too), save/load mid-history with the saved laser living on, one file loaded twice; generated: random "
            "histories up to length 25 - 28 % successful sequences against the content-level model, 42 % object-level "
            "histories on one laser, 30 % histories over up to four lasers in one memory (constructions from arguments other "
            "lasers were built from, loads, calls on any laser, caller edits of calibrations / dicts / configs / lists; after "
            "every step EVERY laser is compared with its own dictionary, the caller's lists with what the caller put there, "
            "identities between lasers and with the caller's objects one-sidedly); object-level histories: (adds with "
            "no / a new / an already known Calibration object, removes, renames incl. swaps, cycles, chains, reads, edits of the "
            "caller's Calibration / dict / config objects, in-place writes into the caller's arrays and through returned arrays, "
            "rebinding and in-place writes of the offsets array, failing calls of every kind, constructor dicts with a stray "
            "key or one object under two keys; in both kinds of history every array is <f8 / <f4 or, one time in four, >f8 / >f4, "
            "half of the adds to an SRR laser and half of the freshly constructed SRR lasers have one dtype PER LAYER, "
            "40 % of the 64-bit arrays hold a value beyond float32 precision) with state, all get() variants, identities and "
            "memory sharing observed after "
            "every step; non-trivial = at least one state-changing operation; distinct by canonical case hash")
    trusted = ["decoding of observed values: every array is a unique odd constant d, every non-default calibration has gradient "
               "2**k, so a read value is exactly d/2**k in float32 and float64 (d < 2**24 in 32-bit arrays, d < 2**31 in 64-bit "
               "ones - checked per case before it is run); a stored array decodes to d only if its dtype (byte order included), "
               "shape and bytes are those of the array the caller made for d",
               "numpy.lib.recfunctions.drop_fields / rename_fields and structured-dtype construction behave as read from NumPy 2.x "
               "(duplicate field names raise ValueError; drop_fields builds new memory, rename_fields returns a view)",
               "identities are observed with `is` (Calibration, dict, config objects) and numpy.shares_memory (arrays, the "
               "points/weights arrays of calibrations, the offsets array of SRR configs)"]
    assumptions = ["inside the property's scope (successful add/remove/rename/get, edits of the objects given at construction) "
                   "the observations are compared with the dictionary specification; failing calls, in-place writes into array "
                   "memory or the offsets array, edits of a Calibration handed to add(), and lasers constructed with a stray "
                   "calibration key are outside it: there the implementation is compared with the Lean mechanism only",
                   "identities: the implementation may share less than the object-level model says (copy more) - the check "
                   "demands only that it never shares MORE (wherever the model says two objects are separate / two arrays have no "
                   "common memory the implementation agrees); contents, exception classes and read values are compared exactly",
                   "a call that fails after doing part of its work, and a write outside the property's scope, may leave each part "
                   "of the laser (arrays, calibrations, configuration) as the model says or as it was before; when the "
                   "implementation did less than the model the history is not followed further",
                   "on a laser with a stray calibration key, rename() onto / from that key and add() of that name are not "
                   "followed (the outcome depends on how the dict is rebuilt, the property starts from well-formed lasers)",
                   "order of the element tuple and of the calibration dict is not compared (the property speaks of sets)",
                   "SRR reads with layer=None (reconstruction) are compared as the set of non-fill values per element; "
                   "sizes of extent-trimmed reads are C10's subject and are not compared; of the flattened reconstruction "
                   "(flat=True, layer=None) only that it returns a 2-d array and changes nothing stored (values: C09)",
                   "histories over several lasers: successful calls and edits of construction-time objects only; a case in which "
                   "a step fails in the model, a construction-time Calibration is handed to add(), a calibration key names no "
                   "element, an SRR laser whose layers differ in shape / dtype or are byte-swapped is saved, a laser without "
                   "elements is saved, a reused file no longer holds what its laser holds, or layers cannot be crossed is not "
                   "judged (undetermined); the generator builds none of them",
                   "the reconstruction read stacks the layers into one array of layer 0's dtype: where an element's layer 0 is "
                   "32-bit, its later layers are not given values beyond float32 precision when that read is made (cfg = 1); "
                   "a case that does so, an npz start whose layers differ in dtype (a file holds one stacked array) or whose SRR "
                   "fields are byte-swapped (known finding C01-srr-byteorder), and an id that is not a value of its array's "
                   "dtype are not judged (counted as undetermined); the generator builds none of them"]

    # ---- enumeration
    def trees(self, alphabet, length, kinds=KINDS, halve_npz=False):
        """all successful sequences of length <= `length`: one tree for the short ones, then one tree per
        sequence of length `length - 1` (itself and its one-op extensions).
        `halve_npz` (quick tier): after an npz round trip - where every sequence costs a file load - the one-op
        extensions of every second sequence of length `length - 1` only, the half chosen by the seed (seeds 0 and 1
        together, and the thorough tier alone, run all of them); everything shorter stays exhaustive."""
        phase = int(os.environ.get("VERIF_SEED", "0")) % 2
        for kind in kinds:
            start = default_start(kind, deco=TREE_DECO)
            nl = len(start["ids"])
            base = {"mode": "tree", "kind": kind, "alphabet": alphabet, "start": start, "light_leaves": True, "deco": TREE_DECO}
            if length <= 1:
                yield {**base, "prefix": [], "depth": length}
                continue
            yield {**base, "prefix": [], "depth": length - 2, "light_leaves": False}
            present, did, cid = start_state(start)
            j = 0
            for seq in walk([], present, did, cid, length - 1, alphabet, nl, TREE_DECO):
                if len(seq) == length - 1:
                    j += 1
                    if halve_npz and kind.endswith("_npz") and j % 2 != phase:
                        yield {**base, "prefix": seq, "depth": 0}   # the sequence itself, without its extensions
                        continue
                    yield {**base, "prefix": seq, "depth": 1}

    def targeted(self, tier):
        a4, a5 = ["A", "B", "C", "D"], ["A", "B", "C", "D", "E"]
        # probes of the constructor copies and a swap / chain / cycle on every kind, observed after every step
        for kind in KINDS:
            st = default_start(kind, ("A", "B", "C"))
            st["given"] = [["C", 1], ["A", 2]]
            nl = len(st["ids"])
            d0 = max(narrow(i) for l in st["ids"] for i in l) + 2
            yield {"mode": "seq", "kind": kind, "start": st, "ops": [
                {"op": "caller_edit"},
                {"op": "rename", "map": [["A", "B"], ["B", "A"]]},
                {"op": "rename", "map": [["A", "B"], ["B", "C"], ["C", "A"]]},
                {"op": "remove", "names": ["C"], "as_str": True},
                {"op": "rename", "map": [["A", "B"], ["B", "C"]]},
                {"op": "add", "name": "A", "data": [d0 + 2 * i for i in range(nl)], "dtype": "<f4", "cal": 3},
                {"op": "caller_edit"},
                {"op": "remove", "names": ["B", "A", "C"]},
                {"op": "add", "name": "D", "data": [d0 + 2 * nl + 2 * i for i in range(nl)], "dtype": "<f8", "cal": 0},
            ]}
        yield from self.targeted_obj()
        yield from self.targeted_multi()
        yield from self.targeted_dtypes()
        if tier == "quick":
            yield from self.trees(a4, 3, halve_npz=True)
        else:
            yield from self.trees(a5, 3)
            yield from self.sampled_len4(a4)

    def sampled_len4(self, alphabet):
        """length 4 over 4 names: every sequence of length 2 is a prefix whose depth-2 subtree is walked (only the
        length-4 leaves are run; shorter ones are covered by the length-3 trees).  Exhaustive from Laser and SRRLaser;
        after an npz round trip (where every sequence costs a file load) every 4th prefix, the phase chosen by the seed."""
        phase = int(os.environ.get("VERIF_SEED", "0")) % 4
        for kind in KINDS:
            start = default_start(kind, deco=TREE_DECO)
            nl = len(start["ids"])
            present, did, cid = start_state(start)
            stride = 4 if kind.endswith("_npz") else 1
            j = 0
            for seq in walk([], present, did, cid, 2, alphabet, nl, TREE_DECO):
                if len(seq) == 2:
                    j += 1
                    if j % stride != phase % stride:
                        continue
                    yield {"mode": "tree", "kind": kind, "alphabet": alphabet, "start": start, "prefix": seq, "depth": 2,
                           "min_len": 4, "light_leaves": True, "deco": TREE_DECO}

    def targeted_dtypes(self):
        """SRR lasers whose layers do not share their dtypes: every way two / three layers of one element can differ in
        precision (32-bit first, 64-bit first, the odd one in the middle or last), in byte order only, or both - handed
        to add() on a laser with equal layers (fresh and loaded), on one constructed from layers that differ already,
        and followed by the renames / removes / adds that must carry the arrays along untouched.  Values beyond float32
        precision wherever the reconstruction read allows (everywhere when cfg = 0: no reconstruction is read)."""
        two = [["<f4", "<f8"], ["<f8", "<f4"], [">f8", "<f8"], ["<f4", ">f4"], [">f4", "<f8"], ["<f8", ">f4"]]
        three = [["<f4", "<f8", "<f8"], ["<f8", "<f4", "<f8"], ["<f8", "<f8", "<f4"], ["<f4", "<f4", "<f8"],
                 ["<f4", ">f8", "<f4"], [">f8", "<f8", ">f4"]]
        for kind, nl, cfg, mixed_start in (("srr", 2, 1, False), ("srr", 2, 0, True), ("srr_npz", 2, 1, False),
                                           ("srr_npz", 2, 0, False), ("srr", 3, 0, False), ("srr", 3, 1, True),
                                           ("srr_npz", 3, 1, False)):
            names = ["A", "B", "C"]
            pats = two if nl == 2 else three
            ids = [[1 + 2 * (li * 3 + j) for j in range(3)] for li in range(nl)]
            st = {"names": names, "dtypes": ["<f8", "<f4", "<f8" if kind == "srr_npz" else ">f8"], "shape": [2, 3],
                  "ids": ids, "given": [["B", 1], ["C", 2]], "cfg": cfg}
            if kind == "srr":
                st["shape_odd"] = [3, 2]
            if mixed_start:
                st["layer_dtypes"] = [[pats[j][li] for j in range(3)] for li in range(nl)]
            did = 1 + 2 * 3 * nl

            def wide(dts, base):
                """ids base, base + 2, ... of the arrays of one element, beyond float32 precision wherever allowed"""
                return [widen(base + 2 * li, dt, cfg == 0 or li == 0 or is_f8(dts[0])) for li, dt in enumerate(dts)]

            for j in range(3):
                col = [start_layer_dtypes(st, li)[j] for li in range(nl)]
                for li in range(nl):
                    st["ids"][li][j] = widen(ids[li][j], col[li], cfg == 0 or li == 0 or is_f8(col[0]))
            for k, dts in enumerate(pats):
                n1, n2 = "DEFGHI"[k], "JKLMNO"[k]
                ops = [add_op_dtypes({"op": "add", "name": n1, "data": wide(dts, did), "cal": 3 if k % 2 else 0}, dts),
                       {"op": "rename", "map": [[n1, "A"], ["A", n1]]},
                       add_op_dtypes({"op": "add", "name": n2, "data": wide(dts[::-1], did + 2 * nl), "cal": 4}, dts[::-1]),
                       {"op": "remove", "names": ["B"], "as_str": True},
                       {"op": "rename", "map": [[n2, "B"], ["A", n2], ["C", "A"]]},
                       add_op_dtypes({"op": "add", "name": "C", "data": wide(["<f8"] * nl, did + 4 * nl), "cal": 0}, ["<f8"] * nl),
                       {"op": "remove", "names": [n2, "B"]}]
                yield {"mode": "seq", "kind": kind, "start": st, "ops": ops}
                if k >= 2:
                    continue
                yield {"mode": "obj", "kind": kind, "start": {**st, "cal_objs": [1, 2], "given": [["B", 0], ["C", 1]]},
                       "ops": [{**o, "cal": ({"new": o["cal"]} if o["cal"] else None)} if o["op"] == "add" else o
                               for o in ops[:5]]}

    def search_extra(self, tier):
        yield from self.trees(["A", "B", "C", "D"], 3)

    def generate(self, rng, tier):
        u = rng.random()
        if u < 0.3:
            return self.gen_multi(rng, tier)
        if u < 0.72:
            return self.gen_obj(rng, tier)
        return self.gen_seq(rng, tier)

    def targeted_obj(self):
        """the object-level facts, one probe each, on every kind of laser"""
        for kind in KINDS:
            srr, npz = kind.startswith("srr"), kind.endswith("_npz")
            nl = 2 if srr else 1
            st = default_start(kind, ("A", "B", "C"))
            st["cal_objs"] = [1, 3, 0]
            st["given"] = [["C", 0], ["A", 1]]
            d0 = max(narrow(i) for l in st["ids"] for i in l) + 2
            data = lambda k: [d0 + 2 * (k * nl + i) for i in range(nl)]
            sh = [layer_shape(st, li) for li in range(nl)]
            wrong = [[sh[0][0] + 1, sh[0][1]]] + sh[1:]
            base = {"mode": "obj", "kind": kind, "start": st}
            # constructor copies: edits of everything the caller holds; add stores the caller's Calibration itself
            yield {**base, "ops": [
                {"op": "edit_cal", "obj": 0, "content": 5}, {"op": "edit_cal", "obj": 1, "content": 7},
                {"op": "edit_dict", "obj": 0, "entries": [["B", 2], ["Zz", 0]]},
                {"op": "edit_cfg", "obj": 0, "content": 4},
                {"op": "rename", "map": [["A", "B"], ["B", "A"]]},
                {"op": "add", "name": "D", "data": data(0), "dtype": "<f4", "cal": {"obj": 0}},
                {"op": "add", "name": "E", "data": data(1), "dtype": "<f8", "cal": {"new": 9}},
                {"op": "add", "name": "F", "data": data(2), "dtype": "<f8", "cal": None},
                {"op": "edit_cal", "obj": 0, "content": 11},
                {"op": "edit_cal", "obj": 3 + (3 if npz else 0), "content": 13},
                {"op": "remove", "names": ["D", "C"]},
                {"op": "edit_cal", "obj": 0, "content": 15}]}
            # reads: views and copies; writing through what was returned; the caller writing into its own arrays
            yield {**base, "ops": [
                {"op": "write_result", "layer": 0, "target": "B", "calibrate": False, "content": d0},
                {"op": "write_result", "layer": 0, "target": "B", "calibrate": True, "content": d0 + 2},
                {"op": "write_result", "layer": 0, "target": "A", "calibrate": True, "content": d0 + 4},
                {"op": "write_result", "layer": nl - 1, "target": None, "calibrate": False, "content": d0 + 6},
                {"op": "write_result", "layer": 0, "target": None, "calibrate": True, "content": d0 + 8},
                {"op": "write_arr", "arr": 0, "col": 2, "content": d0 + 10},
                {"op": "rename", "map": [["C", "D"]]},
                {"op": "write_arr", "arr": 0, "col": 2, "content": d0 + 12},
                {"op": "add", "name": "E", "data": [d0 + 14 + 2 * i for i in range(nl)], "dtype": "<f8", "cal": None},
                {"op": "write_arr", "arr": 0, "col": 0, "content": d0 + 30},
                {"op": "write_arr", "arr": nl, "col": 0, "content": d0 + 32}]}
            if srr:  # copy.copy(config) shares the offsets array: the setter rebinds, an in-place write is seen by the laser
                yield {**base, "ops": [{"op": "write_offsets", "obj": 0, "content": 1},
                                       {"op": "set_offsets", "obj": 0, "content": 2}, {"op": "edit_cfg", "obj": 0, "content": 3}]}
                yield {**base, "ops": [{"op": "set_offsets", "obj": 0, "content": 2}, {"op": "rename", "map": [["A", "Q"]]}]}
            # one Calibration object under two keys (deepcopy copies it once); a stray key and what becomes of it
            st2 = {**st, "given": [["A", 0], ["B", 0], ["C", 1]]}
            yield {"mode": "obj", "kind": kind, "start": st2, "ops": [{"op": "edit_cal", "obj": 0, "content": 5},
                                                                         {"op": "rename", "map": [["A", "C"], ["C", "A"]]}]}
            for tail in ([{"op": "remove", "names": ["Zz"], "as_str": True}],
                         [{"op": "rename", "map": [["A", "Zz"]]}, {"op": "remove", "names": ["Zz"]}],
                         [{"op": "rename", "map": [["Zz", "Q"]]}, {"op": "add", "name": "Q", "data": data(0), "dtype": "<f8", "cal": None}],
                         [{"op": "add", "name": "Zz", "data": data(0), "dtype": "<f8", "cal": {"new": 9}}],
                         [{"op": "remove", "names": ["A", "B", "C"]}]):
                yield {"mode": "obj", "kind": kind, "start": {**st, "given": [["Zz", 0], ["A", 1]]}, "ops": tail}
            # failing calls: the exception and what is left
            fails = [
                {"op": "add", "name": "A", "data": data(0), "dtype": "<f8", "cal": None},
                {"op": "add", "name": "D", "data": data(0), "dtype": "<f8", "cal": None, "shapes": wrong},
                {"op": "add", "name": "A", "data": data(0), "dtype": "<f8", "cal": None, "shapes": wrong},
                {"op": "remove", "names": ["D"]}, {"op": "remove", "names": ["D"], "as_str": True},
                {"op": "remove", "names": ["A", "D"]}, {"op": "remove", "names": ["D", "A"]},
                {"op": "remove", "names": ["A", "A"]}, {"op": "remove", "names": ["B", "A", "B"]},
                {"op": "rename", "map": [["A", "B"]]}, {"op": "rename", "map": [["A", "D"], ["B", "D"]]},
                {"op": "rename", "map": [["A", "B"], ["B", "C"]]},
                {"op": "get", "layer": 0, "target": "D", "calibrate": False},
                {"op": "get", "layer": 0, "target": "D", "calibrate": True}]
            if srr:
                later = sh[:1] + [[sh[1][0], sh[1][1] + 1]] + sh[2:]
                fails += [
                    {"op": "add", "name": "D", "data": data(0), "dtype": "<f8", "cal": None, "shapes": later},
                    {"op": "add", "name": "A", "data": data(0), "dtype": "<f8", "cal": None, "shapes": later},
                    {"op": "add", "name": "D", "data": data(0)[:1], "dtype": "<f8", "cal": None, "shapes": sh[:1]},
                    {"op": "add", "name": "D", "data": data(0) + [d0 + 40], "dtype": "<f8", "cal": None, "shapes": sh + sh[:1]},
                    {"op": "get", "layer": nl, "target": "A", "calibrate": False},
                    {"op": "get", "layer": nl + 3, "target": None, "calibrate": True}]
            for f in fails:
                yield {**base, "ops": [{"op": "rename", "map": [["B", "C"], ["C", "B"]]}, f,
                                       {"op": "rename", "map": [["A", "B"], ["B", "A"]]}, {"op": "remove", "names": ["C"]}]}

    def gen_seq(self, rng, tier):
        kind = rng.choice(KINDS)
        srr = kind.startswith("srr")
        pool = rng.choice(NAME_POOLS)
        n0 = rng.choice([1, 2, 2, 3, 3, 4])
        names = rng.sample(pool, n0)
        nl = rng.choice([2, 2, 3]) if srr else 1
        if srr:
            r = rng.randint(1, 3)
            if kind == "srr_npz":
                shape, shape_odd = [r, r + rng.randint(0, 2)], None
            else:
                r1 = rng.randint(1, 3)
                shape, shape_odd = [r, r1 + rng.randint(0, 2)], [r1, r + rng.randint(0, 2)]
        else:
            shape, shape_odd = [rng.randint(1, 4), rng.randint(1, 4)], None
        did = 1
        ids = []
        for _ in range(nl):
            ids.append([did + 2 * j for j in range(n0)])
            did += 2 * n0
        cid = 1
        given = None
        if rng.random() < 0.75:
            given = []
            for n in rng.sample(names, rng.randint(0, n0)):
                given.append([n, cid])
                cid += 1
        dts0, ld = gen_start_dtypes(rng, kind, n0, nl)
        start = {"names": names, "dtypes": dts0, "shape": shape, "ids": ids,
                 "given": given, "cfg": rng.choice([0, 1, 1])}
        if ld is not None:
            start["layer_dtypes"] = ld
        if shape_odd is not None:
            start["shape_odd"] = shape_odd
        widen_start(rng, srr, start)
        present = list(names)
        ops = []
        length = rng.choice([1, 2, 3, 5, 8, 12, 18, 25])
        for _ in range(length):
            absent = [n for n in pool if n not in present]
            choices = ["get", "caller_edit"]
            if absent:
                choices += ["add"] * 3
            if present:
                choices += ["remove"] * 2 + ["rename"] * 5
            k = rng.choice(choices)
            if k == "add":
                withcal = rng.random() < 0.6
                dts = gen_add_dtypes(rng, srr, nl)
                op = add_op_dtypes({"op": "add", "name": rng.choice(absent),
                                    "data": gen_widen(rng, srr, start["cfg"], [did + 2 * i for i in range(nl)], dts),
                                    "cal": cid if withcal else 0}, dts)
                did += 2 * nl
                cid += 1 if withcal else 0
            elif k == "remove":
                m = 1 if rng.random() < 0.5 else rng.randint(1, len(present))
                if m == len(present) and rng.random() < 0.7 and len(present) > 1:
                    m -= 1
                ns = rng.sample(present, m)
                op = {"op": "remove", "names": ns, "as_str": m == 1 and rng.random() < 0.5}
            elif k == "rename":
                op = {"op": "rename", "map": self.gen_rename(rng, present, pool)}
            elif k == "get":
                op = {"op": "get", "layer": rng.randrange(nl), "target": rng.choice([None] + present) if present else None,
                      "calibrate": rng.random() < 0.5}
            else:
                op = {"op": "caller_edit"}
            nxt = abstract_apply(present, op)
            if nxt is None:
                raise InternalError(f"generator produced an unsuccessful op {op} on {present}")
            present = nxt
            ops.append(op)
        return {"mode": "seq", "kind": kind, "start": start, "ops": ops}

    def gen_rename(self, rng, present, pool):
        absent = [n for n in pool if n not in present]
        style = rng.choice(["swap", "cycle", "chain", "fresh", "any", "any", "identity"])
        if style == "swap" and len(present) >= 2:
            a, b = rng.sample(present, 2)
            m = [[a, b], [b, a]]
        elif style == "cycle" and len(present) >= 3:
            c = rng.sample(present, rng.randint(3, len(present)))
            m = [[c[i], c[(i + 1) % len(c)]] for i in range(len(c))]
        elif style == "chain" and len(present) >= 2 and absent:
            c = rng.sample(present, rng.randint(2, len(present)))
            tgt = c[1:] + [rng.choice(absent)]
            m = [[o, n] for o, n in zip(c, tgt)]
        elif style == "fresh" and absent:
            dom = rng.sample(present, rng.randint(1, min(len(present), len(absent))))
            m = [[o, n] for o, n in zip(dom, rng.sample(absent, len(dom)))]
        elif style == "identity":
            dom = rng.sample(present, rng.randint(1, len(present)))
            m = [[o, o] for o in dom]
        else:
            dom = rng.sample(present, rng.randint(1, len(present)))
            rest = [n for n in present if n not in dom]
            targets = [n for n in pool if n not in rest]
            m = [[o, n] for o, n in zip(dom, rng.sample(targets, len(dom)))]
        rng.shuffle(m)
        return m

    # ---- evaluation
    @staticmethod
    def presents_of(start, ops):
        present = list(start["names"])
        out = [present]
        for op in ops:
            present = abstract_apply(present, op)
            if present is None:
                raise InternalError(f"unsuccessful op in case: {op}")
            out.append(present)
        return out

    def plan_sequence(self, kind, start, ops, every_step, light):
        """-> (observed step indices, read plans, driver requests): what is asked of the driver for one sequence"""
        presents = self.presents_of(start, ops)
        steps = list(range(len(ops) + 1)) if every_step else [len(ops)]
        plans, reqs = [], []
        for i in steps:
            # reads name the present elements, so they differ per step: one driver run per observed step
            plan, mreads = read_plan(kind.startswith("srr"), len(start["ids"]), presents[i], start["cfg"], light)
            plans.append(plan)
            reqs.append(driver_req(kind, start, ops[:i], mreads, True))
        return steps, plans, reqs, presents

    def run_impl(self, kind, start, ops, steps, presents, tmp, light):
        """the real objects: construct (save/load), apply the operations, observe at `steps`"""
        impl = []
        world = None
        raised = None
        try:
            world = World(kind, start, tmp)
        except InternalError:
            raise
        except Exception as e:
            raised = {"raises": type(e).__name__, "msg": str(e)[:160], "at": "construct"}
        for i in range(len(ops) + 1):
            if raised is None and i > 0:
                try:
                    world.apply(ops[i - 1])
                except InternalError:
                    raise
                except Exception as e:
                    raised = {"raises": type(e).__name__, "msg": str(e)[:160], "at": i, "op": ops[i - 1]}
            if i in steps:
                if raised is not None:
                    impl.append(raised)
                    continue
                try:
                    o, _, _ = observe_impl(world, presents[i], light)
                except InternalError:
                    raise
                except Exception as e:
                    o = {"raises": type(e).__name__, "msg": str(e)[:160], "at": f"observe {i}"}
                impl.append(o)
        return impl

    def sides(self, reps, plans, what):
        model, spec = [], []
        for rep, plan in zip(reps, plans):
            st = rep["steps"][-1]
            if st["model"] is None or st["spec"] is None:
                raise InternalError(f"model/spec reject a generated (successful) sequence: {what}")
            if not st["inv"] or not st["abs_eq"]:
                raise InternalError(f"driver: invariant/abstraction fails (contradicts the theorems): {what}")
            model.append(canon_side(st["model"], plan, "model"))
            spec.append(canon_side(st["spec"], plan, "spec"))
        return model, spec

    def evaluate(self, case, ctx):
        kind, start = case.get("kind"), case.get("start")
        if case["mode"] == "multi":
            return self.eval_multi(case, ctx)
        if case["mode"] != "tree":
            try:
                guard(kind, start, case["ops"])
            except OutOfScope as e:
                skip = {"not-judged": str(e)}
                return outcome(skip, skip, skip, undetermined=True, features=[], note=str(e))
        tmp = ctx.tmpdir() if kind.endswith("_npz") else None
        feats = {f"kind:{kind}"}
        if case["mode"] == "obj":
            return self.eval_obj(case, ctx, tmp)
        if case["mode"] == "seq":
            ops = case["ops"]
            feats |= dtype_features(start, ops)
            steps, plans, reqs, presents = self.plan_sequence(kind, start, ops, True, False)
            for op, present in zip(ops, presents):
                feats |= op_features(op, present)
            feats.add(f"len:{'0' if not ops else '1-3' if len(ops) <= 3 else '4-10' if len(ops) <= 10 else '11-25'}")
            feats.add(f"start-elements:{len(start['names'])}")
            if start["given"] is None:
                feats.add("no-calibration-arg")
            reps = ctx.driver.call("c07.batch", runs=reqs)["runs"]
            model, spec = self.sides(reps, plans, (kind, start, ops))
            impl = self.run_impl(kind, start, ops, steps, presents, tmp, False)
            changing = any(op["op"] in ("add", "remove", "rename") for op in ops)
            return outcome({"steps": impl}, {"steps": model}, {"steps": spec}, features=feats if changing else [])
        # tree: every successful sequence below the prefix, observed at its end
        alphabet = case["alphabet"]
        nl = len(start["ids"])
        st = abstract_run(start, case["prefix"])
        if st is None:
            raise InternalError("tree prefix is not successful")
        present, did, cid = st
        min_len = case.get("min_len", 0)
        full = len(case["prefix"]) + case["depth"]
        todo = []
        for seq in walk(list(case["prefix"]), present, did, cid, case["depth"], alphabet, nl, case.get("deco")):
            if len(seq) < min_len:  # shorter sequences are covered exhaustively by other trees
                continue
            try:
                guard(kind, start, seq)
            except OutOfScope as e:
                if case.get("deco") == TREE_DECO:
                    raise InternalError(f"the enumeration built a sequence that cannot be judged: {e}")
                feats.add("tree:sequence-not-judged")
                continue
            feats |= dtype_features(start, seq)
            light = bool(case.get("light_leaves")) and len(seq) == full and case["depth"] > 0
            steps, plans, reqs, presents = self.plan_sequence(kind, start, seq, False, light)
            for op, p in zip(seq, presents):
                feats |= op_features(op, p)
            if light:
                feats.add("light-reads-at-leaf")
            todo.append((seq, steps, plans, reqs, presents, light))
        reps = ctx.driver.call("c07.batch", runs=[t[3][0] for t in todo])["runs"] if todo else []
        for (seq, steps, plans, reqs, presents, light), rep in zip(todo, reps):
            model, spec = self.sides([rep], plans, (kind, start, seq))
            impl = self.run_impl(kind, start, seq, steps, presents, tmp, light)
            if impl != spec or impl != model:
                return outcome({"seq": seq, "obs": impl}, {"seq": seq, "obs": model}, {"seq": seq, "obs": spec}, features=feats)
        feats.add(f"tree-depth:{full}")
        summary = {"sequences": len(todo), "all_agree": True}
        return outcome(summary, summary, summary, features=feats)

    # ---- object-level histories
    @staticmethod
    def obj_scope(start, ops, errs, n_construction_cals):
        """index of the first operation the property does not speak about (len(ops) if there is none): a failing call,
        an in-place write into array memory or the offsets array, an edit of a Calibration that was created for or
        handed to add()."""
        passed = set()
        for i, op in enumerate(ops):
            k = op["op"]
            if errs[i] is not None:
                return i
            if k in LASER_OPS:
                if k == "add" and op["cal"] is not None and "obj" in op["cal"]:
                    passed.add(op["cal"]["obj"])
                continue
            if k == "edit_cal" and op["obj"] < n_construction_cals and op["obj"] not in passed:
                continue
            if k == "edit_dict" and all(j not in passed and j < n_construction_cals for _, j in op["entries"]):
                continue
            if k in ("edit_cfg", "set_offsets"):
                continue
            return i
        return len(ops)

    def eval_obj(self, case, ctx, tmp):
        kind, start, ops = case["kind"], case["start"], list(case["ops"])
        srr, nl = kind.startswith("srr"), len(start["ids"])
        feats = {f"kind:{kind}", "object-level"}
        # phase 1: the model alone - which calls fail, which failing call leaves a changed state, the elements per step
        full = ctx.driver.call("c07.heap", runs=[obj_req(kind, start, ops, [])])["runs"][0]
        errs, unchanged, sim = full["errs"], full["unchanged"], full["sim"]
        stop = len(ops)
        for i, e in enumerate(errs):
            if e is not None and not unchanged[i]:
                stop = i + 1  # a call that fails half way: observed, nothing after it
                break
        ops, errs, unchanged, sim = ops[:stop], errs[:stop], unchanged[:stop], sim[:stop]
        pre = ctx.driver.call("c07.heap", runs=[obj_req(kind, start, ops[:i], []) for i in range(len(ops) + 1)])["runs"]
        # a laser with calibration keys that name no element (a stray key given to the constructor) is outside the
        # property; what rename() onto / from such a key and add() of such a name make of it depends on how the dict is
        # rebuilt, not on anything the property says: such a call is not followed (remove() of the key, reads and calls
        # on other names are)
        for i, op in enumerate(ops):
            m = pre[i]["model"]
            stray = {k for k, _ in m["cal"]} - set(m["elements"])
            touched = set()
            if op["op"] == "rename":
                touched = {x for pair in op["map"] for x in pair}
            elif op["op"] == "add":
                touched = {op["name"]}
            if stray & touched:
                ops, errs, unchanged, sim, pre = ops[:i], errs[:i], unchanged[:i], sim[:i], pre[:i + 1]
                feats.add("stray-key:call-not-followed")
                break
        if not pre[0]["construct_ok"] or not pre[0]["sep_start"] or pre[0]["inv_start"] != pre[0]["given_ok"]:
            raise InternalError(f"driver: constructor theorems contradicted: {case}")
        in_scope0 = bool(pre[0]["given_ok"])
        n_con = len(pre[0]["caller_cals"])
        scope = self.obj_scope(start, ops, errs, n_con) if in_scope0 else -1
        offs_written = [any(o["op"] == "write_offsets" for o in ops[:i]) for i in range(len(ops) + 1)]
        plans, reqs = [], []
        for i in range(len(ops) + 1):
            recon = srr and start["cfg"] == 1 and pre[i]["inv"] and not offs_written[i]
            plan, mreads = read_plan(srr, nl, pre[i]["model"]["elements"], start["cfg"] if recon else 0, False)
            plans.append(plan)
            reqs.append(obj_req(kind, start, ops[:i], mreads))
        reps = ctx.driver.call("c07.heap", runs=reqs)["runs"]
        model, spec = [], []
        for i, (rep, plan) in enumerate(zip(reps, plans)):
            if not rep["valid"] or not all(r.get("pure", True) for r in rep["reads"]):
                raise InternalError(f"driver: object-level invariant / read purity fails (contradicts the theorems): {case}")
            if i <= scope and not (rep["inv"] and all(rep["sim"])):
                raise InternalError(f"driver: invariant / simulation fails inside the property's scope: {case}")
            handed = any(o["op"] == "add" and o["cal"] is not None and o["cal"].get("obj", n_con) < n_con for o in ops[:i])
            if i <= scope and not handed and not rep["sep"]:
                raise InternalError(f"driver: the laser references a construction-time object of the caller: {case}")
            for j, op in enumerate(ops[:i]):
                if op["op"] in LASER_OPS and not rep["sim"][j]:
                    raise InternalError(f"driver: object level and content level disagree on a laser call: {case}")
            m = dict(rep["model"])
            m["reads"] = [r.get("items") for r in rep["reads"]]
            side = canon_side(m, plan, "model", offs=rep["cfg_offs_content"] if srr else None)
            for label, idx, kw, _, sized in plan:
                bad = [rep["reads"][k]["raises"] for k in idx if "raises" in rep["reads"][k]]
                if bad:
                    side["reads"][label] = {"raises": bad[0]}
                    side["sizes"].pop(label, None)
            side["alias"] = model_alias(rep)
            side["read_shares"] = {label: model_read_shares(rep, rep["reads"][idx[0]])
                                   for label, idx, kw, _, _ in plan if kw["layer"] is not None}
            side["err"] = errs[i - 1] if i > 0 else None
            model.append(side)
            if i <= scope and rep["spec"] is not None:
                sp = canon_side(rep["spec"], plan, "spec", offs=0 if srr else None)
                # identities are not the dictionary's subject: taken over from the object-level model
                sp["alias"], sp["read_shares"], sp["err"] = side["alias"], side["read_shares"], None
                spec.append(sp)
            else:
                spec.append(side)
        # the real objects
        impl = []
        world = ObjWorld(kind, start, tmp)
        for i in range(len(ops) + 1):
            err = world.apply(ops[i - 1]) if i > 0 else None
            st = world.state()
            reads, sizes, shares = obj_do_reads(world, plans[i])
            impl.append({"state": st, "reads": reads, "sizes": sizes, "state_after_reads": world.state(),
                         "alias": world.alias(), "read_shares": shares, "err": err})
        # ---- verdicts, step by step
        # * contents, exceptions, reads: impl == model (and == spec inside the property's scope);
        # * identities: the implementation may share LESS than the model says (copy more), never more: wherever the
        #   model says "separate objects / no common memory" the implementation must agree (`alias_le`);
        # * a call that fails half way (the model leaves a changed state) and an edit outside the property's scope
        #   (in-place write into array memory / the offsets array, edit of a Calibration handed to add()): every part of
        #   the state (arrays, calibrations, configuration) is as the model says or as it was before - how much of a
        #   failing call is undone, and whether such a write reaches the laser at all, is not the property's subject.
        #   When the implementation did less than the model, the history is not followed further.
        PARTS = (("elements", "n_elements", "layer_names", "data", "shape"), ("cal", "n_cal"), ("cfg", "offs"))
        spec_ok = model_ok = True
        cut = None
        for i in range(len(impl)):
            im, mo, sp = impl[i], model[i], spec[i]
            plain = lambda d: {k: v for k, v in d.items() if k not in ("alias", "read_shares")}
            lenient = i > 0 and ((errs[i - 1] is not None and not unchanged[i - 1]) or
                                 (errs[i - 1] is None and ops[i - 1]["op"] not in LASER_OPS and i > scope))
            if core.canon(plain(im)) == core.canon(plain(mo)):
                if not (alias_le(im["alias"], mo["alias"]) and shares_le(im["read_shares"], mo["read_shares"])):
                    if i > 0 and errs[i - 1] is not None and alias_le(im["alias"], model[i - 1]["alias"]):
                        # a failing call that, in the model, had already moved the data to new memory: the
                        # implementation raised before doing so
                        feats.add("lenient:implementation-did-less-than-modelled")
                        cut = i
                        break
                    model_ok = False
                if sp is not mo and core.canon(plain(im)) != core.canon(plain(sp)):
                    spec_ok = False
                feats.add("alias:exactly-as-modelled" if (im["alias"] == mo["alias"] and im["read_shares"] == mo["read_shares"])
                          else "alias:implementation-shares-less")
                continue
            prev = model[i - 1]["state"] if i > 0 else None
            if lenient and im["err"] == mo["err"] and im["state"] == im["state_after_reads"] and all(
                    any(all(im["state"][k] == side[k] for k in part) for side in (mo["state"], prev)) for part in PARTS):
                feats.add("lenient:implementation-did-less-than-modelled")
                cut = i  # not followed further
                break
            model_ok = False
            if sp is not mo:
                spec_ok = False
            else:
                pass
        if cut is not None:
            impl, model, spec = impl[:cut], model[:cut], spec[:cut]
        if ops and errs[-1] is not None and not unchanged[-1]:
            feats.add("fail:half-way")
        for i, op in enumerate(ops):
            feats |= self.obj_features(op, errs[i], unchanged[i], i < scope, srr)
        feats |= dtype_features(start, [op for i, op in enumerate(ops) if errs[i] is None])
        if not in_scope0:
            feats.add("construct:stray-calibration-key")
        if start["given"] is not None and len({j for _, j in start["given"]}) < len(start["given"]):
            feats.add("construct:one-calibration-object-under-two-keys")
        if any(m["read_shares"].get(l) for m in model for l in m["read_shares"] if isinstance(m["read_shares"][l], list)):
            feats.add("alias:returned-view-of-stored-data")
        if any(v for m in model for v in m["alias"]["data_shares"].values()):
            feats.add("alias:stored-data-is-callers-array")
        if any(v for m in model for v in m["alias"]["cal_owner"].values()):
            feats.add("alias:stored-calibration-is-callers-object")
        if any(m["alias"]["offs_shared"] for m in model):
            feats.add("alias:config-copy-shares-offsets-array")
        feats.add(f"len:{'0' if not ops else '1-3' if len(ops) <= 3 else '4-10' if len(ops) <= 10 else '11-25'}")
        return outcome({"steps": impl}, {"steps": model}, {"steps": spec}, spec_ok=spec_ok, model_ok=model_ok,
                       hyp=(scope == len(ops)), features=feats,
                       note=f"{len(ops)} steps, {max(scope, 0)} inside the property's scope")

    # ---- several lasers
    def eval_multi(self, case, ctx):
        skip = lambda why: outcome({"not-judged": why}, {"not-judged": why}, {"not-judged": why}, undetermined=True,
                                   features=[], note=why)
        try:
            snaps, ab = multi_track(case)
        except OutOfScope as e:
            return skip(str(e))
        steps = case["steps"]
        n = len(steps)
        pre = ctx.driver.call("c07.multi", runs=[multi_req(case, snaps, i, []) for i in range(n + 1)])["runs"]
        if any(e is not None for e in pre[n]["errs"]):
            return skip("a step of the history fails in the model")
        if not all(p["msep"] for p in pre):
            return skip("a laser references an object the caller goes on editing")
        for p in pre:
            if not (all(p["frame"]) and p["mvalid"] and all(l["valid"] and l["inv"] and l["abs_eq"] for l in p["lasers"])):
                raise InternalError(f"driver: the multi-laser theorems are contradicted: {case}")
        # the reads of every laser at every step
        plans, reqs = [], []
        for i in range(n + 1):
            pl, rd = [], []
            for j, las in enumerate(pre[i]["lasers"]):
                m = las["model"]
                srr, nl = las["srr"], len(m["layers"])
                recon = srr and m["cfg"] == 1
                plan, mreads = read_plan(srr, nl, m["elements"], 1 if recon else 0, False)
                pl.append(plan)
                rd.append(mreads)
            plans.append(pl)
            reqs.append(multi_req(case, snaps, i, rd))
        reps = ctx.driver.call("c07.multi", runs=reqs)["runs"]
        model, spec = [], []
        born_offs = {}   # the dictionary has no offsets array: a laser keeps the content its config had when it was built
        for i, rep in enumerate(reps):
            ml, sl = [], []
            for j, las in enumerate(rep["lasers"]):
                born_offs.setdefault(j, las["cfg_offs_content"])
                if not all(r.get("pure", True) for r in las["reads"]) or las["spec"] is None:
                    raise InternalError(f"driver: read purity / dictionary fails (contradicts the theorems): {case}")
                srr = las["srr"]
                m = dict(las["model"])
                m["reads"] = [r.get("items") for r in las["reads"]]
                side = canon_side(m, plans[i][j], "model", offs=las["cfg_offs_content"] if srr else None)
                for label, idx, kw, _, sized in plans[i][j]:
                    bad = [las["reads"][k]["raises"] for k in idx if "raises" in las["reads"][k]]
                    if bad:
                        side["reads"][label] = {"raises": bad[0]}
                        side["sizes"].pop(label, None)
                ml.append(side)
                sl.append(canon_side(las["spec"], plans[i][j], "spec", offs=born_offs[j] if srr else None))
            al = multi_model_alias(rep)
            model.append({"lasers": ml, "caller_lists": rep["caller_list_entries"], "err": None, "alias": al})
            spec.append({"lasers": sl, "caller_lists": rep["caller_list_entries"], "err": None, "alias": al})
        # the real objects
        tmp = ctx.tmpdir() if any(st["op"] == "load" for st in steps) else None
        world = MultiWorld(case, ab.reg, tmp)
        impl = []
        for i in range(n + 1):
            err = world.apply(steps[i - 1]) if i > 0 else None
            views = [LaserView(world.lasers[j], world.srr[j], world.reg, world.ncal, snaps[i][j]["shapes"],
                               pre[i]["lasers"][j]["model"]["cfg"] if j < len(pre[i]["lasers"]) else 0)
                     for j in range(len(world.lasers))]
            obs = []
            for j, v in enumerate(views):
                if j >= len(plans[i]):
                    obs.append({"unexpected-laser": j})
                    continue
                try:
                    st = v.state()
                    reads, sizes = do_reads(v, plans[i][j])
                    # a read of one laser changes nothing that any laser stores
                    obs.append({"state": st, "reads": reads, "sizes": sizes, "state_after_reads": None})
                except InternalError:
                    raise
                except Exception as e:
                    obs.append({"raises": type(e).__name__, "msg": str(e)[:160]})
            for j, v in enumerate(views):
                if "state" in obs[j]:
                    try:
                        obs[j]["state_after_reads"] = v.state()
                    except Exception as e:
                        obs[j]["state_after_reads"] = {"raises": type(e).__name__}
            impl.append({"lasers": obs, "caller_lists": world.caller_lists(), "err": err, "alias": world.alias()})
        plain = lambda d: {k: v for k, v in d.items() if k != "alias"}
        spec_ok = model_ok = True
        for im, mo, sp in zip(impl, model, spec):
            if core.canon(plain(im)) != core.canon(plain(sp)):
                spec_ok = False
            if core.canon(plain(im)) != core.canon(plain(mo)) or not all(x in mo["alias"] for x in im["alias"]):
                model_ok = False
        feats = self.multi_features(case, snaps, model)
        return outcome({"steps": impl}, {"steps": model}, {"steps": spec}, spec_ok=spec_ok, model_ok=model_ok,
                       features=feats, note=f"{n} steps over {len(snaps[-1])} lasers")

    @staticmethod
    def multi_features(case, snaps, model):
        steps = case["steps"]
        f = {"multi", f"multi:lasers:{min(len(snaps[-1]), 4)}{'+' if len(snaps[-1]) > 4 else ''}",
             f"len:{'0' if not steps else '1-3' if len(steps) <= 3 else '4-10' if len(steps) <= 10 else '11-25'}"}
        built = []   # per laser: (what its data argument was, dict, config)
        for i, st in enumerate(steps):
            k = st["op"]
            if k == "construct":
                arg = ("list", st["list"]) if st["srr"] else ("arr", st["arr"])
                f.add("multi:kind:srr" if st["srr"] else "multi:kind:laser")
                if any(b[0] == arg for b in built):
                    f.add("multi:constructed-from-the-same-list-object" if st["srr"] else "multi:constructed-from-the-same-array")
                if st["given"] is not None and any(b[1] == st["given"] for b in built):
                    f.add("multi:constructed-from-the-same-calibration-dict")
                if st["cfg"] is not None and any(b[2] == st["cfg"] for b in built):
                    f.add("multi:constructed-from-the-same-config")
                if any(s["op"] in MULTI_EDITS for s in steps[:i]) and built:
                    f.add("multi:caller-edit-between-two-constructions")
                built.append((arg, st["given"], st["cfg"]))
            elif k == "load":
                f.add("multi:load-mid-history" if any(s["op"] == "call" and s["call"]["op"] != "get" for s in steps[:i])
                      else "multi:load-of-a-fresh-laser")
                if st.get("reuse_file"):
                    f.add("multi:one-file-loaded-twice")
                built.append((("load", st["laser"]), None, None))
            elif k == "call":
                op = st["call"]
                f |= {"multi:" + x for x in op_features(op, snaps[i][st["laser"]]["names"])}
                if op["op"] != "get":
                    me = built[st["laser"]]
                    twins = [j for j, b in enumerate(built) if j != st["laser"] and b[0] == me[0] and me[0][0] != "load"]
                    if twins:
                        f.add("multi:edit-of-a-laser-whose-data-argument-another-laser-was-built-from")
                    if any(b[0] == ("load", st["laser"]) for b in built) or me[0][0] == "load":
                        f.add("multi:edit-of-a-saved-or-loaded-laser-while-the-other-lives-on")
                    if len(built) > 1:
                        f.add("multi:edit-while-other-lasers-exist")
            else:
                f.add(f"multi:{k}")
                if k == "set_list" and any(b[0] == ("list", st["list"]) for b in built):
                    f.add("multi:caller-edits-the-list-a-laser-was-built-from")
        if any("~L" in x and ".data" in x for m in model for x in m["alias"]):
            f.add("alias:two-lasers-hold-the-same-array-memory")
        if any(".offs~L" in x for m in model for x in m["alias"]):
            f.add("alias:two-config-copies-share-one-offsets-array")
        return f

    def gen_multi(self, rng, tier):
        srr = rng.random() < 0.65
        pool = rng.choice(NAME_POOLS)
        n0 = rng.choice([1, 2, 2, 3, 3])
        names = rng.sample(pool, n0)
        nl = rng.choice([2, 2, 3, 4]) if srr else 1
        # a case that saves an SRR laser keeps to what one stacked array in a file can hold
        plain = srr and rng.random() < 0.5
        if srr:
            r, r1 = rng.randint(1, 3), rng.randint(1, 3)
            sh_even = [r, (r if plain else r1) + rng.randint(0, 2)]
            sh_odd = list(sh_even) if plain else [r1, r + rng.randint(0, 2)]
        else:
            sh_even = sh_odd = [rng.randint(1, 4), rng.randint(1, 4)]
        did = 1
        arrays, lists = [], []
        nsets = rng.choice([1, 2, 2]) if srr else rng.choice([1, 2])
        col_dts = [pick_dtype(rng, plain) for _ in range(n0)]
        for _ in range(nsets):
            first = len(arrays)
            for li in range(nl):
                dts = list(col_dts) if (plain or not srr or rng.random() < 0.6) else [pick_dtype(rng) for _ in range(n0)]
                arrays.append({"shape": sh_even if li % 2 == 0 else sh_odd, "names": list(names), "dtypes": dts,
                               "ids": [did + 2 * j for j in range(n0)]})
                did += 2 * n0
            if srr:
                lists.append(list(range(first, first + nl)))
        if srr and rng.random() < 0.5:
            lists.append(list(lists[0]))   # another list object holding the same arrays
        ncal = rng.randint(0, n0 + 1)
        cal_objs = list(range(1, ncal + 1))
        cid = ncal + 1
        dicts = []
        if ncal:
            for _ in range(rng.choice([1, 1, 2])):
                keys = rng.sample(names, rng.randint(0, min(n0, ncal)))
                dicts.append([[k, rng.randrange(ncal) if rng.random() < 0.25 else j % ncal] for j, k in enumerate(keys)])
        elif rng.random() < 0.5:
            dicts.append([])
        cfgs = [{"scal": rng.choice([1, 1, 2, 3]), "srr": srr} for _ in range(rng.choice([0, 1, 1, 2]))]
        case = {"mode": "multi", "arrays": arrays, "lists": lists, "cal_objs": cal_objs, "dicts": dicts, "cfgs": cfgs, "steps": []}
        ab = MultiAbs(case)
        pick_opt = lambda seq, p: rng.randrange(len(seq)) if seq and rng.random() < p else None

        def construct(like=None):
            if like is not None and rng.random() < 0.7:   # the very same arguments as an existing laser
                a = ab.lasers[like]
                if a["args"][0] != "load":
                    return {"op": "construct", "srr": srr, ("list" if srr else "arr"): a["args"][1], "given": a["given"],
                            "cfg": a["cfg"]}
            st = {"op": "construct", "srr": srr, "given": pick_opt(dicts, 0.75), "cfg": pick_opt(cfgs, 0.7)}
            st["list" if srr else "arr"] = rng.randrange(len(lists) if srr else len(arrays))
            return st

        def propose():
            nlas = len(ab.lasers)
            choices = ["call"] * 10 + ["edit_cal"] * (2 if ncal else 0) + ["edit_dict"] * (1 if dicts else 0) + \
                      ["edit_cfg"] * (1 if cfgs else 0) + ["set_offsets"] * (1 if cfgs and srr else 0) + \
                      ["set_list"] * (1 if srr else 0)
            if nlas < 4:
                choices += ["construct"] * (5 if nlas < 2 else 2) + ["load"] * 2
            k = rng.choice(choices)
            if k == "construct":
                return construct(rng.randrange(nlas))
            if k == "load":
                again = [j for j, l in enumerate(ab.lasers) if "saved" in l and l["saved"] == l.get("version", 0)]
                if again and rng.random() < 0.4:   # the same file once more
                    return {"op": "load", "laser": rng.choice(again), "reuse_file": True}
                return {"op": "load", "laser": rng.randrange(nlas)}
            if k == "edit_cal":
                nonlocal_cid[0] += 2
                return {"op": "edit_cal", "obj": rng.randrange(ncal), "content": nonlocal_cid[0]}
            if k == "edit_dict":
                ks = rng.sample(names, rng.randint(0, min(len(names), 3)))
                return {"op": "edit_dict", "obj": rng.randrange(len(dicts)),
                        "entries": [[x, rng.randrange(ncal)] for x in ks] if ncal else []}
            if k == "edit_cfg":
                return {"op": "edit_cfg", "obj": rng.randrange(len(cfgs)), "content": rng.choice([1, 2, 3, 4])}
            if k == "set_offsets":
                return {"op": "set_offsets", "obj": rng.randrange(len(cfgs)), "content": 2}
            if k == "set_list":
                kk = rng.randrange(len(lists))
                cur = list(ab.lists[kk])
                u = rng.random()
                if u < 0.35 and len(lists) > 1:
                    new = list(ab.lists[rng.randrange(len(lists))])
                elif u < 0.55 and len(cur) > 2:
                    new = cur[:2]
                elif u < 0.7:
                    new = cur[:1]
                elif u < 0.8:
                    new = []
                else:
                    base = rng.randrange(nsets) * nl
                    new = list(range(base, base + nl))
                return {"op": "set_list", "list": kk, "entries": new}
            i = rng.randrange(nlas)
            las = ab.lasers[i]
            present, lnl = las["names"], len(las["shapes"])
            absent = [x for x in pool if x not in present]
            kinds = ["get"] + (["add"] * 4 if absent else []) + (["remove"] * 2 + ["rename"] * 4 if present else [])
            c = rng.choice(kinds)
            if c == "add":
                u = rng.random()
                added = list(range(ab.n_con_cals, len(ab.cal_pool)))
                if u < 0.35:
                    cal = None
                elif u < 0.75 or not added:
                    nonlocal_cid[0] += 2
                    cal = {"new": nonlocal_cid[0]}
                else:
                    cal = {"obj": rng.choice(added)}   # one Calibration object handed to add() more than once
                dts = [pick_dtype(rng, plain)] * lnl if plain else gen_add_dtypes(rng, srr, lnl)
                op = add_op_dtypes({"op": "add", "name": rng.choice(absent),
                                    "data": [nonlocal_did[0] + 2 * x for x in range(lnl)], "cal": cal}, dts)
                nonlocal_did[0] += 2 * lnl
            elif c == "remove":
                mm = 1 if rng.random() < 0.5 else rng.randint(1, len(present))
                if mm == len(present) and rng.random() < 0.7 and len(present) > 1:
                    mm -= 1
                op = {"op": "remove", "names": rng.sample(present, mm), "as_str": mm == 1 and rng.random() < 0.5}
            elif c == "rename":
                op = {"op": "rename", "map": self.gen_rename(rng, present, pool)}
            else:
                op = {"op": "get", "layer": rng.randrange(lnl), "target": rng.choice([None] + present) if present else None,
                      "calibrate": rng.random() < 0.5}
            return {"op": "call", "laser": i, "call": op}

        nonlocal_cid, nonlocal_did = [cid + (cid % 2)], [did]
        import copy as _copy
        steps = []
        first = construct()
        length = rng.choice([3, 5, 8, 12, 18])
        tries = 0
        while len(steps) < length and tries < 200:
            tries += 1
            st = first if not steps else propose()
            trial = _copy.deepcopy(ab)
            try:
                trial.apply(st)
            except OutOfScope:
                if not steps:   # the first construction cannot be judged: take the plainest arguments
                    first = {"op": "construct", "srr": srr, ("list" if srr else "arr"): 0, "given": None, "cfg": None}
                continue
            ab = trial
            steps.append(st)
        case["steps"] = steps
        return case

    def targeted_multi(self):
        """several lasers built from the same arguments, every kind, every state-changing call on each of them in turn"""
        for srr in (True, False):
            for nl in ((2, 3) if srr else (1,)):
                names = ["A", "B", "C"]
                arrays, did = [], 1
                for s_ in range(2):
                    for li in range(nl):
                        arrays.append({"shape": [2, 3], "names": names, "dtypes": ["<f8", "<f4", "<f8"],
                                       "ids": [did, did + 2, did + 4]})
                        did += 6
                lists = [list(range(nl)), list(range(nl, 2 * nl)), list(range(nl))] if srr else []
                base = {"mode": "multi", "arrays": arrays, "lists": lists, "cal_objs": [1, 2, 3],
                        "dicts": [[["A", 0], ["C", 1]], [["B", 2]]], "cfgs": [{"scal": 1, "srr": srr}, {"scal": 2, "srr": srr}]}
                con = lambda d, g, c: {"op": "construct", "srr": srr, ("list" if srr else "arr"): d, "given": g, "cfg": c}
                call = lambda i, op: {"op": "call", "laser": i, "call": op}
                data = lambda k: [did + 2 * (k * nl + x) for x in range(nl)]
                add = lambda i, n, k, cal: call(i, {"op": "add", "name": n, "data": data(k), "dtype": "<f8", "cal": cal})
                swap = {"op": "rename", "map": [["A", "B"], ["B", "A"]]}
                chain = {"op": "rename", "map": [["A", "B"], ["B", "C"], ["C", "Q"]]}
                # two lasers from the very same list / array, dict and config: every call on the first, then on the second
                yield {**base, "steps": [con(0, 0, 0), con(0, 0, 0), add(0, "D", 0, {"new": 5}), call(0, swap),
                                         call(0, {"op": "remove", "names": ["A"], "as_str": True}),
                                         call(0, {"op": "rename", "map": [["B", "C"], ["C", "D"], ["D", "Q"]]}),
                                         add(1, "E", 1, None), call(1, chain), call(1, {"op": "remove", "names": ["B", "E"]}),
                                         add(0, "A", 2, {"obj": 3}), add(1, "A", 3, {"obj": 3})]}
                # one call each, right after the second construction (the shortest histories that tell the objects apart)
                for op in (swap, {"op": "remove", "names": ["B"]}, chain):
                    yield {**base, "steps": [con(0, 0, 0), con(0, None, None), call(1, op)]}
                    yield {**base, "steps": [con(0, 0, 0), con(0, 1, 1), call(0, op), call(1, op)]}
                yield {**base, "steps": [con(0, None, 0), con(0, 0, None), add(0, "D", 0, None)]}
                yield {**base, "steps": [con(0, None, 0), con(0, 0, None), add(1, "D", 0, {"new": 7})]}
                # three lasers: two from one list, one from another list object holding the same arrays / from other arrays
                third = 2 if srr else 1
                yield {**base, "steps": [con(0, 0, 0), con(third, 0, 0), con(0, 1, 1), call(2, swap), add(1, "D", 0, None),
                                         call(0, {"op": "remove", "names": ["C", "A"]}), call(1, chain), add(2, "D", 1, {"new": 5})]}
                # the caller edits what it handed to the first laser before building the second from it, and afterwards
                yield {**base, "steps": [con(0, 0, 0), {"op": "edit_cal", "obj": 0, "content": 5},
                                         {"op": "edit_dict", "obj": 0, "entries": [["B", 1]]},
                                         {"op": "edit_cfg", "obj": 0, "content": 3}, con(0, 0, 0),
                                         {"op": "edit_cal", "obj": 1, "content": 7}, {"op": "edit_cfg", "obj": 0, "content": 4},
                                         call(1, swap), call(0, chain)] +
                                        ([{"op": "set_offsets", "obj": 0, "content": 2}] if srr else [])}
                if srr:
                    # the caller's list: replaced, shortened, emptied after the laser was built from it; built again from it
                    yield {**base, "steps": [con(0, 0, 0), {"op": "set_list", "list": 0, "entries": list(range(nl, 2 * nl))},
                                             call(0, swap), con(0, 0, 0), {"op": "set_list", "list": 0, "entries": [0]},
                                             add(0, "D", 0, None), call(1, chain), {"op": "set_list", "list": 0, "entries": []},
                                             call(1, {"op": "remove", "names": ["Q"]})]}
                # one file loaded twice, the first of the loaded lasers edited in between
                yield {**base, "steps": [con(0, 0, 0), call(0, swap), {"op": "load", "laser": 0}, call(1, chain),
                                         add(1, "D", 0, {"new": 5}), {"op": "load", "laser": 0, "reuse_file": True},
                                         call(2, {"op": "remove", "names": ["A"]}), call(1, {"op": "remove", "names": ["D"]})]}
                # saved and loaded mid-history; the saved laser, the loaded one and a twin are edited in turn; loaded again
                yield {**base, "steps": [con(0, 0, 0), con(0, 0, 0), call(0, swap), {"op": "load", "laser": 0}, call(2, chain),
                                         add(0, "D", 0, {"new": 5}), call(1, {"op": "remove", "names": ["C"]}),
                                         {"op": "load", "laser": 2}, add(3, "A", 1, None), call(2, {"op": "remove", "names": ["Q"]}),
                                         {"op": "load", "laser": 1}, call(4, swap)]}

    @staticmethod
    def obj_features(op, err, unchanged, in_scope, srr):
        k = op["op"]
        f = set()
        if err is not None:
            f.add(f"fail:{k}:{err}")
            f.add("fail:state-unchanged" if unchanged else "fail:state-changed")
            return f
        if k == "add":
            c = op["cal"]
            f.add("obj:add:" + ("no-calibration" if c is None else "callers-existing-calibration" if "obj" in c else "new-calibration"))
        elif k in ("remove", "rename", "get"):
            f.add(f"obj:{k}")
        elif k in FOREIGN_EDITS:
            f.add(f"obj:{k}:" + ("construction-object" if in_scope else "object-handed-to-add"))
        else:
            f.add(f"obj:{k}:" + ("no-effect-on-laser" if unchanged else "changes-what-the-laser-holds"))
        return f

    def gen_obj(self, rng, tier):
        kind = rng.choice(KINDS)
        srr = kind.startswith("srr")
        pool = rng.choice(NAME_POOLS)
        n0 = rng.choice([1, 2, 2, 3, 3, 4])
        names = rng.sample(pool, n0)
        nl = rng.choice([2, 2, 3]) if srr else 1
        if srr:
            r = rng.randint(1, 3)
            if kind == "srr_npz":
                shape, shape_odd = [r, r + rng.randint(0, 2)], None
            else:
                r1 = rng.randint(1, 3)
                shape, shape_odd = [r, r1 + rng.randint(0, 2)], [r1, r + rng.randint(0, 2)]
        else:
            shape, shape_odd = [rng.randint(1, 4), rng.randint(1, 4)], None
        did, ids = 1, []
        for _ in range(nl):
            ids.append([did + 2 * j for j in range(n0)])
            did += 2 * n0
        # the caller's Calibration objects: contents 1, 2, ... (sometimes an explicit default one, content 0)
        ncal = rng.randint(0, n0 + 1)
        content = list(range(1, ncal + 1))
        if content and rng.random() < 0.2:
            content[rng.randrange(ncal)] = 0
        cid = ncal + 1
        given = None
        stray = False
        if ncal and rng.random() < 0.8:
            keys = rng.sample(names, rng.randint(0, min(n0, ncal)))
            if rng.random() < (0.15 if not kind.endswith("_npz") else 0.05):
                keys.append(rng.choice([n for n in pool if n not in names] + ["Zz"]))
                stray = True
            given = [[k, rng.randrange(ncal) if rng.random() < 0.25 else j % ncal] for j, k in enumerate(keys)]
        elif rng.random() < 0.5:
            given = []
        dts0, ld = gen_start_dtypes(rng, kind, n0, nl)
        start = {"names": names, "dtypes": dts0, "shape": shape, "ids": ids,
                 "cal_objs": content, "given": given, "cfg": rng.choice([0, 1, 1])}
        if ld is not None:
            start["layer_dtypes"] = ld
        if shape_odd is not None:
            start["shape_odd"] = shape_odd
        widen_start(rng, srr, start)
        # what the caller holds (indices as in ObjWorld / the driver): arrays, calibrations, dicts, configs
        n_arrs = nl
        arr_cols = [n0] * nl
        cal_content = list(content)
        n_dicts = (1 if given is not None else 0) + (1 if kind.endswith("_npz") else 0)
        n_cfgs = (1 if start["cfg"] else 0) + (1 if kind.endswith("_npz") else 0)
        if kind.endswith("_npz"):  # the saved laser's calibrations, one per key of its dict (contents unknown here: never edited in place)
            nsaved = len(set(names) | {k for k, _ in (given or [])})
            cal_content += [None] * nsaved
        offs_tok = [0] * n_cfgs
        present = list(names)
        ops = []
        length = rng.choice([1, 2, 3, 5, 8, 12, 18])
        for _ in range(length):
            absent = [n for n in pool if n not in present]
            choices = ["get", "write_result", "write_result", "write_arr", "fail", "fail"]
            if absent:
                choices += ["add"] * 4
            if present:
                choices += ["remove"] * 2 + ["rename"] * 4
            if cal_content:
                choices += ["edit_cal"] * 2
            if n_dicts:
                choices += ["edit_dict"]
            if n_cfgs:
                choices += ["edit_cfg"]
                if srr:
                    choices += ["set_offsets", "write_offsets"]
            k = rng.choice(choices)
            end = False
            if k == "add":
                u = rng.random()
                if u < 0.35:
                    cal = None
                elif u < 0.7 or not cal_content:
                    cal = {"new": cid}
                    cal_content.append(cid)
                    cid += 1
                else:
                    cal = {"obj": rng.randrange(len(cal_content))}
                dts = gen_add_dtypes(rng, srr, nl)
                op = add_op_dtypes({"op": "add", "name": rng.choice(absent),
                                    "data": gen_widen(rng, srr, start["cfg"], [did + 2 * i for i in range(nl)], dts),
                                    "cal": cal}, dts)
                did += 2 * nl
                n_arrs += nl
                arr_cols += [1] * nl
                present = present + [op["name"]]
            elif k == "remove":
                m = 1 if rng.random() < 0.5 else rng.randint(1, len(present))
                if m == len(present) and rng.random() < 0.7 and len(present) > 1:
                    m -= 1
                ns = rng.sample(present, m)
                op = {"op": "remove", "names": ns, "as_str": m == 1 and rng.random() < 0.5}
                present = [n for n in present if n not in ns]
            elif k == "rename":
                mp = self.gen_rename(rng, present, pool)
                op = {"op": "rename", "map": mp}
                d = dict(map(tuple, mp))
                present = [d.get(n, n) for n in present]
            elif k == "get":
                op = {"op": "get", "layer": rng.randrange(nl), "target": rng.choice([None] + present) if present else None,
                      "calibrate": rng.random() < 0.5}
            elif k == "write_result":
                op = {"op": "write_result", "layer": rng.randrange(nl),
                      "target": rng.choice([None] + present * 3) if present else None,
                      "calibrate": rng.random() < 0.4, "content": did}
                did += 2
            elif k == "write_arr":
                a = rng.randrange(n_arrs)
                op = {"op": "write_arr", "arr": a, "col": rng.randrange(arr_cols[a]), "content": did}
                did += 2
            elif k == "edit_cal":
                j = rng.randrange(len(cal_content))
                old = cal_content[j]
                new = cid if old is None or old == 0 or (cid % 2) == (old % 2) else cid + 1
                cid = new + 1
                cal_content[j] = new
                op = {"op": "edit_cal", "obj": j, "content": new}
            elif k == "edit_dict":
                ks = rng.sample(pool + ["Zz"], rng.randint(0, 3))
                op = {"op": "edit_dict", "obj": rng.randrange(n_dicts),
                      "entries": [[n, rng.randrange(len(cal_content))] for n in ks] if cal_content else []}
            elif k == "edit_cfg":
                op = {"op": "edit_cfg", "obj": rng.randrange(n_cfgs), "content": rng.randint(2, 9)}
            elif k == "set_offsets":
                j = rng.randrange(n_cfgs)
                offs_tok[j] = 2
                op = {"op": "set_offsets", "obj": j}
                op["content"] = 2
            elif k == "write_offsets":
                cands = [j for j in range(n_cfgs) if offs_tok[j] in (0, 1)]
                if not cands:
                    continue
                j = rng.choice(cands)
                offs_tok[j] = 1
                op = {"op": "write_offsets", "obj": j, "content": 1}
            else:
                op, end = self.gen_failing(rng, srr, nl, present, absent, start, did)
                if op is None:
                    continue
                did += 2 * nl
            ops.append(op)
            if end:
                break
        return {"mode": "obj", "kind": kind, "start": start, "ops": ops}

    @staticmethod
    def gen_failing(rng, srr, nl, present, absent, start, did):
        """a call that raises; `end`: it may leave a half-edited laser, the history stops there"""
        kinds = ["add-existing", "add-shape", "remove-absent", "remove-mixed", "remove-twice", "rename-onto-existing",
                 "rename-same-target", "get-absent"]
        if srr:
            kinds += ["add-shape-later-layer", "add-count", "get-layer"]
        k = rng.choice(kinds)
        data = [did + 2 * i for i in range(nl)]
        shapes = [layer_shape(start, li) for li in range(nl)]
        bad = lambda sh: rng.choice([[sh[0] + 1, sh[1]], [sh[1] + 1, sh[0] + 2], [sh[0] * sh[1]], [1, 1] if sh != [1, 1] else [2, 1]])
        if k == "add-existing" and present:
            return {"op": "add", "name": rng.choice(present), "data": data, "dtype": "<f8", "cal": None}, False
        if k == "add-shape" and absent:
            shapes[0] = bad(shapes[0])
            return {"op": "add", "name": rng.choice(absent), "data": data, "dtype": "<f8", "cal": None, "shapes": shapes}, False
        if k == "add-shape-later-layer" and absent:
            j = rng.randrange(1, nl)
            shapes[j] = bad(shapes[j])
            return {"op": "add", "name": rng.choice(absent + present[:1]), "data": data, "dtype": "<f4", "cal": None,
                    "shapes": shapes}, True
        if k == "add-count" and absent:
            m = rng.choice([1, nl - 1, nl + 1])
            return {"op": "add", "name": rng.choice(absent), "data": [did + 2 * i for i in range(m)], "dtype": "<f8",
                    "cal": None, "shapes": [layer_shape(start, li) for li in range(m)]}, False
        if k == "remove-absent" and absent:
            return {"op": "remove", "names": rng.sample(absent, rng.randint(1, min(2, len(absent)))),
                    "as_str": False}, False
        if k == "remove-mixed" and absent and present:
            ns = rng.sample(present, rng.randint(1, len(present))) + [rng.choice(absent)]
            rng.shuffle(ns)
            return {"op": "remove", "names": ns, "as_str": False}, True
        if k == "remove-twice" and present:
            n = rng.choice(present)
            ns = [n, n] + rng.sample([p for p in present if p != n], rng.randint(0, max(0, len(present) - 1)))
            rng.shuffle(ns)
            return {"op": "remove", "names": ns, "as_str": False}, True
        if k == "rename-onto-existing" and len(present) >= 2:
            a, b = rng.sample(present, 2)
            return {"op": "rename", "map": [[a, b]]}, False
        if k == "rename-same-target" and len(present) >= 2 and absent:
            a, b = rng.sample(present, 2)
            return {"op": "rename", "map": [[a, absent[0]], [b, absent[0]]]}, False
        if k == "get-absent" and absent:
            return {"op": "get", "layer": rng.randrange(nl), "target": rng.choice(absent), "calibrate": rng.random() < 0.5}, False
        if k == "get-layer":
            return {"op": "get", "layer": nl + rng.randint(0, 2), "target": rng.choice([None] + present) if present else None,
                    "calibrate": False}, False
        return None, False

    # ---- shrinking
    def first_failing_seq(self, case):
        ctx = core.Ctx()
        try:
            out = self.evaluate(case, ctx)
            if isinstance(out["impl"], dict) and "seq" in out["impl"]:
                return out["impl"]["seq"]
        finally:
            ctx.close()
        return None

    def shrink(self, case):
        if case["mode"] == "multi":
            # any sub-history is a case; one that refers to a laser that no longer exists does not evaluate and is skipped
            steps = case["steps"]
            for n in range(1, len(steps)):
                yield {**case, "steps": steps[:n]}
            for i in range(len(steps)):
                if steps[i]["op"] not in ("construct", "load"):
                    yield {**case, "steps": steps[:i] + steps[i + 1:]}
            return
        if case["mode"] == "tree":
            seq = self.first_failing_seq(case)
            if seq is not None:
                yield {"mode": "seq", "kind": case["kind"], "start": case["start"], "ops": seq}
            return
        ops, start, kind = case["ops"], case["start"], case["kind"]
        if case["mode"] == "obj":
            # any sub-history is a case (the model decides what each call does); object indices must stay in range,
            # a candidate that does not evaluate is skipped by the shrinker
            for n in range(1, len(ops)):
                yield {**case, "ops": ops[:n]}
            for i in range(len(ops)):
                if not (ops[i]["op"] == "add" and ops[i]["cal"] is not None and "new" in ops[i]["cal"]):
                    yield {**case, "ops": ops[:i] + ops[i + 1:]}
            if kind.endswith("_npz") and not any(o["op"].startswith("edit") or o["op"].endswith("offsets") for o in ops):
                yield {**case, "kind": kind[:-4]}
            return
        if len(ops) > 1:  # a prefix (the first failing step is usually early)
            for n in range(1, len(ops)):
                yield {**case, "ops": ops[:n]}
        for i in range(len(ops)):
            cand = ops[:i] + ops[i + 1:]
            if abstract_run(start, cand) is not None:
                yield {**case, "ops": cand}
        if kind.endswith("_npz"):
            yield {**case, "kind": kind[:-4]}
        for i, op in enumerate(ops):
            if op["op"] == "rename" and len(op["map"]) > 1:
                for j in range(len(op["map"])):
                    cand = ops[:i] + [{**op, "map": op["map"][:j] + op["map"][j + 1:]}] + ops[i + 1:]
                    if abstract_run(start, cand) is not None:
                        yield {**case, "ops": cand}
            if op["op"] == "remove" and len(op["names"]) > 1:
                for j in range(len(op["names"])):
                    cand = ops[:i] + [{**op, "names": op["names"][:j] + op["names"][j + 1:]}] + ops[i + 1:]
                    if abstract_run(start, cand) is not None:
                        yield {**case, "ops": cand}
            if op["op"] == "add":  # plainer arrays: one dtype for all layers, native byte order, small values
                if op.get("dtypes"):
                    yield {**case, "ops": ops[:i] + [{k: v for k, v in op.items() if k != "dtypes"}] + ops[i + 1:]}
                nat = [np.dtype(d).newbyteorder("=").str for d in add_dtypes(op, len(op["data"]))]
                if nat != add_dtypes(op, len(op["data"])):
                    yield {**case, "ops": ops[:i] + [add_op_dtypes({k: v for k, v in op.items() if k != "dtypes"}, nat)] + ops[i + 1:]}
                if any(x >= WIDE for x in op["data"]):
                    yield {**case, "ops": ops[:i] + [{**op, "data": [narrow(x) for x in op["data"]]}] + ops[i + 1:]}
        if start.get("layer_dtypes"):
            yield {**case, "start": {k: v for k, v in start.items() if k != "layer_dtypes"}}
        if any(x >= WIDE for l in start["ids"] for x in l):
            yield {**case, "start": {**start, "ids": [[narrow(x) for x in l] for l in start["ids"]]}}


PROP = C07()

if __name__ == "__main__":
    sys.exit(core.main(PROP, "harness.c07"))
