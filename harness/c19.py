"""C19 — library calls never modify caller-owned arguments; results documented as new do not alias them.

Static half (regenerated on every run): harness/effects/translate.py turns every public function and
method of the inventoried modules (inventory taken from the modules' own ASTs) into the effect IR;
the Lean analysis `Pew.Effects.ana` (sound by theorems mayWrite_sound / mayAlias_sound) is run on it
by the driver; its may-write / may-alias report must stay inside the documented mutators / the
reviewed alias baseline.  Dynamic half: the same function is called with generated arguments
(including arguments that make it raise), every argument is deep-snapshotted before and after, and
results are tested with numpy.shares_memory against every argument.  The dynamic half is the search
for a failing input AND the validation of the translator: an observed write must have been predicted.
"""
import copy
import importlib
import inspect
import math
import sys
from pathlib import Path

import numpy as np

from harness import core
from harness.core import Prop, outcome
from harness.effects import translate as T

# documented mutators (and methods whose purpose is to change their own object's state):
# (qualified name, parameter) pairs that MAY be written
ALLOWED_WRITES = {
    ("pewlib.laser.Laser.add", "self"), ("pewlib.laser.Laser.remove", "self"), ("pewlib.laser.Laser.rename", "self"),
    ("pewlib.srr.srr.SRRLaser.add", "self"), ("pewlib.srr.srr.SRRLaser.remove", "self"),
    ("pewlib.srr.srr.SRRLaser.rename", "self"),
    ("pewlib.process.calc.shuffle_blocks", "x"),  # mode="inplace" acts on its image argument
    # object-state setters: they change their own Calibration / SRRConfig object, no caller-owned array, list or dict
    ("pewlib.calibration.Calibration.points.setter", "self"), ("pewlib.calibration.Calibration.weights.setter", "self"),
    ("pewlib.calibration.Calibration.update_linreg", "self"),
    ("pewlib.srr.config.SRRConfig.warmup.setter", "self"), ("pewlib.srr.config.SRRConfig.subpixel_offsets.setter", "self"),
    ("pewlib.srr.config.SRRConfig.set_equal_subpixel_offsets", "self"),
}
# reviewed baseline of results that may share memory with / hold references to an argument: views by
# documentation (view_as_blocks, Laser.get of one element, in-place shuffle), the identity shortcut of
# calibrate, weights_from_weighting(safe=False, "x"), objects that keep what they were constructed from,
# getters returning their object's own attributes, and scalars/strings handed through.
ALIAS_BASELINE = {
    ("pewlib.process.calc.shuffle_blocks", "x"), ("pewlib.process.calc.view_as_blocks", "x"),
    ("pewlib.calibration.weights_from_weighting", "x"),
    ("pewlib.calibration.Calibration.calibrate", "data"), ("pewlib.calibration.Calibration.from_array", "array"),
    ("pewlib.calibration.Calibration.from_points", "points"), ("pewlib.calibration.Calibration.from_points", "unit"),
    ("pewlib.calibration.Calibration.from_points", "weights"),
    ("pewlib.laser.Laser.get", "self"), ("pewlib.laser.Laser.from_list", "config"), ("pewlib.laser.Laser.from_list", "info"),
    ("pewlib.srr.srr.SRRLaser.from_list", "config"), ("pewlib.srr.srr.SRRLaser.from_list", "info"),
    ("pewlib.srr.srr.SRRLaser.from_lasers", "lasers"),
    ("pewlib.io.laser.guess_delay_from_data", "times"), ("pewlib.io.laser.sync_data_nwi_laser_log", "delay"),
    ("pewlib.io.npz.unpack_calibration", "x"), ("pewlib.io.npz.load", "path"), ("pewlib.io.vtk.escape_xml", "string"),
    ("pewlib.config.SpotConfig.from_array", "array"), ("pewlib.srr.config.SRRConfig.from_array", "array"),
    ("pewlib.config.Config.from_array", "array"),  # config objects keep 0-d views of the record they were read from
}


def alias_allowed(name, param, kind):
    if (name, param) in ALIAS_BASELINE:
        return True
    if kind == "constructor":
        return True  # an object keeps (references to) what it was built from
    return param == "self" and kind == "method" and name.split(".")[-1] in GETTERS


GETTERS = {"x", "y", "points", "weights", "get_pixel_width", "get_pixel_height"}


# ----------------------------------------------------------------------------- snapshots
def snap(o, depth=0):
    if depth > 6:
        return "..."
    if isinstance(o, np.ndarray):
        return ("nd", str(o.dtype), o.shape, o.tobytes())
    if isinstance(o, (list, tuple)):
        return (type(o).__name__, [snap(x, depth + 1) for x in o])
    if isinstance(o, dict):
        return ("dict", [(snap(k, depth + 1), snap(v, depth + 1)) for k, v in o.items()])
    if isinstance(o, (str, bytes, int, float, bool, type(None), Path, np.generic)):
        return ("s", repr(o))
    if hasattr(o, "__dict__"):
        return (type(o).__name__, [(k, snap(v, depth + 1)) for k, v in sorted(vars(o).items())])
    return ("o", repr(o))


def arrays_of(o, depth=0, out=None):
    out = [] if out is None else out
    if depth > 6:
        return out
    if isinstance(o, np.ndarray):
        out.append(o)
    elif isinstance(o, (list, tuple)):
        for x in o:
            arrays_of(x, depth + 1, out)
    elif isinstance(o, dict):
        for v in o.values():
            arrays_of(v, depth + 1, out)
    elif hasattr(o, "__dict__") and not inspect.isclass(o) and not inspect.ismodule(o):
        for v in vars(o).values():
            arrays_of(v, depth + 1, out)
    return out


def containers_of(o, depth=0, out=None):
    """mutable containers (lists, dicts) reachable from o, by identity"""
    out = [] if out is None else out
    if depth > 4:
        return out
    if isinstance(o, (list, dict)):
        out.append(o)
        for x in (o.values() if isinstance(o, dict) else o):
            containers_of(x, depth + 1, out)
    elif isinstance(o, tuple):
        for x in o:
            containers_of(x, depth + 1, out)
    elif hasattr(o, "__dict__") and not inspect.isclass(o) and not inspect.ismodule(o):
        for v in vars(o).values():
            containers_of(v, depth + 1, out)
    return out


# ----------------------------------------------------------------------------- argument factories
class Maker:
    def __init__(self, rng, tmp):
        self.rng, self.tmp = rng, tmp
        self.np_rng = np.random.RandomState(rng.randint(0, 2 ** 31 - 1))

    def arr(self, shape, nan=0.1):
        r = self.rng.random()
        if r < 0.12:  # a 0/1 mask or an already normalised image: exact minimum 0 and maximum 1
            a = (self.np_rng.random_sample(shape) < 0.5).astype(np.float64)
            a.flat[0], a.flat[-1] = 0.0, 1.0
            if self.rng.random() < 0.5 and a.size > 2:
                a.flat[1:-1] = self.np_rng.randint(0, 9, size=a.size - 2) / 8
            return a
        if r < 0.2:  # constant / all zero
            return np.full(shape, self.rng.choice([0.0, 1.0, 3.5]))
        a = self.np_rng.randint(1, 40, size=shape).astype(np.float64) / 4
        if nan and self.rng.random() < 0.3:
            m = self.np_rng.random_sample(shape) < nan
            a[m] = np.nan
        return a

    def struct(self, shape, names=("A", "B")):
        s = np.empty(shape, dtype=[(n, np.float64) for n in names])
        for n in names:
            s[n] = self.arr(shape, nan=0)
        return s

    def calibration(self):
        from pewlib import Calibration

        k = self.rng.choice([0, 1, 2])
        if k == 0:
            return Calibration()
        if k == 1:
            return Calibration(intercept=1.5, gradient=2.0, unit="ppm")
        pts = np.array([[0.0, 1.0], [1.0, 3.0], [2.0, 5.5], [4.0, 8.0]])
        return Calibration.from_points(pts, unit="ppb", weights=self.rng.choice(["Equal", "1/x", "x"]))

    def laser(self, shape=(5, 6)):
        from pewlib import Config, Laser

        names = ("A", "B")
        return Laser(self.struct(shape, names), calibration={n: self.calibration() for n in names},
                     config=Config(10.0, 20.0, 0.25),
                     info=self.rng.choice([{"Name": "t", "k": "v"}, {"Name": "t", "File Path": "/x/y.npz", "File Version": "0.1"}]))

    def srrlaser(self):
        from pewlib.srr import SRRConfig, SRRLaser

        cfg = SRRConfig(10.0, 20.0, 0.25, warmup=0.0)
        layers = [self.struct((4, 12)), self.struct((4, 12))]
        return SRRLaser(layers, calibration={"A": self.calibration()}, config=cfg, info={"Name": "s"})

    def config(self, kind="Config"):
        from pewlib import Config
        from pewlib.config import SpotConfig
        from pewlib.srr import SRRConfig

        if kind == "SRRConfig":
            return SRRConfig(10.0, 20.0, 0.25, warmup=self.rng.choice([0.0, 0.5]))
        if kind == "SpotConfig":
            return SpotConfig(10.0, 12.0)
        return Config(10.0, 20.0, 0.25)


def qual_to_callable(qual, kind):
    parts = qual.split(".")
    for i in range(len(parts), 0, -1):
        try:
            mod = importlib.import_module(".".join(parts[:i]))
            rest = parts[i:]
            break
        except ModuleNotFoundError:
            continue
    obj = mod
    for r in rest:
        if r == "setter":
            break
        obj = getattr(obj, r) if not isinstance(obj, type) else inspect.getattr_static(obj, r)
    return obj, rest


def build_args(mk: Maker, qual, pnames, fn_sig):
    """returns {param name: value}; raises KeyError when no factory is known"""
    rng = mk.rng
    short = qual.split(".")[-1]
    mod = qual.rsplit(".", 1)[0]
    one_d = "convolve" in qual or short in ("local_maxima", "reset_cumsum", "weights_from_weighting", "weighted_rsq",
                                            "weighted_linreg")
    vals = {}
    for name in pnames:
        ann = fn_sig.get(name) or ""
        if name == "self":
            cls = qual.split(".")[-2] if not qual.endswith(".setter") else qual.split(".")[-3]
            vals[name] = {"Laser": mk.laser, "SRRLaser": mk.srrlaser, "Calibration": mk.calibration,
                          "Config": lambda: mk.config("Config"), "SpotConfig": lambda: mk.config("SpotConfig"),
                          "SRRConfig": lambda: mk.config("SRRConfig")}[cls]()
        elif name in ("cls", "kwargs"):
            continue
        elif name in ("x", "y", "a", "b", "data", "array", "psf", "w", "mask", "points", "times", "offsets") and "ndarray" in ann \
                and "list" not in ann:
            if short in ("from_array",):
                cls = qual.split(".")[-2]
                src = {"Calibration": mk.calibration, "Config": lambda: mk.config("Config"),
                       "SpotConfig": lambda: mk.config("SpotConfig"), "SRRConfig": lambda: mk.config("SRRConfig")}[cls]()
                vals[name] = src.to_array()
            elif name == "points":
                vals[name] = np.array([[0.0, 1.0], [1.0, 2.5], [2.0, np.nan if rng.random() < 0.3 else 4.0], [4.0, 9.0]])
            elif short == "Laser":
                vals[name] = mk.struct((5, 6))
            elif short == "unpack_calibration":
                from pewlib.io import npz
                vals[name] = npz.pack_calibration({"A": mk.calibration(), "B": mk.calibration()})
            elif name == "mask":
                vals[name] = rng.choice([None, mk.np_rng.random_sample((7, 8)) > 0.3])
            elif name == "psf":
                vals[name] = np.array([0.25, 0.5, 0.25])
            elif name == "w":
                vals[name] = rng.choice([None, np.array([1.0, 2.0, 1.0, 0.5, 1.0, 1.0, 2.0, 1.0])])
            elif short == "add":
                vals[name] = mk.arr((5, 6), nan=0)
            elif short in ("krisskross", "subpixel_offset", "subpixel_offset_equal"):
                vals[name] = mk.arr((4, 5, 3), nan=0)
            elif short in ("guess_delay_from_data", "sync_data_nwi_laser_log"):
                vals[name] = mk.struct((40,)) if name == "data" else np.arange(40.0) * 0.1
            elif short == "save" and "vtk" in qual:
                vals[name] = mk.struct((4, 5))
            elif short == "valid_for_data":
                vals[name] = [mk.struct((4, 12)), mk.struct((4, 12))]
            else:
                vals[name] = mk.arr((8,) if one_d else (7, 8))
        elif name == "layers" and "list[list" in ann:
            vals[name] = [[mk.arr((4, 12), 0), mk.arr((4, 12), 0)], [mk.arr((4, 12), 0), mk.arr((4, 12), 0)]]
        elif "list[np.ndarray]" in ann or name in ("arrays", "datas"):
            if short == "add" and "SRR" in qual:
                vals[name] = [mk.arr((4, 12), nan=0), mk.arr((4, 12), nan=0)]
            elif short in ("SRRLaser",):
                vals[name] = [mk.struct((4, 12)), mk.struct((4, 12))]
            elif "structured" in short:
                vals[name] = [mk.struct((3, 4), ("A", "B")), mk.struct((2, 3), ("B", "C"))]
            else:
                vals[name] = [mk.arr((3, 4)), mk.arr((2, 3))] if short != "from_list" else [mk.arr((3, 4), 0), mk.arr((3, 4), 0)]
        elif name == "layers" and "list[list" in ann:
            vals[name] = [[mk.arr((4, 12), 0), mk.arr((4, 12), 0)], [mk.arr((4, 12), 0), mk.arr((4, 12), 0)]]
        elif name == "lasers":
            vals[name] = [mk.laser((4, 12)), mk.laser((4, 12))]
        elif name == "laser":
            vals[name] = rng.choice([mk.laser, mk.srrlaser])()
        elif name == "offsets":
            vals[name] = [(0, 0), (1, 1)] if "overlap" in short else rng.choice([[(0, 0), (1, 1)], [(1, 2), (2, 2)], [0, 1]])
        elif name == "elements":
            vals[name] = ["A", "B"]
        elif name == "element":
            vals[name] = rng.choice(["A", None]) if "None" in ann else ("C" if short == "add" else "A")
        elif name == "names":
            vals[name] = {"A": "Z"} if "dict" in ann else rng.choice(["A", ["A"], ["B", "A"], ["missing"]])
        elif name in ("calibration",):
            vals[name] = rng.choice([None, mk.calibration()]) if "dict" not in ann else rng.choice([None, {"A": mk.calibration()}])
        elif name == "dict":
            vals[name] = {"A": mk.calibration(), "B": mk.calibration()}
        elif name == "config":
            vals[name] = rng.choice([None, mk.config("SRRConfig" if "SRR" in (ann + qual) else "Config")]) if "None" in ann \
                else mk.config("SRRConfig")
        elif name == "info":
            vals[name] = rng.choice([{}, {"Name": "x", "a\tb": "c\td"}, {"File Path": "/p", "Name": "n"}]) if "None" not in ann \
                else rng.choice([None, {"k": "v"}, {"File Path": "/p"}])
        elif name in ("path", "log_path", "log_file"):
            vals[name] = "PATH"
        elif name == "block":
            vals[name] = 3 if "tuple" not in ann else ((3,) if one_d else rng.choice([(2, 2), (3, 3), (3, 2)]))
            if short in ("rolling_mean", "rolling_median"):
                vals[name] = rng.choice([3, (3, 3), (3, 5)])
        elif name == "step":
            vals[name] = None
        elif name == "mode":
            vals[name] = {"shuffle_blocks": rng.choice(["pad", "inplace", "bogus"]), "overlap_arrays": rng.choice(["replace", "mean", "sum"]),
                          "overlap_structured_arrays": rng.choice(["replace", "mean", "sum"]),
                          "convolve": rng.choice(["pad", "same", "full"]), "deconvolve": rng.choice(["valid", "same"])}.get(short, "pad")
        elif name == "weighting":
            vals[name] = rng.choice(["Equal", "x", "1/x", "1/(x^2)", "bogus"])
        elif name == "weights":
            vals[name] = rng.choice(["Equal", "1/x", ("custom", np.array([1.0, 2.0, 1.0, 0.5]))])
        elif name == "anchor":
            vals[name] = rng.choice(["top left", "top right", "bottom left", "bottom right", "center"])
        elif name == "extent":
            vals[name] = rng.choice([None, (0.0, 10.0, 0.0, 20.0)])
        elif name == "shape":
            vals[name] = (5, 6)
        elif name == "spacing":
            vals[name] = (1.0, 2.0, 1.0)
        elif name == "pixelsize":
            vals[name] = 2 if "tuple" not in ann else (2, 2)
        elif name == "subpixel_offsets":
            vals[name] = [(0, 1), (1, 2)]
        elif name == "sequence":
            vals[name] = rng.choice([None, 1])
        elif name == "remove_keys":
            vals[name] = rng.choice([None, ["k"]])
        elif name in ("layer",):
            vals[name] = rng.choice([None, 0, 1])
        elif name == "size":
            vals[name] = rng.choice([None, 6]) if "None" in ann else rng.choice([5, 12])
        elif name in ("n", "n_scrambles", "width"):
            vals[name] = 2
        elif name in ("va", "vb"):
            vals[name] = rng.choice(["0.8.0", "0.10.2", "1"])
        elif name in ("unit", "sep", "comments", "header", "string", "name", "delimiter"):
            vals[name] = {"sep": "\t", "comments": "#", "header": "h", "string": "a<b&\"c", "unit": "ppm"}.get(name, None if "None" in ann else "x")
        elif "bool" in ann:
            vals[name] = rng.choice([True, False])
        elif ann.startswith("float") or ann.startswith("int"):
            vals[name] = {"threshold": 3.0, "fill": rng.choice([np.nan, 0.0]), "gradient": 2.0, "intercept": 0.5,
                          "vmin": 0.0, "vmax": 2.0, "reset_value": 0.0, "scale": 1.0, "shift": 0.0, "sigma": 1.0, "mu": 0.0,
                          "alpha": 2.0, "beta": 3.0, "_lambda": 1.0, "a": -1.0, "b": 1.0, "power": 2.0, "target_r": 0.0,
                          "spotsize": 10.0, "speed": 20.0, "scantime": 0.25, "warmup": 0.5, "seconds": 0.5,
                          "x": 0.5, "spotsize_y": 12.0}.get(name, 1.0)
            if "None" in ann and rng.random() < 0.4:
                vals[name] = None
        else:
            raise KeyError(f"no factory for {qual}({name}: {ann})")
    return vals


class C19(Prop):
    id = "C19"
    anchored = ["src/pewlib/" + m.split("pewlib.")[1].replace(".", "/") + ".py" for m in T.INVENTORY_MODULES]
    cases = {"quick": 500, "thorough": 6000}
    rule = ("one targeted case per inventoried public function/method (static obligation for every parameter + one dynamic call), "
            "then random (function, argument seed) pairs; non-trivial = the call actually ran pewlib code with at least one "
            "array/list/dict/object argument; distinct by (function, argument seed)")
    trusted = ["harness/effects/translate.py (Python AST -> effect IR) and its tables of NumPy/stdlib calls returning fresh memory, "
               "views, or writing an argument; `.copy()` is assumed to be ndarray.copy; duck-typed method calls are resolved by name "
               "over pewlib's own classes; a parameter and everything reachable from it is one region (own/reach split)",
               "the theorems are about the IR semantics (Pew.Effects.Exec); fidelity of the translation is validated only by the "
               "dynamic snapshot run: every observed write / memory sharing must have been predicted by the analysis"]
    assumptions = ["writes performed inside C extensions on buffers the table calls fresh are not visible",
                   "ALLOWED_WRITES / ALIAS_BASELINE in harness/c19.py are the documented mutators and the reviewed alias baseline"]

    def __init__(self):
        self._inv = None

    def inv(self):
        if self._inv is None:
            res = T.translate_all(core.REPO)
            prog = T.Program(core.REPO, T.INVENTORY_MODULES)
            sigs = {}
            for q, mod, fn, ck, ctor in T.inventory(prog):
                sigs[q] = {n: a for n, a in T.Translator.param_names(fn)}
            self._inv = {f["name"]: dict(f, sig=sigs[f["name"]]) for f in res}
        return self._inv

    def extra_evidence(self):
        """the per-(function, parameter) obligations computed by the Lean analysis on the regenerated IR"""
        d = core.Driver()
        try:
            n = ok = 0
            broken, unknown_calls = [], []
            for name, f in sorted(self.inv().items()):
                rep = d.call("c19.analyse", np=f["np"], prog=f["ir"])
                w = {f["params"][i] for i in rep["write"]}
                r = {f["params"][i] for i in rep["ret"]}
                unknown_calls += [f"{name}: {x}" for x in f["diag"]]
                for p in f["params"]:
                    n += 1
                    good = (p not in w or (name, p) in ALLOWED_WRITES) and (p not in r or alias_allowed(name, p, f["kind"]))
                    ok += good
                    if not good:
                        broken.append(f"{name}({p})")
        finally:
            d.close()
        return {"obligations": n, "discharged": ok,
                "coverage": {"inventoried_functions": len(self.inv()), "function_parameter_obligations": n,
                             "obligations_broken": broken[:50], "translator_unknown_calls": sorted(set(unknown_calls))[:50]}}

    def targeted(self, tier):
        for name in sorted(self.inv()):
            yield {"func": name, "aseed": 0}

    def generate(self, rng, tier):
        names = sorted(self.inv())
        return {"func": rng.choice(names), "aseed": rng.randint(1, 10 ** 6)}

    def known(self, case, out):
        return None

    # ------------------------------------------------------------------
    def evaluate(self, case, ctx):
        import random

        inv = self.inv()
        if case["func"] not in inv:
            # the function no longer exists (inventory is derived from the modules themselves): nothing to observe
            return outcome({"absent": True}, {"absent": True}, {"absent": True}, features=[])
        f = inv[case["func"]]
        name, kind, pnames = f["name"], f["kind"], f["params"]
        rep = ctx.driver.call("c19.analyse", np=f["np"], prog=f["ir"])
        st_w = sorted(pnames[i] for i in rep["write"])
        st_r = sorted(pnames[i] for i in rep["ret"])
        bad_w = [p for p in st_w if (name, p) not in ALLOWED_WRITES]
        bad_r = [p for p in st_r if not alias_allowed(name, p, kind)]
        model = {"static_write_outside_allowed": bad_w, "static_alias_outside_baseline": bad_r}
        # ---- dynamic call
        rng = random.Random(f"c19:{name}:{case['aseed']}")
        tmp = ctx.tmpdir()
        mk = Maker(rng, tmp)
        feats = {"kind:" + kind}
        try:
            args = build_args(mk, name, pnames, f["sig"])
        except KeyError as e:
            raise core.InternalError(str(e))
        args = self.paths(name, args, mk, tmp)
        before = {k: snap(v) for k, v in args.items()}
        raised = None
        result = None
        import warnings
        warnings.simplefilter("ignore")
        np.seterr(all="ignore")
        saved_perm = np.random.get_state()
        np.random.seed(rng.randint(0, 2 ** 31 - 1))
        try:
            result = self.invoke(name, kind, args)
        except Exception as e:  # arguments that make the call fail are part of the quantifier
            raised = type(e).__name__
        finally:
            np.random.set_state(saved_perm)
        after = {k: snap(v) for k, v in args.items()}
        changed = sorted(k for k in args if before[k] != after[k])
        aliased = []
        if raised is None and result is not None:
            res_arrays = arrays_of(result)
            res_conts = containers_of(result)
            for k, v in args.items():
                arr_hit = any(np.shares_memory(ra, aa) for ra in res_arrays for aa in arrays_of(v) if ra.size and aa.size)
                cont_hit = any(rc is ac for rc in res_conts for ac in containers_of(v))
                if arr_hit or cont_hit or (result is v and isinstance(v, (np.ndarray, list, dict))):
                    aliased.append(k)
        bad_changed = [p for p in changed if (name, p) not in ALLOWED_WRITES]
        bad_aliased = [p for p in sorted(aliased) if not alias_allowed(name, p, kind)]
        unpredicted = [p for p in changed if p not in st_w] + [p for p in aliased if p not in st_r and p in pnames]
        impl = {"changed_outside_allowed": bad_changed, "aliased_outside_baseline": bad_aliased,
                "raised": raised is not None}
        spec = {"changed_outside_allowed": [], "aliased_outside_baseline": [], "raised": raised is not None}
        feats.add("raised" if raised else "returned")
        if any(isinstance(v, (np.ndarray, list, dict)) or hasattr(v, "__dict__") for v in args.values()):
            feats.add("has-mutable-arg")
        if changed:
            feats.add("documented-mutation-observed")
        if aliased:
            feats.add("alias-observed")
        model_ok = not bad_w and not bad_r and not unpredicted
        note = ""
        if unpredicted:
            note = f"dynamic effect not predicted by the analysis (translator/table unsound?): {unpredicted}"
        elif bad_w or bad_r:
            note = f"obligation broken: analysis reports may-write {bad_w} / may-alias {bad_r} for {name}"
        model["unpredicted"] = unpredicted
        return outcome(impl, model, spec, spec_ok=(not bad_changed and not bad_aliased), model_ok=model_ok,
                       features=feats if "has-mutable-arg" in feats else [], note=note)

    def paths(self, name, args, mk, tmp):
        """replace the PATH placeholders by real files / destinations under the private temp dir"""
        from pewlib.io import npz, textimage

        for k, v in list(args.items()):
            if not (isinstance(v, str) and v == "PATH"):
                continue
            if name.endswith("npz.load"):
                p = tmp / "in.npz"
                npz.save(p, mk.laser())
            elif name.endswith("npz.save"):
                p = tmp / "out.npz"
            elif name.endswith("textimage.load"):
                p = tmp / "in.csv"
                textimage.save(p, mk.arr((3, 4), 0))
            elif name.endswith("textimage.save"):
                p = tmp / "out.csv"
            elif name.endswith("vtk.save"):
                p = tmp / "out.vti"
            elif "io.laser" in name:
                p = tmp / "log.csv"
                p.write_text(NWI_LOG)
                if k == "log_file" and mk.rng.random() < 0.5:
                    from pewlib.io import laser as iolaser

                    p = iolaser.read_nwi_laser_log(p)
            else:
                p = tmp / "x"
            args[k] = p
        return args

    def invoke(self, name, kind, args):
        obj, rest = qual_to_callable(name, kind)
        a = dict(args)
        if name.endswith(".setter"):
            selfv = a.pop("self")
            (pname, val), = a.items()
            setattr(selfv, rest[-2], val)
            return None
        if kind == "constructor":
            return obj(**a)
        if kind == "method":
            cls_name, meth = rest[-2], rest[-1]
            raw = obj
            if isinstance(raw, property):
                return raw.fget(a["self"])
            if isinstance(raw, classmethod):
                cls = getattr(importlib.import_module(name.rsplit(".", 2)[0]), cls_name)
                a.pop("cls", None)
                return getattr(cls, meth)(**a)
            if isinstance(raw, staticmethod):
                return raw.__func__(**a)
            selfv = a.pop("self")
            return getattr(selfv, meth)(**a)
        return obj(**a)

    def shrink(self, case):
        if case["aseed"] != 0:
            yield {**case, "aseed": 0}


NWI_LOG = (
    "Timestamp, Sequence Number, SubPoint Number, Vertix Number, Comment, X(um), Y(um), Intended X(um), Intended Y(um), "
    "Scan Velocity (um/s), Laser State, Laser Rep. Rate (Hz), Spot Type, Spot Size (um), Spot Angle, MFC1, MFC2, Cell Pressure, Cell Flow\n"
    "2023-01-01 00:00:00.000,1,1,1,p1,100.0000,200.0000,100.0000,200.0000,10.0,On,100,Square,10 x 10,0,1,1,1,1\n"
    "2023-01-01 00:00:01.000,,1,2,,140.0000,200.0000,140.0000,200.0000,10.0,Off,100,Square,10 x 10,0,1,1,1,1\n"
    "2023-01-01 00:00:02.000,,2,1,,100.0000,210.0000,100.0000,210.0000,10.0,On,100,Square,10 x 10,0,1,1,1,1\n"
    "2023-01-01 00:00:03.000,,2,2,,140.0000,210.0000,140.0000,210.0000,10.0,Off,100,Square,10 x 10,0,1,1,1,1\n"
)

PROP = C19()

if __name__ == "__main__":
    sys.exit(core.main(PROP, "harness.c19"))
