"""C19 — library calls never modify caller-owned arguments; results documented as new do not alias them.

Static half (regenerated on every run): harness/effects/translate.py turns every public function and
method of the inventoried modules (inventory taken from the modules' own ASTs) into the effect IR, and every public class
into its call-history programs (constructor / classmethod constructor, then any sequence of its members on the object);
the Lean analysis `Pew.Effects.ana` (sound by theorems mayWrite_sound / mayAlias_sound) is run on it
by the driver; its may-write / may-alias report must stay inside the documented mutators / the
reviewed alias baseline.  Dynamic half: the same function is called with generated arguments
(including arguments that make it raise), every argument is deep-snapshotted before and after, and
results are tested with numpy.shares_memory against every argument.  The dynamic half is the search
for a failing input AND the validation of the translator: an observed write must have been predicted.
"""
import copy
import importlib
import inspect
import math
import sys
from pathlib import Path
from xml.etree import ElementTree

import numpy as np

from harness import core
from harness.core import Prop, outcome
from harness.effects import observe
from harness.effects import translate as T
from harness.effects.tests import run as REG

# (qualified name, parameter) pairs the STATIC half may report as possibly written, each with its kind and reason.
#   kind "mutator": named by the property text ("a laser's own add/remove/rename and the in-place shuffle mode acting on its
#                   image argument"): the dynamic half accepts any change of that argument too.
#   kind "setter":  NOT named by the property text.  The property protects "any array, list or dictionary passed"; these
#                   methods assign attributes of their receiver (a Calibration / SRRConfig object) to NEW arrays / numbers,
#                   which the static analysis, having one region per argument, reports as may-write(self).  No array, list
#                   or dict reachable from the receiver when the call starts is modified in place; the dynamic half checks
#                   exactly that on every call (identity-based content snapshots of every array / list / dict / set
#                   reachable from every argument, `observe.inner_snapshot`), so a setter that wrote INTO the previous
#                   `_points` array, say, is reported.  Only the rebinding of the receiver's own attributes is accepted.
ALLOWED_WRITES = {
    ("pewlib.laser.Laser.add", "self"): ("mutator", "documented mutator: a laser's own add"),
    ("pewlib.laser.Laser.remove", "self"): ("mutator", "documented mutator: a laser's own remove"),
    ("pewlib.laser.Laser.rename", "self"): ("mutator", "documented mutator: a laser's own rename"),
    ("pewlib.srr.srr.SRRLaser.add", "self"): ("mutator", "documented mutator: a laser's own add (SRR laser)"),
    ("pewlib.srr.srr.SRRLaser.remove", "self"): ("mutator", "documented mutator: a laser's own remove (SRR laser)"),
    ("pewlib.srr.srr.SRRLaser.rename", "self"): ("mutator", "documented mutator: a laser's own rename (SRR laser)"),
    ("pewlib.process.calc.shuffle_blocks", "x"): ("mutator", "documented mutator: mode='inplace' acts on its image argument"),
    ("pewlib.calibration.Calibration.points.setter", "self"):
        ("setter", "`cal.points = p` binds self._points to a new array (np.array copy / stack) and refits: attribute rebinding only"),
    ("pewlib.calibration.Calibration.weights.setter", "self"):
        ("setter", "`cal.weights = w` binds self._weights / self._weighting to new values: attribute rebinding only"),
    ("pewlib.calibration.Calibration.update_linreg", "self"):
        ("setter", "stores the fit results (gradient, intercept, rsq, error: numbers) in its own object: attribute rebinding only"),
    ("pewlib.srr.config.SRRConfig.warmup.setter", "self"):
        ("setter", "`cfg.warmup = s` binds self._warmup to a new integer: attribute rebinding only"),
    ("pewlib.srr.config.SRRConfig.subpixel_offsets.setter", "self"):
        ("setter", "binds self._subpixel_size / self._subpixel_offsets to newly computed arrays: attribute rebinding only"),
    ("pewlib.srr.config.SRRConfig.set_equal_subpixel_offsets", "self"):
        ("setter", "binds self._subpixel_offsets / self._subpixel_size to new values: attribute rebinding only"),
}


def dyn_write_allowed(name, param):
    """the dynamic half accepts an observed change of (the attribute bindings of) this argument"""
    return (name, param) in ALLOWED_WRITES


def dyn_inner_write_allowed(name, param):
    """... and of the arrays / lists / dicts that were reachable from it when the call started: documented mutators only"""
    e = ALLOWED_WRITES.get((name, param))
    return e is not None and e[0] == "mutator"


# reviewed baseline of results that may share memory with / hold references to an argument: views by
# documentation (view_as_blocks, Laser.get of one element, in-place shuffle), the identity shortcut of
# calibrate, weights_from_weighting(safe=False, "x"), objects that keep what they were constructed from,
# getters returning their object's own attributes, and scalars/strings handed through.
ALIAS_BASELINE = {
    ("pewlib.process.calc.shuffle_blocks", "x"), ("pewlib.process.calc.view_as_blocks", "x"),
    ("pewlib.calibration.weights_from_weighting", "x"),
    ("pewlib.calibration.Calibration.calibrate", "data"), ("pewlib.calibration.Calibration.from_array", "array"),
    ("pewlib.calibration.Calibration.from_points", "points"), ("pewlib.calibration.Calibration.from_points", "unit"),
    ("pewlib.calibration.Calibration.from_points", "weights"),
    ("pewlib.laser.Laser.get", "self"), ("pewlib.laser.Laser.from_list", "config"), ("pewlib.laser.Laser.from_list", "info"),
    ("pewlib.srr.srr.SRRLaser.from_list", "config"), ("pewlib.srr.srr.SRRLaser.from_list", "info"),
    ("pewlib.srr.srr.SRRLaser.from_lasers", "lasers"),
    ("pewlib.io.laser.guess_delay_from_data", "times"), ("pewlib.io.laser.sync_data_nwi_laser_log", "delay"),
    ("pewlib.io.npz.unpack_calibration", "x"), ("pewlib.io.npz.load", "path"), ("pewlib.io.vtk.escape_xml", "string"),
    ("pewlib.config.SpotConfig.from_array", "array"), ("pewlib.srr.config.SRRConfig.from_array", "array"),
    ("pewlib.config.Config.from_array", "array"),  # config objects keep 0-d views of the record they were read from
}


# (function, parameter) pairs for which only the DYNAMIC half applies: the static analysis reports a possible write /
# alias that cannot be excluded from the source alone, for the sound reason given.  Unlike ALLOWED_WRITES /
# ALIAS_BASELINE these entries permit nothing at run time: a change of the argument or shared memory observed in the
# dynamic calls is still a violation.  kinds: "write" = may-write report waived, "alias" = may-alias report waived.
UNPROVED_STATIC = {
    # --- a function-valued parameter is called: a user callback may do anything to itself and to what it receives
    ("pewlib.process.peakfinding.cwt", "wavelet"): ("write", "the caller's wavelet function is called (its own state is its business)"),
    ("pewlib.process.peakfinding.cwt", "windows"): ("write", "wavelet(n, windows[i]): the caller's function receives an element of `windows`"),
    ("pewlib.process.peakfinding.find_peaks_windowed", "baseline"): ("write", "the caller's baseline function is called (on a fresh padded copy of x)"),
    ("pewlib.process.peakfinding.find_peaks_windowed", "threshold"): ("write", "the caller's threshold function is called (on a fresh padded copy of x)"),
    ("pewlib.io.imzml.fast_parse_imzml", "callback"): ("write", "the caller's progress callback is called with the file position"),
    # --- object state that is not an array, list or dict
    ("pewlib.io.imzml.Spectrum.get_binary_data", "external_binary"): ("write", "seek/read on the caller's open file handle moves its position; no array, list or dict is touched"),
    # --- results that hold the caller's immutable objects (Path, tuple): the analysis has one region per argument and
    #     cannot tell the (new) list from the (shared, immutable) items
    ("pewlib.io.csv.GenericOption.filter", "paths"): ("alias", "a new list of the caller's Path objects"),
    ("pewlib.io.csv.GenericOption.sort", "paths"): ("alias", "a new sorted list of the caller's Path objects"),
    ("pewlib.io.csv.GenericOption.sortkey", "path"): ("alias", "the sort key of the generic option is the Path itself"),
    ("pewlib.io.imzml.ImzML.image_size", "self"): ("alias", "returns the (int, int) tuple kept in its scan settings"),
    ("pewlib.io.imzml.load", "imzml"): ("alias", "the parameter dict holds the pixel-size tuple of a pre-parsed ImzML argument"),
    # --- NumPy semantics finer than the fresh/view table
    ("pewlib.process.peakfinding.filter_peaks", "peaks"): ("alias", "peaks[~bad] is boolean-mask indexing (always a copy); the translator treats every subscript as a view"),
}


def static_waived(name, param, kind):
    e = UNPROVED_STATIC.get((name, param))
    return e is not None and kind in e[0].split("+")


def alias_allowed(name, param, kind):
    if (name, param) in ALIAS_BASELINE:
        return True
    if kind == "constructor":
        return True  # an object keeps (references to) what it was built from
    return param == "self" and kind == "method" and name.split(".")[-1] in GETTERS


GETTERS = {"x", "y", "points", "weights", "get_pixel_width", "get_pixel_height"}


# ----------------------------------------------------------------------------- observation (harness/effects/observe.py)
snap = observe.snap


# ----------------------------------------------------------------------------- argument factories
class Maker:
    def __init__(self, rng, tmp):
        self.rng, self.tmp = rng, tmp
        self.np_rng = np.random.RandomState(rng.randint(0, 2 ** 31 - 1))
        self.handles = []  # open files handed to the call; closed after the case

    def arr(self, shape, nan=0.1):
        r = self.rng.random()
        if r < 0.12:  # a 0/1 mask or an already normalised image: exact minimum 0 and maximum 1
            a = (self.np_rng.random_sample(shape) < 0.5).astype(np.float64)
            a.flat[0], a.flat[-1] = 0.0, 1.0
            if self.rng.random() < 0.5 and a.size > 2:
                a.flat[1:-1] = self.np_rng.randint(0, 9, size=a.size - 2) / 8
            return a
        if r < 0.2:  # constant / all zero
            return np.full(shape, self.rng.choice([0.0, 1.0, 3.5]))
        a = self.np_rng.randint(1, 40, size=shape).astype(np.float64) / 4
        if nan and self.rng.random() < 0.3:
            m = self.np_rng.random_sample(shape) < nan
            a[m] = np.nan
        return a

    def struct(self, shape, names=("A", "B"), nan=0.1):
        s = np.empty(shape, dtype=[(n, np.float64) for n in names])
        holes = nan and self.rng.random() < 0.2  # now and then an image with missing values (NaN) in every element
        for n in names:
            s[n] = self.arr(shape, nan=0)
            if holes:
                s[n][self.np_rng.random_sample(shape) < nan] = np.nan
        return s

    def calibration(self):
        from pewlib import Calibration

        k = self.rng.choice([0, 1, 2])
        if k == 0:
            return Calibration()
        if k == 1:
            return Calibration(intercept=1.5, gradient=2.0, unit="ppm")
        pts = np.array([[0.0, 1.0], [1.0, 3.0], [2.0, 5.5], [4.0, 8.0]])
        return Calibration.from_points(pts, unit="ppb", weights=self.rng.choice(["Equal", "1/x", "x"]))

    def laser(self, shape=(5, 6)):
        from pewlib import Config, Laser

        names = ("A", "B")
        return Laser(self.struct(shape, names), calibration={n: self.calibration() for n in names},
                     config=Config(10.0, 20.0, 0.25),
                     info=self.rng.choice([{"Name": "t", "k": "v"}, {"Name": "t", "File Path": "/x/y.npz", "File Version": "0.1"}]))

    def srrlaser(self):
        from pewlib.srr import SRRConfig, SRRLaser

        cfg = SRRConfig(10.0, 20.0, 0.25, warmup=0.0)
        layers = [self.struct((4, 12)), self.struct((4, 12))]
        return SRRLaser(layers, calibration={"A": self.calibration()}, config=cfg, info={"Name": "s"})

    def config(self, kind="Config"):
        from pewlib import Config
        from pewlib.config import SpotConfig
        from pewlib.srr import SRRConfig

        if kind == "SRRConfig":
            return SRRConfig(10.0, 20.0, 0.25, warmup=self.rng.choice([0.0, 0.5]))
        if kind == "SpotConfig":
            return SpotConfig(10.0, 12.0)
        return Config(10.0, 20.0, 0.25)


def qual_to_callable(qual, kind):
    parts = qual.split(".")
    for i in range(len(parts), 0, -1):
        try:
            mod = importlib.import_module(".".join(parts[:i]))
            rest = parts[i:]
            break
        except ModuleNotFoundError:
            continue
    obj = mod
    for r in rest:
        if r == "setter":
            break
        obj = getattr(obj, r) if not isinstance(obj, type) else inspect.getattr_static(obj, r)
    return obj, rest


def build_args(mk: Maker, qual, pnames, fn_sig):
    """returns {param name: value}; raises KeyError when no factory is known"""
    rng = mk.rng
    short = qual.split(".")[-1]
    mod = qual.rsplit(".", 1)[0]
    one_d = "convolve" in qual or short in ("local_maxima", "reset_cumsum", "weights_from_weighting", "weighted_rsq",
                                            "weighted_linreg")
    vals = {}
    for name in pnames:
        ann = fn_sig.get(name) or ""
        if name == "self":
            cls = qual.split(".")[-2] if not qual.endswith(".setter") else qual.split(".")[-3]
            vals[name] = {"Laser": mk.laser, "SRRLaser": mk.srrlaser, "Calibration": mk.calibration,
                          "Config": lambda: mk.config("Config"), "SpotConfig": lambda: mk.config("SpotConfig"),
                          "SRRConfig": lambda: mk.config("SRRConfig")}[cls]()
        elif name in ("cls", "kwargs"):
            continue
        elif name in ("x", "y", "a", "b", "data", "array", "psf", "w", "mask", "points", "times", "offsets") and "ndarray" in ann \
                and "list" not in ann:
            if short in ("from_array",):
                cls = qual.split(".")[-2]
                src = {"Calibration": mk.calibration, "Config": lambda: mk.config("Config"),
                       "SpotConfig": lambda: mk.config("SpotConfig"), "SRRConfig": lambda: mk.config("SRRConfig")}[cls]()
                vals[name] = src.to_array()
            elif name == "points":
                vals[name] = np.array([[0.0, 1.0], [1.0, 2.5], [2.0, np.nan if rng.random() < 0.3 else 4.0], [4.0, 9.0]])
            elif short == "Laser":
                vals[name] = mk.struct((5, 6))
            elif short == "unpack_calibration":
                from pewlib.io import npz
                vals[name] = npz.pack_calibration({"A": mk.calibration(), "B": mk.calibration()})
            elif name == "mask":
                vals[name] = rng.choice([None, mk.np_rng.random_sample((7, 8)) > 0.3])
            elif name == "psf":  # kernels of one, two, three and five taps
                vals[name] = np.array(rng.choice([[1.0], [0.5, 0.5], [0.25, 0.5, 0.25], [0.25, 0.5, 0.25], [0.1, 0.2, 0.4, 0.2, 0.1]]))
            elif name == "w":
                vals[name] = rng.choice([None, np.array([1.0, 2.0, 1.0, 0.5, 1.0, 1.0, 2.0, 1.0])])
            elif short == "add":
                vals[name] = mk.arr((5, 6), nan=0)
            elif short in ("krisskross", "subpixel_offset", "subpixel_offset_equal"):
                vals[name] = mk.arr((4, 5, 3), nan=0)
            elif short in ("guess_delay_from_data", "sync_data_nwi_laser_log"):
                vals[name] = mk.struct((40,)) if name == "data" else np.arange(40.0) * 0.1
            elif short == "save" and "vtk" in qual:
                vals[name] = mk.struct((4, 5))
            elif short == "valid_for_data":
                vals[name] = [mk.struct((4, 12)), mk.struct((4, 12))]
            elif short in ("weighted_linreg", "weighted_rsq"):
                vals[name] = mk.arr((8,), nan=0) + (np.arange(8.0) if name == "x" else 0.0)  # LAPACK prints on NaN input
            else:
                vals[name] = mk.arr((8,) if one_d else (7, 8))
        elif name == "layers" and "list[list" in ann:
            vals[name] = [[mk.arr((4, 12), 0), mk.arr((4, 12), 0)], [mk.arr((4, 12), 0), mk.arr((4, 12), 0)]]
        elif "list[np.ndarray]" in ann or name in ("arrays", "datas"):
            if short == "add" and "SRR" in qual:
                vals[name] = [mk.arr((4, 12), nan=0), mk.arr((4, 12), nan=0)]
            elif short in ("SRRLaser",):
                vals[name] = [mk.struct((4, 12)), mk.struct((4, 12))]
            elif "structured" in short:
                vals[name] = [mk.struct((3, 4), ("A", "B")), mk.struct((2, 3), ("B", "C"))]
            else:
                vals[name] = [mk.arr((3, 4)), mk.arr((2, 3))] if short != "from_list" else [mk.arr((3, 4), 0), mk.arr((3, 4), 0)]
        elif name == "layers" and "list[list" in ann:
            vals[name] = [[mk.arr((4, 12), 0), mk.arr((4, 12), 0)], [mk.arr((4, 12), 0), mk.arr((4, 12), 0)]]
        elif name == "lasers":
            vals[name] = [mk.laser((4, 12)), mk.laser((4, 12))]
        elif name == "laser":
            vals[name] = rng.choice([mk.laser, mk.srrlaser])()
        elif name == "offsets":
            if "overlap" in short:  # one offset per array, any sign, the per-axis minimum mostly not zero
                vals[name] = [(0, 0), (1, 1)] if rng.random() < 0.2 else [(rng.randint(-2, 3), rng.randint(-2, 3)) for _ in range(2)]
            else:
                vals[name] = rng.choice([[(0, 0), (1, 1)], [(1, 2), (2, 2)], [0, 1]])
        elif name == "elements":
            vals[name] = ["A", "B"]
        elif name == "element":
            vals[name] = rng.choice(["A", None]) if "None" in ann else ("C" if short == "add" else "A")
        elif name == "names":
            vals[name] = {"A": "Z"} if "dict" in ann else rng.choice(["A", ["A"], ["B", "A"], ["missing"]])
        elif name in ("calibration",):
            vals[name] = rng.choice([None, mk.calibration()]) if "dict" not in ann else \
                rng.choice([None, {}, {"A": mk.calibration()}, {"A": mk.calibration(), "B": mk.calibration()}])  # none / partial / complete
        elif name == "dict":
            vals[name] = {"A": mk.calibration(), "B": mk.calibration()}
        elif name == "config":
            vals[name] = rng.choice([None, mk.config("SRRConfig" if "SRR" in (ann + qual) else "Config")]) if "None" in ann \
                else mk.config("SRRConfig")
        elif name == "info":
            vals[name] = rng.choice([{}, {"Name": "x", "a\tb": "c\td"}, {"File Path": "/p", "Name": "n"}]) if "None" not in ann \
                else rng.choice([None, {"k": "v"}, {"File Path": "/p"}])
        elif name in ("path", "log_path", "log_file"):
            vals[name] = "PATH"
        elif name == "block":
            vals[name] = 3 if "tuple" not in ann else ((3,) if one_d else rng.choice([(2, 2), (3, 3), (3, 2)]))
            if short in ("rolling_mean", "rolling_median"):
                vals[name] = rng.choice([3, (3, 3), (3, 5)])
        elif name == "step":
            vals[name] = None
        elif name == "mode":
            vals[name] = {"shuffle_blocks": rng.choice(["pad", "inplace", "bogus"]), "overlap_arrays": rng.choice(["replace", "mean", "sum"]),
                          "overlap_structured_arrays": rng.choice(["replace", "mean", "sum"]),
                          "convolve": rng.choice(["pad", "same", "full"]), "deconvolve": rng.choice(["valid", "same"])}.get(short, "pad")
        elif name == "weighting":
            vals[name] = rng.choice(["Equal", "x", "1/x", "1/(x^2)", "bogus"])
        elif name == "weights":
            vals[name] = rng.choice(["Equal", "1/x", ("custom", np.array([1.0, 2.0, 1.0, 0.5]))])
        elif name == "anchor":
            vals[name] = rng.choice(["top left", "top right", "bottom left", "bottom right", "center"])
        elif name == "extent":
            vals[name] = rng.choice([None, (0.0, 10.0, 0.0, 20.0)])
        elif name == "shape":
            vals[name] = (5, 6)
        elif name == "spacing":
            vals[name] = (1.0, 2.0, 1.0)
        elif name == "pixelsize":
            vals[name] = 2 if "tuple" not in ann else (2, 2)
        elif name == "subpixel_offsets":
            vals[name] = [(0, 1), (1, 2)]
        elif name == "sequence":
            vals[name] = rng.choice([None, 1])
        elif name == "remove_keys":
            vals[name] = rng.choice([None, ["k"]])
        elif name in ("layer",):
            vals[name] = rng.choice([None, 0, 1])
        elif name == "size":
            vals[name] = rng.choice([None, 6]) if "None" in ann else rng.choice([5, 12])
        elif name in ("n", "n_scrambles", "width"):
            vals[name] = 2
        elif name in ("va", "vb"):
            vals[name] = rng.choice(["0.8.0", "0.10.2", "1"])
        elif name in ("unit", "sep", "comments", "header", "string", "name", "delimiter"):
            vals[name] = {"sep": "\t", "comments": "#", "header": "h", "string": "a<b&\"c", "unit": "ppm"}.get(name, None if "None" in ann else "x")
        elif "bool" in ann:
            vals[name] = rng.choice([True, False])
        elif ann.startswith("float") or ann.startswith("int"):
            vals[name] = {"threshold": 3.0, "fill": rng.choice([np.nan, 0.0]), "gradient": 2.0, "intercept": 0.5,
                          "vmin": 0.0, "vmax": 2.0, "reset_value": 0.0, "scale": 1.0, "shift": 0.0, "sigma": 1.0, "mu": 0.0,
                          "alpha": 2.0, "beta": 3.0, "_lambda": 1.0, "a": -1.0, "b": 1.0, "power": 2.0, "target_r": 0.0,
                          "spotsize": 10.0, "speed": 20.0, "scantime": 0.25, "warmup": 0.5, "seconds": 0.5,
                          "x": 0.5, "spotsize_y": 12.0}.get(name, 1.0)
            if "None" in ann and rng.random() < 0.4:
                vals[name] = None
        else:
            raise KeyError(f"no factory for {qual}({name}: {ann})")
    return vals


# ----------------------------------------------------------------------------- general variation of the built arguments
def _numeric_rows(v):
    """a list / tuple of numbers, or of equally long tuples / lists of numbers"""
    num = (int, float, np.integer, np.floating)
    if not isinstance(v, (list, tuple)) or not v:
        return False
    if all(isinstance(x, num) and not isinstance(x, bool) for x in v):
        return True
    return all(isinstance(x, (list, tuple)) and x and all(isinstance(y, num) and not isinstance(y, bool) for y in x) for x in v) \
        and len({len(x) for x in v}) == 1


def vary_arrays(mk: Maker, args, force=False):
    """General classes of ARRAY arguments (plain and structured; the values stay what the factory built):
    byte-order:swapped   the other byte order ('>f8' on a little-endian machine), every field of a structured array;
    shape:*              degenerate shapes: one row, one column, 1x1, one row with a leading unit axis; single-field:
                         a structured array reduced to its first field;
    layout:*             Fortran-ordered, or a non-contiguous view (every second element of a buffer twice as large);
    rows:*               table-like arguments (anything with >= 2 rows along axis 0: laser logs, point and offset tables,
                         peak tables, lists of rows — and images) with the rows reversed, shuffled, or one row duplicated
                         (not in sorted order any more, ties).
    The transformations are independent, so their combinations occur (a swapped, single-field, one-row image).
    Snapshots are byte-level (dtype string, shape, tobytes) as before."""
    rng, feats = mk.rng, set()
    if not (force or rng.random() < 0.4):
        return feats
    for k, v in list(args.items()):
        if k in ("self", "cls"):
            continue
        if isinstance(v, list) and len(v) >= 2 and _numeric_rows(v) and rng.random() < 0.5:
            how = rng.choice(["reversed", "shuffled", "duplicated"])
            w = list(v)
            if how == "reversed":
                w.reverse()
            elif how == "shuffled":
                rng.shuffle(w)
            else:
                w.insert(rng.randrange(len(w)), w[rng.randrange(len(w))])
            args[k] = w
            feats.add("rows:" + how)
            continue
        if not isinstance(v, np.ndarray) or v.dtype.hasobject or v.ndim == 0 or v.size == 0:
            continue
        a = v
        if a.dtype.names and len(a.dtype.names) > 1 and rng.random() < 0.4:
            n0 = a.dtype.names[0]
            b = np.empty(a.shape, dtype=[(n0, a.dtype[n0])])
            b[n0] = a[n0]
            a = b
            feats.add("single-field")
        if rng.random() < 0.5:
            how = rng.choice(["one-row", "one-row", "one-column", "1x1", "unit-axis-one-row"])
            if how == "one-row":
                a = a[:1].copy()
            elif how == "one-column" and a.ndim >= 2:
                a = a[:, :1].copy()
            elif how == "1x1":
                a = a[(slice(0, 1),) * a.ndim].copy()
            elif how == "unit-axis-one-row" and a.ndim == 2:
                a = a[None, :1].copy()
            else:
                how = None
            if how:
                feats.add("shape:" + how)
        if a.shape[0] >= 2 and rng.random() < 0.5:
            how = rng.choice(["reversed", "shuffled", "duplicated"])
            idx = list(range(a.shape[0]))
            if how == "reversed":
                idx.reverse()
            elif how == "shuffled":
                rng.shuffle(idx)
            else:
                idx[rng.randrange(len(idx))] = idx[rng.randrange(len(idx))]
            a = a[idx].copy()
            feats.add("rows:" + how)
        if rng.random() < 0.5:
            a = a.astype(a.dtype.newbyteorder())
            feats.add("byte-order:swapped")
        r = rng.random()
        if r < 0.2 and a.ndim >= 2:
            a = np.asfortranarray(a)
            feats.add("layout:fortran")
        elif r < 0.4:
            base = np.repeat(a, 2, axis=a.ndim - 1)
            a = base[..., ::2]
            feats.add("layout:non-contiguous-view")
        if a is not v:
            args[k] = a
    return feats


def vary_arguments(mk: Maker, f, args, force_malformed=False):
    """General input classes on top of what the factories build (feature names returned):
    sequence-form:*   every list / tuple argument also as a tuple, a list, ONE ndarray (rows of numbers -> 2-d table, arrays
                      of one shape -> stacked), or a list of 1-d arrays — the spellings NumPy-style code accepts alike;
    scalars-from-data float parameters take values occurring in the first array argument (parameters named *min* its
                      minimum, *max* its maximum, others one of minimum / maximum / first element): ranges the data spans
                      exactly, thresholds that are attained;
    defaults-used     parameters that have a default are left out, so the default object itself is what the body sees."""
    rng, feats = mk.rng, set()
    defaults = set(f.get("defaults", ()))
    if rng.random() < 0.5:
        for k, v in list(args.items()):
            if k in ("self", "cls") or not isinstance(v, (list, tuple)) or not v:
                continue
            forms = ["same"]
            if _numeric_rows(v):
                forms += ["ndarray", "ndarray", "tuple" if isinstance(v, list) else "list", "arrays"]
            elif all(isinstance(x, np.ndarray) for x in v):
                forms += ["tuple" if isinstance(v, list) else "list"]
                if len({(x.shape, str(x.dtype)) for x in v}) == 1:
                    forms += ["ndarray", "ndarray"]
            else:
                forms += ["tuple" if isinstance(v, list) else "list"]
            form = rng.choice(forms)
            if form == "ndarray":
                args[k] = np.array(v) if _numeric_rows(v) else np.stack(v)
            elif form == "tuple":
                args[k] = tuple(tuple(x) if isinstance(x, list) else x for x in v)
            elif form == "list":
                args[k] = [list(x) if isinstance(x, tuple) and _numeric_rows(v) else x for x in v]
            elif form == "arrays":
                args[k] = [np.array(x) for x in v]
            if form != "same":
                feats.add("sequence-form:" + form)
    arrs = [v for k, v in args.items() if k != "self" and isinstance(v, np.ndarray) and v.dtype.kind == "f" and v.size
            and not v.dtype.names]
    if arrs and rng.random() < 0.25:
        a = arrs[0]
        fin = a[np.isfinite(a)]
        if fin.size:
            lo, hi, first = float(fin.min()), float(fin.max()), float(fin.flat[0])
            for k, v in list(args.items()):
                ann = (f["sig"].get(k) or "")
                if isinstance(v, float) and ann.replace(" ", "").startswith("float") and not isinstance(v, bool):
                    args[k] = lo if "min" in k else hi if "max" in k else rng.choice([lo, hi, first])
                    feats.add("scalars-from-data")
    if defaults and rng.random() < 0.35:
        for k in list(args):
            if k in defaults and rng.random() < 0.6:
                del args[k]
                feats.add("defaults-used")
    if rng.random() < 0.12 or force_malformed:  # one argument of the right type but the wrong shape / dtype / length: most such calls raise half-way
        cands = [k for k, v in args.items() if k not in ("self", "cls") and (len(v) > 0 if isinstance(v, (list, dict)) else isinstance(v, np.ndarray) and v.ndim > 0 and v.shape[0] > 0)]
        if cands:
            k = rng.choice(sorted(cands))
            v = args[k]
            if isinstance(v, np.ndarray) and not v.dtype.names and v.dtype.kind == "f":
                kind = rng.choice(["int", "bool", "float32", "extra-axis", "flat", "empty", "one-short", "fortran", "inf"])
                w = np.nan_to_num(v)
                args[k] = {"int": lambda: w.astype(np.int64), "bool": lambda: w > 0, "float32": lambda: v.astype(np.float32),
                           "extra-axis": lambda: v[..., None].copy(), "flat": lambda: v.ravel().copy(), "empty": lambda: v[:0].copy(),
                           "one-short": lambda: v[:-1].copy(), "fortran": lambda: np.asfortranarray(v),
                           "inf": lambda: np.where(np.arange(v.size).reshape(v.shape) % 3 == 0, np.inf, v)}[kind]()
            elif isinstance(v, np.ndarray):
                kind = rng.choice(["empty", "one-short"])
                args[k] = v[:0].copy() if kind == "empty" else v[:-1].copy()
            elif isinstance(v, list):
                kind = rng.choice(["empty", "one-short"])
                args[k] = [] if kind == "empty" else v[:-1]
            else:
                kind, args[k] = "empty", {}
            feats.add("malformed-argument:" + kind)
    return feats


# ----------------------------------------------------------------------------- the I/O readers and the peak finder
NEW_MODULES = ("pewlib.io.agilent.", "pewlib.io.csv.", "pewlib.io.thermo.", "pewlib.io.imzml.", "pewlib.io.perkinelmer.",
               "pewlib.process.peakfinding.")
DEVICES_XML = ('<?xml version="1.0" encoding="utf-8"?>\n<Devices>\n  <Device DeviceID="1">\n    <Name>ICPMS</Name>\n'
               '    <ModelNumber>G7201</ModelNumber>\n    <SerialNumber>JP1</SerialNumber>\n  </Device>\n</Devices>\n')


def _median_base(w, axis=None):
    return np.median(w, axis=axis)


def _std_threshold(w, axis=None):
    return 3.0 * np.std(w, axis=axis)


def _box_wavelet(size, sigma):
    return np.ones(int(size)) / max(int(size), 1)


class InlineExecutor:
    """stands in for ProcessPoolExecutor in pewlib.io.csv.load: tasks run at once in this process, so that anything a
    task does to the objects it is handed stays visible to the snapshots (a process pool would pickle them)"""

    def __init__(self, *a, **k):
        pass

    def submit(self, fn, /, *args, **kwargs):
        import concurrent.futures

        f = concurrent.futures.Future()
        try:
            f.set_result(fn(*args, **kwargs))
        except BaseException as e:
            f.set_exception(e)
        return f

    def map(self, fn, *iterables, timeout=None, chunksize=1):
        return [fn(*a) for a in zip(*iterables)]

    def shutdown(self, wait=True, cancel_futures=False):
        pass

    def __enter__(self):
        return self

    def __exit__(self, *exc):
        return False


def agilent_batch(mk):
    """a small synthetic '.b' batch (harness/gen_agilent.py writers, layout of C02): n lines x R scans x k masses with
    BatchLog.xml, BatchLog.csv, AcqMethod.xml, the binaries, the mass tables, one csv export per line, Devices.xml"""
    from harness import gen_agilent as GA

    rng = mk.rng
    b = mk.tmp / "synthetic.b"
    (b / "Method").mkdir(parents=True)
    n, R, k = rng.choice([1, 2, 3]), rng.choice([2, 3, 5]), rng.choice([1, 2, 3])
    names = [f"{i + 1:03d}.d" for i in range(n)]
    elems = [("P", 31), ("Ca", 44), ("Eu", 153)][:k]
    accs = ["0.1", "0.25", "1"][:k]
    msms = rng.random() < 0.3
    win = "D:\\DATA\\synthetic.b\\"
    if rng.random() < 0.85:
        GA.write_batch_xml(b / "Method" / "BatchLog.xml", [{"result": "Pass", "file": win + nm} for nm in names])
    if rng.random() < 0.85:
        GA.write_batch_csv(b / "BatchLog.csv", [{"id": i + 1, "file": win + nm, "result": "Pass"} for i, nm in enumerate(names)])
    GA.write_acq_method(b / "Method" / "AcqMethod.xml", [{"name": e, "mz": m, "selected": m} for e, m in elems], msms,
                        [{"id": i, "file": nm} for i, nm in enumerate(names)])
    bc = 28 * k
    for i, nm in enumerate(names):
        d = b / nm
        (d / "AcqData").mkdir(parents=True)
        GA.write_msscan(d / "AcqData" / "MSScan.bin", [68 + r * bc for r in range(R)], [bc] * R,
                        [(10 + 40 * r) / 60000.0 for r in range(R)], k)
        vals = [[1000.0 * (i + 1) + 100 * r + j + 0.25 for j in range(k)] for r in range(R)]
        GA.write_msprofile(d / "AcqData" / "MSProfile.bin",
                           [[int(np.float64(v).view(np.int64)) for v in row] for row in vals], k)
        GA.write_xspecific(d / "AcqData" / "MSTS_XSpecific.xml",
                           [{"name": e, "mass": m, "acctime": accs[j]} for j, (e, m) in enumerate(elems)])
        if msms or rng.random() < 0.3:
            GA.write_xaddition(d / "MSTS_XAddition.xml", "MS_MS" if msms else "SingleQuad",
                               [(j + 1, m, m + 16) for j, (e, m) in enumerate(elems)])
        if rng.random() < 0.9:
            GA.write_line_csv(d / (nm[:-2] + ".csv"),
                              [win + nm, "Intensity Vs Time,CPS", "Acquired      : now using Batch synthetic.b",
                               ",".join(["Time [Sec]"] + [f"{e}{m}" for e, m in elems])]
                              + [",".join([f"{(10 + 40 * r) / 1000:.4f}"] + [f"{v:.2f}" for v in vals[r]]) for r in range(R)]
                              + ["", "", "          Printed:now"])
        (d / "AcqData" / "Devices.xml").write_text(DEVICES_XML)
        head = bytearray(68)
        head[0:4] = (275).to_bytes(4, "little")
        (d / "AcqData" / "MSScan_XSpecific.bin").write_bytes(
            bytes(head) + np.array([(0, float(m)) for e, m in elems], dtype=[("_", "<i4"), ("MZ", "<f8")]).tobytes())
    return b, names, k


def csv_dir(mk):
    """a directory of per-line csv files in one of the four layouts (generator and writer of C04)"""
    from harness import gen_csvdir as GC

    case = GC.generate(mk.rng, "quick")
    d = mk.tmp / "lines"
    d.mkdir()
    GC.write_dir(d, case)
    return d, case


def thermo_file(mk):
    """one Qtegra export in the columns or the rows layout (generator and writer of C03; the very large ones skipped)"""
    from harness import gen_thermo as GT

    for _ in range(30):
        case = GT.generate(mk.rng, "quick")
        a = case["acq"]
        if len(a["samples"]) * a["nscans"] * len(a["elements"]) <= 150:
            break
    layout = mk.rng.choice(["columns", "rows"])
    p = mk.tmp / "export.csv"
    GT.write(p, GT.table_cols(a) if layout == "columns" else GT.table_rows(a), case["delimiter"], case["eol"], case["bom"])
    return p, case, layout


def imzml_pair(mk):
    """a small imzML / ibd pair (writer of C05 / C17): w x h pixels, sorted m/z axes, optional TIC and image size"""
    from harness import gen_imzml as GI

    rng = mk.rng
    w, h = rng.choice([(1, 1), (2, 1), (2, 2), (3, 2)])
    positions = [(x + 1, y + 1) for y in range(h) for x in range(w)]
    npk = rng.choice([3, 5, 12])
    specs = []
    for _ in positions:
        mz = sorted(round(100.0 + 400.0 * rng.random(), 3) for _ in range(npk))
        specs.append({"mz": mz, "it": [float(rng.randint(0, 5000)) for _ in mz]})
    mzdt, itdt = rng.choice(["f8", "f4"]), rng.choice(["f4", "f8"])
    ibd, metas = GI.layout_ibd(specs, mzdt, itdt)
    tics = [None if rng.random() < 0.5 else str(sum(sp["it"])) for sp in specs]
    doc = GI.simple_doc(positions, tics, metas, size=None if rng.random() < 0.3 else (w, h), mzdt=mzdt, itdt=itdt,
                        style=rng.randrange(GI.NSTYLES))
    path = GI.write_pair(mk.tmp, doc, ibd)
    return path, path.with_suffix(".ibd"), npk


def perkinelmer_dir(mk):
    """'Line N.xl' exports and parameters.conf in the layout of /repo/tests/data/perkinelmer"""
    rng = mk.rng
    d = mk.tmp / "elan"
    d.mkdir()
    n, m = rng.choice([1, 2, 3]), rng.choice([2, 3, 4])
    for i in range(n):
        rows = [f"{0.2 * j:.1f},{rng.randint(0, 99) / 10},{rng.randint(0, 99) / 10}" for j in range(m)]
        (d / f"Line {i + 1}.xl").write_bytes(("Intensity Vs Time, Counts Per Second\r\nTime in Seconds ,A1,B2\r\n"
                                              + "".join(r + "\r\n\r\n" for r in rows)).encode())
    if rng.random() < 0.7:
        (d / "parameters.conf").write_text("ablation.speed=0.100\nacquisition.time=0.200\nspace.interval=0.300\nother.key=v\n")
    return d


def peak_signal(mk, n=None):
    """a 1-d trace with a few smooth peaks on a low noisy baseline"""
    rng = mk.rng
    n = n or rng.choice([60, 120, 200])
    x = mk.np_rng.random_sample(n) * 0.5
    t = np.arange(n, dtype=np.float64)
    for _ in range(rng.choice([1, 2, 4])):
        c, wd = rng.randint(8, n - 9), rng.choice([2.0, 3.0, 5.0])
        x += rng.choice([20.0, 50.0, 100.0]) * np.exp(-0.5 * ((t - c) / wd) ** 2)
    return x


def peak_table(mk):
    from pewlib.process import peakfinding as pf

    rng = mk.rng
    k = rng.choice([0, 1, 3, 5, 8])
    peaks = np.zeros(k, dtype=pf.PEAK_DTYPE)
    tops = np.cumsum([rng.choice([10, 10, 10, 21, 32]) for _ in range(k)])
    peaks["top"], peaks["left"], peaks["right"] = tops, tops - 2, tops + 3
    peaks["bottom"] = tops
    peaks["width"] = 5.0
    peaks["height"] = [rng.choice([1.0, 5.0, 50.0]) for _ in range(k)]
    peaks["area"] = peaks["height"] * 3.0
    return peaks


def maybe_missing(mk, p, rate=0.1):
    """now and then a path that does not exist: the call must fail without touching anything"""
    return p.with_name(p.name + ".missing") if mk.rng.random() < rate else p


def build_new_args(mk: Maker, qual, pnames, fn_sig):
    """arguments for the functions of NEW_MODULES; real files come from the other properties' synthetic writers"""
    rng = mk.rng
    parts = qual.split(".")
    short = parts[-1]
    strpath = lambda p: str(p) if rng.random() < 0.25 else p  # noqa: E731   `str | Path` parameters
    v = {}
    if qual.startswith("pewlib.io.agilent."):
        from pewlib.io import agilent

        if short == "XSpecificMass":
            return {"id": 1, "name": "P", "acctime": 0.1, "mz": 31, "mz2": rng.choice([None, 47])}
        b, names, k = agilent_batch(mk)
        d0 = b / rng.choice(names)
        methods = rng.choice([None, ["batch_xml", "batch_csv"], ["batch_csv"], ["acq_method_xml", "alphabetical"],
                              ["alphabetical"], ["bogus"], [], ["batch_csv", "batch_xml", "acq_method_xml", "alphabetical"]])
        table = {
            "acq_method_xml_read_datafiles": lambda: {"path": b, "acq_xml": maybe_missing(mk, b / "Method" / "AcqMethod.xml")},
            "batch_csv_read_datafiles": lambda: {"path": b, "batch_csv": b / "BatchLog.csv"},
            "batch_xml_read_datafiles": lambda: {"path": b, "batch_xml": b / "Method" / "BatchLog.xml"},
            "collect_datafiles": lambda: {"path": strpath(b), "methods": methods if methods is not None else ["batch_xml"]},
            "find_datafiles_alphabetical": lambda: {"path": strpath(maybe_missing(mk, b))},
            "binary_read_datafile": lambda: {"path": d0, "masses": agilent.mass_info_datafile(d0)},
            "binary_read_msscan": lambda: {"path": maybe_missing(mk, d0 / "AcqData" / "MSScan.bin")},
            "binary_read_msscan_xspecific": lambda: {"path": maybe_missing(mk, d0 / "AcqData" / "MSScan_XSpecific.bin")},
            "binary_read_msprofile": lambda: {"path": d0 / "AcqData" / "MSProfile.bin", "n": k if rng.random() < 0.8 else k + 1},
            "mass_info_datafile": lambda: {"path": maybe_missing(mk, d0)},
            "msts_xspecific_xml_read_info": lambda: {"path": d0 / "AcqData" / "MSTS_XSpecific.xml"},
            "msts_xaddition_xml_read_info": lambda: {"path": d0 / "MSTS_XAddition.xml"},
            "acq_method_xml_read_elements": lambda: {"path": b / "Method" / "AcqMethod.xml"},
            "csv_valid_lines": lambda: {"csv": d0 / (d0.name[:-2] + ".csv")},
            "read_datafile_csvs": lambda: {"datafiles": [b / nm for nm in names] + ([b / "999.d"] if rng.random() < 0.2 else [])},
            "batch_xml_read_info": lambda: {"path": b / "Method" / "BatchLog.xml"},
            "device_xml_read_info": lambda: {"path": d0 / "AcqData" / "Devices.xml"},
            "load_info": lambda: {"path": strpath(b)},
        }
        if short in table:
            return table[short]()
        drop = rng.choice([None, [], ["Time"], ["Time_[Sec]"], ["P31", "Time"], ["nothing"]])
        full = {"path": strpath(maybe_missing(mk, b, 0.05)), "collection_methods": methods,
                "use_acq_for_names": rng.random() < 0.6, "counts_per_second": rng.random() < 0.5, "drop_names": drop,
                "full": rng.random() < 0.8}
        return {n: full[n] for n in pnames}
    if qual.startswith("pewlib.io.csv."):
        from pewlib.io import csv as pcsv

        d, case = csv_dir(mk)
        classes = {"nu": pcsv.NuOption, "ldr": pcsv.ThermoLDROption, "tofwerk": pcsv.TofwerkOption, "generic": pcsv.GenericOption}
        files = sorted(p for p in d.iterdir())
        rng.shuffle(files)
        cls_name = parts[-2] if parts[-2].endswith("Option") else short
        if "self" in pnames:
            v["self"] = getattr(pcsv, cls_name)()
        if short == "GenericOption":
            return {"drop_names": rng.choice([None, [], ["Time"], ["A", "B"]]),
                    "kw_genfromtxt": rng.choice([None, {}, {"skip_header": 1}, {"deletechars": "'"}]),
                    "regex": rng.choice([r".*\.csv", r"line_\d+\.csv", "("]), "drop_nan_rows": rng.random() < 0.5,
                    "drop_nan_columns": rng.random() < 0.5, "transposed": rng.random() < 0.2}
        if short in ("NuOption", "ThermoLDROption", "TofwerkOption"):
            return {}
        if short in ("filter", "sort"):
            v["paths"] = files if rng.random() < 0.8 else []
        elif short == "validForPath":
            v["path"] = rng.choice([d] + files)
        elif short == "sortkey":
            lines = [d / e["name"] for e in case["entries"] if e.get("role") == "line"]
            v["path"] = rng.choice(lines if rng.random() < 0.8 else files)
        elif short == "readParams":
            names = {"NuOption": ("Cycle_time_(ms)", "x_[um]", "y_[um]", "A"), "ThermoLDROption": ("Time", "A"),
                     "TofwerkOption": ("A", "t_elapsed_Buf")}.get(cls_name, ("A", "B"))
            if rng.random() < 0.2:
                names = ("A", "B")
            data = mk.struct((3, 6), names)
            for nm in names:
                if nm != "A" and nm != "B":
                    data[nm] = np.cumsum(np.ones((3, 6)), axis=1) * rng.choice([0.25, 2.0])
            v["data"] = data
        elif short in ("is_valid_directory", "option_for_path"):
            v["path"] = strpath(rng.choice([d, d, d / "nothing", files[0]]))
        elif short == "load":
            opt = None if case["auto"] else classes[case["vendor"]]()
            if rng.random() < 0.15:
                opt = pcsv.GenericOption(drop_names=["A"], kw_genfromtxt={"skip_header": 0})
            v.update(path=strpath(d), option=opt, full=rng.random() < 0.8)
        return {n: v[n] for n in pnames}
    if qual.startswith("pewlib.io.thermo."):
        p, case, layout = thermo_file(mk)
        want = "columns" if "columns" in short else "rows" if "rows" in short else layout
        if want != layout and rng.random() < 0.8:  # mostly the matching layout; the other one makes the reader fail
            from harness import gen_thermo as GT

            a = case["acq"]
            GT.write(p, GT.table_cols(a) if want == "columns" else GT.table_rows(a), case["delimiter"], case["eol"], case["bom"])
        full = {"path": strpath(maybe_missing(mk, p, 0.05)), "delimiter": case["delimiter"] if case["explicit_delimiter"] else None,
                "comma_decimal": case["decimal"] == ",", "use_analog": case["use_analog"], "full": rng.random() < 0.8}
        return {n: full[n] for n in pnames}
    if qual.startswith("pewlib.io.perkinelmer."):
        d = perkinelmer_dir(mk)
        full = {"path": strpath(rng.choice([d, d, d, d / "nothing"])), "import_parameters": rng.random() < 0.7, "full": rng.random() < 0.8}
        return {n: full[n] for n in pnames}
    if qual.startswith("pewlib.io.imzml."):
        from pewlib.io import imzml as pim

        if short in ("is_imzml", "is_imzml_binary_data"):
            return {"path": strpath(Path(rng.choice(["a.imzML", "b.IBD", "c.ibd", "d.txt", "e.imzxml"])))}
        if short == "ScanSettings":
            return {"image_size": rng.choice([None, (2, 3)]), "pixel_size": (30.0, 30.0)}
        if short == "Spectrum":
            return {"pos": (1, 2), "tic": rng.choice([None, 10.0]), "offsets": {"mzArray": 16, "intensities": 40},
                    "lengths": {"mzArray": 24, "intensities": 12}}
        if short == "ParamGroup":
            return {"id": "mzArray", "dtype": rng.choice([np.float32, np.float64]), "compressed": False, "external": True}
        path, ibd, npk = imzml_pair(mk)
        fast = rng.random() < 0.5
        parsed = pim.ImzML.from_file(path, use_fast_parse=fast)
        et = ElementTree.parse(path)
        find = lambda q: et.findall(q, pim.MZML_NS)  # noqa: E731
        cls_name = parts[-2]
        if "self" in pnames:
            v["self"] = {"ImzML": parsed, "ScanSettings": parsed.scan_settings, "ParamGroup": parsed.mz_params,
                         "Spectrum": rng.choice(list(parsed.spectra.values()))}[cls_name]
        if short == "from_xml_element":
            q = {"ScanSettings": "mz:scanSettingsList/mz:scanSettings", "Spectrum": "mz:run/mz:spectrumList/mz:spectrum",
                 "ParamGroup": "mz:referenceableParamGroupList/mz:referenceableParamGroup"}[cls_name]
            v["element"] = rng.choice(find(q))
            v["scan_number"] = rng.choice([1, 1, 2])
        elif short == "get_binary_data":
            grp = rng.choice([parsed.mz_params, parsed.intensity_params])
            fh = None
            if rng.random() < 0.6:
                fh = ibd.open("rb")
                mk.handles.append(fh)
            v.update(reference_id=rng.choice([grp.id, grp.id, "bogus"]), dtype=grp.dtype,
                     external_binary=fh if fh is not None else rng.choice([ibd, None]))
        elif short == "ImzML":
            sp = list(parsed.spectra.values())
            v.update(scan_settings=parsed.scan_settings, mz_params=parsed.mz_params, intensity_params=parsed.intensity_params,
                     spectra=sp if rng.random() < 0.5 else dict(parsed.spectra), external_binary=strpath(ibd))
        elif short == "from_etree":
            v.update(et=et, external_binary=strpath(ibd), scan_number=rng.choice([1, 1, 2]))
        elif short == "from_file":
            v.update(path=strpath(maybe_missing(mk, path)), external_binary=rng.choice([None, None, strpath(ibd)]), use_fast_parse=fast)
        elif short == "extract_masses":
            tm = rng.choice([np.array([150.0, 300.0, 450.0]), np.array([200.0]), 250.0, np.array([[120.0, 480.0]])])
            wd = rng.choice([(10000.0, None), (50000.0, None), (None, 5.0), (None, 80.0), (None, None), (10.0, 1.0)])
            v.update(target_masses=tm, mass_width_ppm=wd[0], mass_width_mz=wd[1])
        elif short == "binned_masses":
            v["mass_width_mz"] = rng.choice([50.0, 100.0, 7.5])
        elif short == "untargeted_extraction":
            v.update(num=rng.choice([2, 3, npk, 10]), precision_mz=rng.choice([1.0, 50.0]), min_pixel_count=rng.choice([0, 1, 10]),
                     min_height_fraction=0.1, min_height_absolute=rng.choice([0.0, 100.0]))
        elif short == "load":
            v.update(imzml=rng.choice([path, str(path), parsed]), external_binary=strpath(ibd),
                     target_masses=rng.choice([200.0, np.array([150.0, 300.0])]), mass_width_ppm=rng.choice([10.0, 50000.0]))
        elif short == "fast_parse_imzml":
            seen = []
            cb = rng.choice([None, None, lambda pos: seen.append(pos) or True, lambda pos: len(seen) < 1 and not seen.append(pos)])
            v.update(imzml=strpath(path), external_binary=strpath(ibd), callback=cb)
        return {n: v[n] for n in pnames if n != "cls"}
    if qual.startswith("pewlib.process.peakfinding."):
        from pewlib.process import peakfinding as pf

        x = peak_signal(mk)
        base_m = rng.choice(["baseline", "edge", "minima", "prominence", "zero", "bogus"])
        height_m = rng.choice(["maxima", "center", "maxima"])
        mins = {"peak_min_area": rng.choice([0.0, 10.0]), "peak_min_height": rng.choice([0.0, 5.0]), "peak_min_width": rng.choice([0.0, 3.0])}
        if short == "cwt":
            return {"x": x, "windows": np.arange(2, rng.choice([4, 8])), "wavelet": rng.choice([pf.ricker_wavelet, _box_wavelet])}
        if short == "ricker_wavelet":
            return {"size": rng.choice([1, 10, 31]), "sigma": rng.choice([1.0, 2.5])}
        if short == "find_peaks_cwt":
            return {"x": x, "min_midth": 2, "max_width": rng.choice([6, 10]), "ridge_gap_threshold": rng.choice([None, 2]),
                    "ridget_min_length": rng.choice([None, 1]), "ridge_min_snr": rng.choice([9.0, 1.0]), "width_factor": 2.5,
                    "peak_base_method": base_m, "peak_height_method": height_m, **mins}
        if short == "find_peaks_windowed":
            return {"x": x, "size": rng.choice([9, 20, 31]), "baseline": rng.choice([_median_base, np.mean]),
                    "threshold": rng.choice([_std_threshold, np.std]), "peak_base_method": base_m, "peak_height_method": height_m, **mins}
        if short == "insert_missing_peaks":
            return {"peaks": peak_table(mk), "distance": rng.choice([None, 11.0]), "param": rng.choice(["top", "left", "bogus"]),
                    "missing_peak_area": rng.choice([0.0, 1.5])}
        if short == "filter_peaks":
            return {"peaks": peak_table(mk), "min_area": rng.choice([0.0, 10.0]), "min_height": rng.choice([0.0, 5.0]),
                    "min_width": rng.choice([0.0, 6.0])}
        if short == "peaks_from_edges":
            k = rng.choice([1, 2, 4])
            lefts = np.sort(mk.np_rng.choice(np.arange(2, x.size - 12), size=k, replace=False))
            rights = lefts + mk.np_rng.randint(2, 9, size=k)
            if rng.random() < 0.25:  # an edge outside the trace
                lefts[0], rights[-1] = rng.choice([(-3, rights[-1]), (lefts[0], x.size + 4), (-1, x.size)])
            return {"x": x, "lefts": lefts, "rights": rights, "base_method": base_m, "height_method": rng.choice(["maxima", "center", "bogus"]),
                    "baseline": rng.choice([None, np.full(x.size, 0.25)])}
    raise KeyError(f"no factory for {qual}")


class C19(Prop):
    id = "C19"
    anchored = ["src/pewlib/" + m.split("pewlib.")[1].replace(".", "/") + ".py" for m in T.INVENTORY_MODULES]
    cases = {"quick": 500, "thorough": 6000}
    rule = ("targeted: the static obligation of every call-history program (one per public class and producer: constructor / "
            "classmethod constructor; `Pew.Effects.history`: construct, then any sequence of the public methods, property getters "
            "and setters on the object) and every two-call history `construct; member` run for real with value AND slot-identity "
            "snapshots of everything the caller passed (mutators and setters with 4, thorough 12, argument seeds); "
            "every translator regression case (harness/effects/tests: synthetic source -> real translator -> real Lean "
            "analysis, plus a real run of the synthetic function); one case per inventoried public function/method (static "
            "obligation for every parameter + one dynamic call); 4 (thorough: 24) calls with overlapping / identical array "
            "arguments for every function with two ndarray parameters; 24 (thorough: 149) more for every function with a pair in "
            "UNPROVED_STATIC (dynamic-only pairs); then random cases: 80% (function, argument seed) pairs, 15% of those that can "
            "with overlapping arguments, 20% call histories of 1-4 random members on one object.  On every argument seed but 0 the "
            "built arguments are varied by general classes: sequence-form (every list / tuple also as tuple, list, ONE ndarray, list "
            "of 1-d arrays), scalars-from-data (float parameters = minimum / maximum / first element of the first array argument), "
            "defaults-used (parameters with a default left out), malformed-argument (one argument of the wrong shape / dtype / "
            "length: calls that raise half-way), generators consumed only partly; every result is also EDITED (all bytes "
            "inverted, containers extended) with the arguments compared afterwards; non-trivial = the call actually ran pewlib code with at least one array/list/dict/object "
            "argument; distinct by (function, argument seed)")
    trusted = ["harness/effects/translate.py (Python AST -> effect IR with a heap) and its tables of NumPy/stdlib calls returning "
               "fresh memory, views, or writing an argument (reviewed against the installed NumPy; positional `out` parameters "
               "are read from the installed library's ufunc arity / signatures); FAIL-CLOSED RULE: whatever is not in a table is "
               "an unknown call (everything reachable from its arguments and from the callee object may be written, stored into "
               "each other, returned), a construct that cannot be expressed (global/nonlocal, reflection, class definitions in "
               "functions, special methods of pewlib classes other than __init__/__str__/__repr__/__format__/__getitem__/"
               "__setitem__) makes the whole function unknown, and an IR variable the translator would read before binding it "
               "is bound to `unknown`; duck-typed method calls are resolved by name over pewlib's own classes and the builtin / "
               "NumPy method tables; a parameter and everything reachable from it when the call starts is one region",
               "translator, typing: annotations of parameters are trusted where they name an ndarray/scalar/str/Path (`arr`: holds "
               "no references, so a subscript store keeps none and `.copy()` is a deep copy), a builtin container (of such), an "
               "ElementTree Element/ElementTree, a pewlib class or `list[<pewlib class>]`; every dynamic call asserts them on the "
               "arguments it builds (isinstance, non-object dtype, item types).  Attributes of pewlib objects are typed plain "
               "(or list of plain) when EVERY store site of that attribute that can affect the class stores such a value "
               "(greatest fixpoint over the store sites, each judged by the translator in its own function; "
               "evidence: fields_typed_plain); sound for objects that only pewlib's code builds and modifies, asserted on every "
               "pewlib object reachable from the arguments.  Method / property lookups on typed values use that class hierarchy "
               "(with subclass overrides; `cls(...)` in a classmethod is a branch over the subclasses' constructors).  "
               "ElementTree.parse/fromstring results are fresh, find/findall/iter/iterfind/getroot return parts, "
               "findtext/itertext/get/keys/items/tag/text/tail return str; compiled-pattern match/search/fullmatch are pure; "
               "Executor.submit(f, *a) / Executor.map(f, xs) call f; sorted/min/max/list.sort(key=f), map/filter(f, xs) apply f to "
               "the items; a name bound only to pewlib functions / local functions / lambdas (or such a function passed by name "
               "to an inlined callee) is called as a branch over them; every other function value is an object holding its "
               "free variables and calling it is an unknown call; str()/f-strings run the __str__/__repr__/__format__ of "
               "pewlib classes (by type, else by name), not followed further inside a __str__",
               "the theorems are about the IR semantics (Pew.Effects.Exec) from the start state `Start`: the parameters are "
               "distinct regions with no references between them, nothing allocated, empty heap (module-level state left by "
               "earlier calls is not part of it).  Calls that `Start` excludes (the same array passed twice, overlapping "
               "views) are made by the dynamic half (feature overlapping-array-arguments), where the property itself is still "
               "checked and a prediction for one member of an overlap group counts for the group.  Fidelity of the "
               "translation is validated by the regression cases and by the dynamic snapshot run: every observed write / "
               "sharing must have been predicted by the analysis"]
    assumptions = ["writes performed inside C extensions on buffers the table calls fresh are not visible",
                   "call histories: the history program of a class has one parameter per argument of the producer and of every "
                   "member; a real history passing the SAME object in two calls, or passing something the object returned back "
                   "into it, is outside its start state (like overlapping arguments of one call); a member that raised is the "
                   "last call of the histories the theorem covers (`Calls.raised`), the dynamic histories go on after a raise; "
                   "results of members that are documented views of what the object holds (Laser.get of one element) alias the "
                   "constructor's argument while `Laser(arr).data is arr`: recorded (DESIGN 9.5), the history obligation is "
                   "about writes",
                   "module-level state (globals, class attributes, mutable default arguments) is one object G of the IR; what "
                   "may write it / return part of it is listed in the evidence (recorded only: G is not an argument)",
                   "UNPROVED_STATIC in harness/c19.py lists the (function, parameter) pairs that rest on the dynamic calls alone "
                   "(user callbacks, an open file handle's position, results holding the caller's immutable Path/tuple objects, "
                   "boolean-mask indexing); they are not counted as static obligations and permit nothing at run time",
                   "pewlib.io.csv.load is called with an in-process stand-in for ProcessPoolExecutor, so that what a reader task "
                   "does to its arguments is observable",
                   "ALLOWED_WRITES in harness/c19.py (evidence: allowed_writes, one reason per entry): the documented mutators of "
                   "the property text, and six object-state setters whose static may-write(self) is accepted while the dynamic "
                   "half still requires every array/list/dict reachable from their arguments to be unchanged (identity-based "
                   "content snapshots); ALIAS_BASELINE is the reviewed alias baseline",
                   "mappings are plain dicts (no __missing__ that inserts on lookup); reading from an open file is not a write "
                   "(its position is not an array, list or dict); context managers do not swallow exceptions; callbacks and "
                   "unresolved callees do not replace attributes of pewlib objects by values of another type"]

    def __init__(self):
        self._inv = None

    def inv(self):
        """the regenerated model: translated once per run (workers read the per-run copy of the main process)"""
        if self._inv is None:
            import json
            import os

            base = os.environ.get("PEWVERIF_TMPBASE")
            cache = Path(base) / "c19-inventory.json" if base and os.path.isdir(base) else None
            if cache is not None and cache.exists():
                self._inv = json.loads(cache.read_text())
                return self._inv
            prog = T.Program(core.REPO, T.INVENTORY_MODULES)
            tr = T.Translator(prog)
            tr.infer_plain_fields()
            inv = {}
            for q, mod, fn, ck, ctor in T.inventory(prog):
                n, pnames, ir = tr.translate(mod, fn, ck, ctor)
                sig = {nm: a for nm, a in T.Translator.param_names(fn)}
                fa = fn.args
                defaults = [x.arg for x in (fa.posonlyargs + fa.args)[len(fa.posonlyargs + fa.args) - len(fa.defaults):]] + \
                    [x.arg for x, dv in zip(fa.kwonlyargs, fa.kw_defaults) if dv is not None]
                # what each annotation claims (asserted on the arguments the factories build, see `check_annotations`)
                types = {nm: T.annotation_type(prog, mod, a) for nm, a in sig.items() if a is not None}
                inv[q] = {"name": q, "np": n, "params": pnames, "ir": ir, "diag": list(tr.diag), "sig": sig, "module": mod,
                          "kind": "constructor" if ctor else ("method" if ck else "function"), "types": types,
                          "defaults": defaults, "gvar": tr.gvar}
            inv["__plain_fields__"] = [[k[0], k[1], f, t] for (k, f), t in sorted(prog.plain_fields.items())]
            hidx = {}
            for mod_ in T.INVENTORY_MODULES:
                for node in (prog.mods[mod_].body if mod_ in prog.mods else ()):
                    if type(node).__name__ == "ClassDef" and not node.name.startswith("_"):
                        producers, members = T.class_members(prog, (mod_, node.name))
                        for pr in producers:
                            q = f"{mod_}.{node.name}" + ("" if pr[0] == "init" else f".{pr[2].name}")
                            hidx[q] = {"class": f"{mod_}.{node.name}", "members": [m[0] for m in members],
                                       "kinds": [m[3] for m in members]}
            inv["__histories__"] = hidx
            # the Lean analysis of every regenerated program, once per run (the driver evaluates `Pew.Effects.ana`)
            d = core.Driver()
            try:
                for q, f in inv.items():
                    if not q.startswith("__"):
                        f["report"] = d.call("c19.analyse", np=f["np"], prog=f["ir"])
            finally:
                d.close()
            inv = json.loads(json.dumps(inv))  # the same plain-JSON form whether computed or read back
            if cache is not None:
                tmp = cache.with_suffix(f".{os.getpid()}.tmp")
                tmp.write_text(json.dumps(inv))
                os.replace(tmp, cache)
            self._inv = inv
        return self._inv

    def funcs(self):
        return {k: v for k, v in self.inv().items() if not k.startswith("__")}

    # ------------------------------------------------------------------ call histories on one object (static)
    def history_index(self):
        """{producer qualified name: {"class", "members": [qualified names], "kinds"}} for every public class of the
        inventoried modules: its constructor and classmethod constructors, and what can be called on an exact instance"""
        if getattr(self, "_hidx", None) is None:
            self._hidx = self.inv()["__histories__"]
        return self._hidx

    def _translator(self):
        if getattr(self, "_tr", None) is None:
            prog = T.Program(core.REPO, T.INVENTORY_MODULES)
            tr = T.Translator(prog)
            tr.infer_plain_fields()
            self._tr = (prog, tr)
        return self._tr

    def history_report(self, producer, driver=None):
        """the regenerated history program of one producer, analysed by the driver: which parameters of the history
        (constructor arguments and arguments of later method calls) may be written by SOME call history on the object
        (`Pew.Effects.history`, theorem `history_write_sound`), which the built object may retain (`retention_sound`),
        and — when something is reported — by which two-call history `construct; method` (`twoCall_write_sound`).
        Computed once per run and producer (whichever process needs it first), shared through the run's temp dir."""
        import json
        import os

        cache = getattr(self, "_hrep", None)
        if cache is None:
            cache = self._hrep = {}
        if producer in cache:
            return cache[producer]
        base = os.environ.get("PEWVERIF_TMPBASE")
        fpath = Path(base) / ("c19-history-" + producer.replace(".", "_") + ".json") if base and os.path.isdir(base) else None
        if fpath is not None and fpath.exists():
            cache[producer] = json.loads(fpath.read_text())
            return cache[producer]
        prog, tr = self._translator()
        cls_q = self.history_index()[producer]["class"]
        key = (cls_q.rsplit(".", 1)[0], cls_q.rsplit(".", 1)[1])
        producers, members = T.class_members(prog, key)
        pr = next(x for x in producers if (cls_q if x[0] == "init" else f"{cls_q}.{x[2].name}") == producer)
        h = tr.translate_history(key, pr, members)
        own = driver is None
        d = core.Driver() if own else driver
        try:
            rep = d.call("c19.history", np=h["np"], ctor=h["ctor"], methods=h["methods"])
            ret = d.call("c19.retained", np=h["np"], ctor=h["ctor"], x=h["obj"], t=h["tmp"])
            two = d.call("c19.two_call", np=h["np"], ctor=h["ctor"], methods=h["methods"])["two_call"] if rep["write"] else []
        finally:
            if own:
                d.close()
        params = [list(x) for x in h["params"]]
        out = {"producer": producer, "class": cls_q, "np": h["np"], "params": params, "members": [m[0] for m in members],
               "write": rep["write"], "top": rep["top"], "retained": ret["retained"],
               "two_call": {members[j][0]: w for j, w in enumerate(two) if w}, "diag": h["diag"]}
        out = json.loads(json.dumps(out))
        if fpath is not None:
            tmp = fpath.with_suffix(f".{os.getpid()}.tmp")
            tmp.write_text(json.dumps(out))
            os.replace(tmp, fpath)
        cache[producer] = out
        return out

    @staticmethod
    def history_broken(rep):
        """the parameters of a history that may be written although nothing allows it: "owner(param)" labels.
        A parameter the single-call rules let its own call write (ALLOWED_WRITES, or a `write` waiver of UNPROVED_STATIC:
        an open file's position) is not a caller-owned array / list / dict."""
        out = []
        for i in rep["write"]:
            owner, pname = rep["params"][i]
            if (owner, pname) in ALLOWED_WRITES or static_waived(owner, pname, "write"):
                continue
            out.append(f"{owner}({pname})")
        return out

    @staticmethod
    def _with_module_state_as_parameter(ir, gvar, index):
        """the same program with the object standing for the module-level state bound as parameter `index` (it is bound
        exactly once, to a fresh object, right after the real parameters)"""
        hit = []

        def walk(s):
            if s[0] == "bind" and s[1] == gvar and s[2][0] == "fresh" and not hit:
                hit.append(1)
                return ["bind", gvar, ["param", index]]
            if s[0] == "seq":
                return ["seq", [walk(t) for t in s[1]]]
            if s[0] == "branch":
                return ["branch", walk(s[1]), walk(s[2])]
            if s[0] == "loop":
                return ["loop", walk(s[1])]
            return s
        out = walk(ir)
        return out if hit else None

    def module_state_effects(self, d):
        """RECORDED ONLY (no verdict: module-level state is not an argument): the functions that, by the same analysis with
        the module-level state `G` (module globals, class attributes, mutable default arguments) as one more region, may
        write it or return (part of) it — a cache handing the same mutable object to two callers would show up here"""
        writes, returns = [], []
        for name, f in sorted(self.funcs().items()):
            if f.get("gvar") is None or any("UNKNOWN FUNCTION" in x for x in f["diag"]):
                if any("UNKNOWN FUNCTION" in x for x in f["diag"]):
                    writes.append(name + " (unknown function)")
                    returns.append(name + " (unknown function)")
                continue
            ir = self._with_module_state_as_parameter(f["ir"], f["gvar"], f["np"])
            if ir is None:
                continue
            rep = d.call("c19.analyse", np=f["np"] + 1, prog=ir)
            if f["np"] in rep["write"]:
                writes.append(name)
            if f["np"] in rep["ret"]:
                returns.append(name)
        return writes, returns

    def extra_evidence(self):
        """the per-(function, parameter) obligations computed by the Lean analysis on the regenerated IR"""
        d = core.Driver()
        try:
            import time as _t
            _t0 = _t.time()
            ms_w, ms_r = self.module_state_effects(d)
            ms_t = round(_t.time() - _t0, 2)
            n = ok = pairs = 0
            broken, unknown_calls, unproved, stale = [], [], [], []
            for name, f in sorted(self.funcs().items()):
                rep = f["report"]
                w = {f["params"][i] for i in rep["write"]}
                r = {f["params"][i] for i in rep["ret"]}
                unknown_calls += [f"{name}: {x}" for x in f["diag"]]
                for p in f["params"]:
                    pairs += 1
                    good = (p not in w or (name, p) in ALLOWED_WRITES or static_waived(name, p, "write")) \
                        and (p not in r or alias_allowed(name, p, f["kind"]) or static_waived(name, p, "alias"))
                    if (name, p) in UNPROVED_STATIC and good:
                        kinds, why = UNPROVED_STATIC[(name, p)]
                        needed = (p in w and "write" in kinds) or (p in r and "alias" in kinds)
                        (unproved if needed else stale).append(f"{name}({p}) [{kinds}]: {why}")
                        if needed:
                            continue  # not an obligation of the static half: only the dynamic calls apply to this pair
                    n += 1
                    ok += good
                    if not good:
                        broken.append(f"{name}({p})")
            known = {(name, p) for name, f in self.funcs().items() for p in f["params"]}
            stale += [f"{k[0]}({k[1]}): no such function/parameter" for k in sorted(UNPROVED_STATIC) if k not in known]
            reg_fail = []
            for cid in REG.all_ids():
                reg_fail += REG.check(cid, d)
            nreg = len(REG.all_ids())
            # call histories: one obligation per (producer, parameter of the history program)
            hn = hok = 0
            hbroken, retained, hunknown = [], {}, []
            for prod in sorted(self.history_index()):
                rep = self.history_report(prod, d)
                bad = set(self.history_broken(rep))
                for o, pn in rep["params"]:
                    hn += 1
                    hok += f"{o}({pn})" not in bad
                hbroken += [f"{prod}: {b} (two-call: {sorted(k.split('.')[-1] for k, v in rep['two_call'].items())})" for b in sorted(bad)]
                retained[prod] = [rep["params"][i][1] for i in rep["retained"] if rep["params"][i][0] == prod]
                hunknown += [f"{prod}: {x}" for x in rep["diag"] if "UNKNOWN HISTORY" in x]
            n_single = n
            n += hn
            ok += hok
        finally:
            d.close()
        return {"obligations": n, "discharged": ok,
                "coverage": {"inventoried_functions": len(self.funcs()), "function_parameter_pairs": pairs,
                             "function_parameter_obligations": n_single, "obligations_broken": broken[:50],
                             "static_unproved_dynamic_only": unproved, "static_unproved_entries_not_needed": stale,
                             "translator_regression_cases": f"{nreg}, " + ("all as expected" if not reg_fail
                                                                            else f"{len(reg_fail)} FAILED"),
                             "translator_regression_failures": reg_fail[:50],
                             "allowed_writes": [f"{k[0]}({k[1]}) [{v[0]}]: {v[1]}" for k, v in sorted(ALLOWED_WRITES.items())],
                             "fields_typed_plain": len(self.inv()["__plain_fields__"]),
                             "module_state_may_be_written_by (recorded only)": ms_w,
                             "results_may_hold_module_state (recorded only)": ms_r, "module_state_analysis_s": ms_t,
                             "history_programs": len(self.history_index()), "history_parameter_obligations": hn,
                             "history_obligations_broken": hbroken[:50], "history_programs_unknown": hunknown[:20],
                             "constructor_retained_parameters": retained,
                             "translator_unknown_calls": sorted(set(unknown_calls))[:50]}}

    def targeted(self, tier):
        # call histories on one object: the static obligation of every producer (constructor / classmethod constructor)
        # first — the history programs are the largest analyses of the run, the workers share the results — the classes
        # costliest first
        hidx = self.history_index()
        import json
        funcs = self.funcs()

        def cost(q):  # the producer's own program, run once, plus the members' programs in a loop
            return len(json.dumps(funcs[q]["ir"])) + 3 * sum(len(json.dumps(funcs[m]["ir"])) for m in hidx[q]["members"] if m in funcs)
        for prod in sorted(hidx, key=lambda q: (-cost(q) if q in funcs else 0, q)):
            yield {"hist": prod, "calls": [], "aseed": 0}
        # the translator's soundness / precision regression cases (harness/effects/tests): a failed one is a broken tie
        for cid in REG.all_ids():
            yield {"regress": cid}
        for name in sorted(self.funcs()):
            yield {"func": name, "aseed": 0}
        # calls the theorem's start state excludes: two array parameters that are the same object / overlapping views
        for name, f in sorted(self.funcs().items()):
            if len(self.array_params(f)) >= 2:
                for a in range(1, 5 if tier == "quick" else 25):
                    yield {"func": name, "aseed": a, "overlap": True}
        # the pairs the static half cannot decide rest on the dynamic calls alone: many more of those
        for name in sorted({k[0] for k in UNPROVED_STATIC} & set(self.funcs())):
            for a in range(1, 25 if tier == "quick" else 150):
                yield {"func": name, "aseed": a}
        # "whether it returns or raises": for every function a call (thorough: 8) with one argument of the wrong shape / dtype / length
        for name in sorted(self.funcs()):
            for a in (1,) if tier == "quick" else range(1, 9):
                yield {"func": name, "aseed": a, "malformed": True}
        # every function with an array / table argument: calls with the array classes forced (byte order, degenerate shapes,
        # single field, layouts, row order)
        for name, f in sorted(self.funcs().items()):
            if any("ndarray" in (f["sig"].get(p) or "") or "list[tuple" in (f["sig"].get(p) or "") for p in f["params"]) \
                    or name.endswith("sync_data_nwi_laser_log"):
                for a in (1, 2) if tier == "quick" else range(1, 13):
                    yield {"func": name, "aseed": a, "arrayform": True}
        # every two-call history `construct; member` run for real (mutators and setters with more argument seeds)
        for prod, h in sorted(self.history_index().items()):
            for m, kind in zip(h["members"], h["kinds"]):
                many = m.split(".")[-1] in self.MUTATING_MEMBERS or kind == "setter"
                for a in range(0, (4 if tier == "quick" else 12) if many else 1):
                    yield {"hist": prod, "calls": [m], "aseed": a}

    def generate(self, rng, tier):
        if rng.random() < 0.2:  # a longer call history on one object
            hidx = self.history_index()
            prod = rng.choice(sorted(p for p, h in hidx.items() if h["members"]))
            ms = hidx[prod]["members"]
            return {"hist": prod, "calls": [rng.choice(ms) for _ in range(rng.choice([1, 2, 2, 3, 3, 4]))],
                    "aseed": rng.randint(1, 10 ** 6)}
        names = sorted(self.funcs())
        name = rng.choice(names)
        case = {"func": name, "aseed": rng.randint(1, 10 ** 6)}
        if len(self.array_params(self.funcs()[name])) >= 2 and rng.random() < 0.15:
            case["overlap"] = True
        return case

    @staticmethod
    def array_params(f):
        return [p for p in f["params"] if (f["sig"].get(p) or "").replace(" ", "") in ("np.ndarray", "np.ndarray|None")]

    def search_extra(self, tier):
        """failing-input search: many argument seeds for exactly the functions whose static obligations are broken"""
        d = core.Driver()
        try:
            suspects = []
            for name, f in sorted(self.funcs().items()):
                rep = f["report"]
                w = [f["params"][i] for i in rep["write"]]
                r = [f["params"][i] for i in rep["ret"]]
                if any((name, p) not in ALLOWED_WRITES and not static_waived(name, p, "write") for p in w) \
                        or any(not alias_allowed(name, p, f["kind"]) and not static_waived(name, p, "alias") for p in r):
                    suspects.append(name)
        finally:
            d.close()
        # call histories whose static obligation is broken: the two-call histories the analysis names, then longer ones
        hsus = []
        for prod, h in sorted(self.history_index().items()):
            rep = self.history_report(prod)
            if self.history_broken(rep):
                hsus.append((prod, [m for m in h["members"] if m in rep["two_call"]] or h["members"], h["members"]))
        for s in range(60 if tier == "quick" else 200):
            for prod, ms, allm in hsus:
                for m in ms:
                    yield {"hist": prod, "calls": [m], "aseed": 10 ** 6 + 1 + s}
                yield {"hist": prod, "calls": [allm[(s + j) % len(allm)] for j in range(1 + s % 3)] + [ms[s % len(ms)]],
                       "aseed": 10 ** 6 + 1 + s}
        per = max(40, (1500 if tier == "quick" else 6000) // max(1, len(suspects)))
        for s in range(per):
            for name in suspects:
                yield {"func": name, "aseed": 10 ** 6 + 1 + s}

    def known(self, case, out):
        return None

    # ------------------------------------------------------------------
    def evaluate_regression(self, case, ctx):
        """one translator regression case: synthetic source -> real translator -> real Lean analysis (+ a real run)"""
        cid = case["regress"]
        if cid not in REG.all_ids():
            return outcome({"absent": True}, {"absent": True}, {"absent": True}, features=[])
        fails = REG.check(cid, ctx.driver)
        obs = {"regression_case": cid}
        return outcome(obs, {"regression_case": cid, "failures": fails}, obs, spec_ok=True, model_ok=not fails,
                       features=["translator-regression:" + cid.split(".")[0]],
                       note="; ".join(fails)[:1500])

    @staticmethod
    def _tup(t):
        return tuple(C19._tup(x) for x in t) if isinstance(t, list) else t

    def check_annotations(self, f, args):
        """`annotations are trusted` made checkable: every argument the factories build is what its annotation claims
        (plain ndarray / scalar / str / Path, builtin container of such, instance of the named pewlib class), and every
        pewlib object among the arguments holds plain values in the fields the translator typed as plain"""
        def classes(key):
            try:
                return getattr(importlib.import_module(key[0]), key[1])
            except Exception:
                return None
        bad = []
        for p, v in args.items():
            t = self._tup(f["types"].get(p))
            if p == "self" or t is None:
                continue
            if not observe.conforms(v, t, classes):
                bad.append(f"{p}: {type(v).__name__} is not {f['sig'].get(p)}")
        plain = {}
        for m, c, fld, t in self.inv()["__plain_fields__"]:
            plain.setdefault((m, c), []).append((fld, self._tup(t)))
        _, objs = observe.reachable(list(args.values()))
        for o in objs.values():
            key = (type(o).__module__, type(o).__name__)
            for fld, t in plain.get(key, ()):
                if fld in getattr(o, "__dict__", {}) and not observe.conforms(vars(o)[fld], t, classes):
                    bad.append(f"{key[1]}.{fld}: {type(vars(o)[fld]).__name__} is not {t}")
        return bad

    def make_overlap(self, f, args, mk):
        """two array arguments of one shape become the same object, or overlapping views of one buffer: what `Start`
        (distinct parameters are distinct regions) excludes.  Returns the groups of parameter names that overlap."""
        names = [p for p in self.array_params(f) if isinstance(args.get(p), np.ndarray)]
        groups = {}
        for p in names:
            groups.setdefault((args[p].shape, str(args[p].dtype)), []).append(p)
        out = []
        for (shape, dt), ps in sorted(groups.items(), key=lambda kv: kv[1]):
            if len(ps) < 2 or not shape or args[ps[0]].dtype.hasobject:
                continue
            a = args[ps[0]]
            if mk.rng.random() < 0.5 or a.dtype.names or a.ndim != 1:
                for q in ps[1:]:
                    args[q] = a  # the very same object
            else:
                n = a.size
                base = np.concatenate([a, a])
                args[ps[0]] = base[:n]
                for i, q in enumerate(ps[1:]):
                    k = max(1, n // 2)
                    args[q] = base[k:k + n]  # shares the upper half of the first one's memory
            out.append(ps)
        return out

    def evaluate(self, case, ctx):
        import random

        if "regress" in case:
            return self.evaluate_regression(case, ctx)
        if "hist" in case:
            return self.evaluate_history(case, ctx)
        inv = self.funcs()
        if case["func"] not in inv:
            # the function no longer exists (inventory is derived from the modules themselves): nothing to observe
            return outcome({"absent": True}, {"absent": True}, {"absent": True}, features=[])
        f = inv[case["func"]]
        name, kind, pnames = f["name"], f["kind"], f["params"]
        rep = f["report"]  # `Pew.Effects.ana` on this function's regenerated IR, evaluated by the driver once per run
        st_w = sorted(pnames[i] for i in rep["write"])
        st_r = sorted(pnames[i] for i in rep["ret"])
        bad_w = [p for p in st_w if (name, p) not in ALLOWED_WRITES and not static_waived(name, p, "write")]
        bad_r = [p for p in st_r if not alias_allowed(name, p, kind) and not static_waived(name, p, "alias")]
        model = {"static_write_outside_allowed": bad_w, "static_alias_outside_baseline": bad_r}
        # ---- dynamic call
        rng = random.Random(f"c19:{name}:{case['aseed']}")
        tmp = ctx.tmpdir()
        mk = Maker(rng, tmp)
        feats = {"kind:" + kind}
        import logging
        import warnings
        warnings.simplefilter("ignore")
        np.seterr(all="ignore")
        logging.disable(logging.CRITICAL)  # the readers log (and print tracebacks of) the failures they recover from
        overlaps = []
        try:
            try:
                args = build_new_args(mk, name, pnames, f["sig"]) if name.startswith(NEW_MODULES) \
                    else build_args(mk, name, pnames, f["sig"])
            except KeyError as e:
                raise core.InternalError(str(e))
            args = self.paths(name, args, mk, tmp)
            if case["aseed"] != 0:
                feats |= vary_arguments(mk, f, args, force_malformed=bool(case.get("malformed")))
                feats |= vary_arrays(mk, args, force=bool(case.get("arrayform")))
            if case.get("overlap"):
                overlaps = self.make_overlap(f, args, mk)
            wrong = self.check_annotations(f, args)
            if wrong:
                raise core.InternalError(f"argument factory of {name} contradicts an annotation the translator trusts: {wrong}")
            before = {k: snap(v) for k, v in args.items()}
            inner = {k: observe.inner_snapshot(v) for k, v in args.items()}
            raised = None
            result = None
            saved_perm = np.random.get_state()
            np.random.seed(rng.randint(0, 2 ** 31 - 1))
            import pewlib.io.csv as pcsv
            old_exec = getattr(pcsv, "ProcessPoolExecutor", None)
            if old_exec is not None:
                pcsv.ProcessPoolExecutor = InlineExecutor
            try:
                result = self.invoke(name, kind, args)
                if inspect.isgenerator(result):  # csv_valid_lines, read_datafile_csvs: the body runs when iterated
                    if case["aseed"] != 0 and rng.random() < 0.3:  # ... as far as the caller iterates
                        result = [next(result, None)] + [result.close()][:0]
                        feats.add("generator-partially-consumed")
                    else:
                        result = list(result)
            except Exception as e:  # arguments that make the call fail are part of the quantifier
                raised = type(e).__name__
            finally:
                np.random.set_state(saved_perm)
                if old_exec is not None:
                    pcsv.ProcessPoolExecutor = old_exec
            after = {k: snap(v) for k, v in args.items()}
            inner_changed = sorted(k for k in args if observe.inner_changed(inner[k]))
        finally:
            logging.disable(logging.NOTSET)
            for h in mk.handles:
                h.close()
        changed = sorted(k for k in args if before[k] != after[k])
        aliased = []
        if raised is None and result is not None:
            for k, v in args.items():
                if observe.shares(result, v):
                    aliased.append(k)
            # ... "so editing a result does not alter the argument it was computed from", literally: overwrite everything
            # reachable from the result, look at the arguments, put everything back
            edited = observe.edit_and_restore(result, lambda: sorted(k for k in args if snap(args[k]) != after[k]))
            if edited:
                feats.add("result-edit-reaches-argument")
            aliased += [k for k in edited if k not in aliased]
            # RECORDED ONLY (no verdict: not an alias of an input): does an equal second call hand out (part of) the same
            # object again — a cache or a module-level table returned by reference?
            if case["aseed"] != 0 and kind == "function" and rng.random() < 0.3 and not mk.handles:
                try:
                    again = self.invoke(name, kind, copy.deepcopy(args))
                    if again is not None and not inspect.isgenerator(again) and observe.shares(result, again):
                        feats.add("recorded-only:equal-calls-share-their-result:" + name.split("pewlib.")[-1])
                except Exception:
                    pass
        # a documented mutator may change its argument in any way; an object-state setter only the attribute bindings of
        # its receiver, never an array / list / dict that was reachable from any argument when the call started
        bad_changed = sorted({p for p in changed if not dyn_write_allowed(name, p)}
                             | {p for p in inner_changed if not dyn_inner_write_allowed(name, p)})
        bad_aliased = [p for p in sorted(aliased) if not alias_allowed(name, p, kind)]
        # the analysis predicts under `Start` (distinct parameters are distinct regions): with overlapping arguments an
        # effect on one of them is predicted when it is predicted for any member of its overlap group
        def group(p):
            return next((g for g in overlaps if p in g), [p])
        unpredicted = [p for p in changed if not any(q in st_w for q in group(p))] + \
            [p for p in aliased if p in pnames and not any(q in st_r for q in group(p))]
        impl = {"changed_outside_allowed": bad_changed, "aliased_outside_baseline": bad_aliased,
                "raised": raised is not None}
        spec = {"changed_outside_allowed": [], "aliased_outside_baseline": [], "raised": raised is not None}
        feats.add("raised" if raised else "returned")
        if name.startswith(NEW_MODULES):
            feats.add("module:" + name.split(".")[2])
        if any(isinstance(v, (np.ndarray, list, dict)) or hasattr(v, "__dict__") for v in args.values()):
            feats.add("has-mutable-arg")
        if changed:
            feats.add("documented-mutation-observed")
        if aliased:
            feats.add("alias-observed")
        if overlaps:
            feats.add("overlapping-array-arguments")
        if any(ALLOWED_WRITES.get((name, p), ("",))[0] == "setter" for p in pnames):
            feats.add("object-state-setter:inner-arrays-checked")
        model_ok = not bad_w and not bad_r and not unpredicted
        note = ""
        if unpredicted:
            note = f"dynamic effect not predicted by the analysis (translator/table unsound?): {unpredicted}"
        elif bad_w or bad_r:
            note = f"obligation broken: analysis reports may-write {bad_w} / may-alias {bad_r} for {name}"
        model["unpredicted"] = unpredicted
        return outcome(impl, model, spec, spec_ok=(not bad_changed and not bad_aliased), model_ok=model_ok,
                       features=feats if ("has-mutable-arg" in feats or any(x.startswith("recorded-only") for x in feats)) else [],
                       note=note)

    # ------------------------------------------------------------------ call histories on one object (dynamic)
    MUTATING_MEMBERS = ("add", "remove", "rename")

    @staticmethod
    def fit_to_receiver(obj, member, args, mk):
        """arguments of a later call that must match the object built earlier (the new element's shape)"""
        if member.split(".")[-1] == "add" and "data" in args:
            data = getattr(obj, "data", None)
            if isinstance(data, np.ndarray):
                args["data"] = mk.arr(data.shape[:2], nan=0)
            elif isinstance(data, (list, tuple)) and data and all(isinstance(x, np.ndarray) for x in data):
                args["data"] = [mk.arr(x.shape, nan=0) for x in data]

    def evaluate_history(self, case, ctx):
        """construct an object from caller-owned containers, keep deep snapshots AND identities of everything passed,
        run the named methods on the object one after the other (arguments from the factories, also kept), and compare
        every caller-owned container after every step: values, and which object sits in which slot.  The static
        obligation of the producer's history program (`history_report`) is the model side."""
        import logging
        import random
        import warnings

        inv, hidx = self.funcs(), self.history_index()
        prod, calls = case["hist"], list(case["calls"])
        if prod not in hidx or any(c not in hidx[prod]["members"] for c in calls):
            return outcome({"absent": True}, {"absent": True}, {"absent": True}, features=[])
        rep = self.history_report(prod, ctx.driver)
        broken = self.history_broken(rep)
        if prod not in inv or any(c not in inv for c in calls):
            # a producer / member the single-call inventory does not list (an inherited constructor): no argument factory,
            # the static obligation of the history program still applies
            obs = {"caller_owned_changed": [], "calls_made": 0}
            return outcome(obs, {"history_write_outside_allowed": broken, "unpredicted": []}, obs, spec_ok=True,
                           model_ok=not broken, features=["history:static-only"],
                           note=f"history obligation broken: {broken}" if broken else "")
        predicted = {f"{o}({n})" for o, n in (rep["params"][i] for i in rep["write"])} | \
            ({f"{o}({n})" for o, n in rep["params"]} if rep["top"] else set())
        model = {"history_write_outside_allowed": broken}
        rng = random.Random(f"c19h:{prod}:{'|'.join(calls)}:{case['aseed']}")
        tmp = ctx.tmpdir()
        mk = Maker(rng, tmp)
        feats = {"history:%d-calls" % len(calls), "history-producer:" + inv[prod]["kind"]}
        warnings.simplefilter("ignore")
        np.seterr(all="ignore")
        logging.disable(logging.CRITICAL)
        owned, changed_at, steps, raised_at = [], {}, [], []

        def keep(owner, args):
            for k, v in args.items():
                if k not in ("self", "cls"):
                    owned.append((f"{owner}({k})", v, snap(v), observe.inner_snapshot(v), observe.identity_snapshot(v)))

        def compare(step):
            for label, v, deep, inner, ident in owned:
                if label not in changed_at and (snap(v) != deep or observe.inner_changed(inner) or observe.identity_changed(ident)):
                    changed_at[label] = step

        def build(name, pnames):
            f = inv[name]
            mk.tmp = tmp / f"step{len(owned)}-{len(steps)}"  # the synthetic files of each call in a directory of their own
            mk.tmp.mkdir(exist_ok=True)
            try:
                a = build_new_args(mk, name, pnames, f["sig"]) if name.startswith(NEW_MODULES) else build_args(mk, name, pnames, f["sig"])
            except KeyError as e:
                raise core.InternalError(str(e))
            a = self.paths(name, a, mk, mk.tmp)
            if case["aseed"] != 0:
                feats.update(x for x in vary_arguments(mk, f, a))
                feats.update(x for x in vary_arrays(mk, a))
            wrong = self.check_annotations(f, a)
            if wrong:
                raise core.InternalError(f"argument factory of {name} contradicts an annotation the translator trusts: {wrong}")
            return a
        saved_perm = np.random.get_state()
        np.random.seed(rng.randint(0, 2 ** 31 - 1))
        try:
            fp = inv[prod]
            pargs = build(prod, [p for p in fp["params"] if p not in ("self", "cls")])
            for v in pargs.values():
                if isinstance(v, (list, tuple, dict, np.ndarray)):
                    feats.add("history:caller-" + type(v).__name__)
            keep(prod, pargs)
            obj = None
            try:
                obj = self.invoke(prod, fp["kind"], dict(pargs))
            except Exception as e:
                raised_at.append(0)
            compare(0)
            steps.append(prod)
            if obj is not None:
                for i, c in enumerate(calls, start=1):
                    fc = inv[c]
                    margs = build(c, [p for p in fc["params"] if p not in ("self", "cls")])
                    self.fit_to_receiver(obj, c, margs, mk)
                    keep(c, margs)
                    try:
                        r = self.invoke(c, fc["kind"], dict(margs, self=obj))
                        if inspect.isgenerator(r):
                            list(r)
                    except Exception:
                        raised_at.append(i)
                    compare(i)
                    steps.append(c)
                    if c.split(".")[-1] in self.MUTATING_MEMBERS or c.endswith(".setter"):
                        feats.add("history:mutator-or-setter-call")
        finally:
            np.random.set_state(saved_perm)
            logging.disable(logging.NOTSET)
            for h in mk.handles:
                h.close()
        if raised_at:
            feats.add("history:a-call-raised")
        bad = sorted(changed_at)
        impl = {"caller_owned_changed": [f"{k} after step {changed_at[k]} ({steps[changed_at[k]].split('.')[-1]})" for k in bad],
                "calls_made": len(steps)}
        spec = {"caller_owned_changed": [], "calls_made": len(steps)}
        unpredicted = [k for k in bad if k not in predicted]
        model["unpredicted"] = unpredicted
        note = ""
        if unpredicted:
            note = f"dynamic effect of a call history not predicted by the analysis of the history program: {unpredicted}"
        elif broken:
            note = (f"history obligation broken: after {prod}(...) some sequence of method calls may write {broken}"
                    f" (two-call histories: { {k.split('.')[-1]: [rep['params'][i][1] for i in v] for k, v in rep['two_call'].items()} });"
                    f" the object may retain {[rep['params'][i][1] for i in rep['retained'] if rep['params'][i][0] == prod]}")
        return outcome(impl, model, spec, spec_ok=not bad, model_ok=not broken and not unpredicted, features=feats, note=note[:1500])

    def paths(self, name, args, mk, tmp):
        """replace the PATH placeholders by real files / destinations under the private temp dir"""
        from pewlib.io import npz, textimage

        for k, v in list(args.items()):
            if not (isinstance(v, str) and v == "PATH"):
                continue
            if name.endswith("npz.load"):
                p = tmp / "in.npz"
                npz.save(p, mk.laser())
            elif name.endswith("npz.save"):
                p = tmp / "out.npz"
            elif name.endswith("textimage.load"):
                p = tmp / "in.csv"
                textimage.save(p, mk.arr((3, 4), 0))
            elif name.endswith("textimage.save"):
                p = tmp / "out.csv"
            elif name.endswith("vtk.save"):
                p = tmp / "out.vti"
            elif "io.laser" in name:
                p = tmp / "log.csv"
                p.write_text(NWI_LOG)
                if k == "log_file" and mk.rng.random() < 0.5:
                    from pewlib.io import laser as iolaser

                    p = iolaser.read_nwi_laser_log(p)
            else:
                p = tmp / "x"
            args[k] = p
        return args

    def invoke(self, name, kind, args):
        obj, rest = qual_to_callable(name, kind)
        a = dict(args)
        if name.endswith(".setter"):
            selfv = a.pop("self")
            (pname, val), = a.items()
            setattr(selfv, rest[-2], val)
            return None
        if kind == "constructor":
            return obj(**a)
        if kind == "method":
            cls_name, meth = rest[-2], rest[-1]
            raw = obj
            if isinstance(raw, property):
                return raw.fget(a["self"])
            if isinstance(raw, classmethod):
                cls = getattr(importlib.import_module(name.rsplit(".", 2)[0]), cls_name)
                a.pop("cls", None)
                return getattr(cls, meth)(**a)
            if isinstance(raw, staticmethod):
                return raw.__func__(**a)
            selfv = a.pop("self")
            return getattr(selfv, meth)(**a)
        return obj(**a)

    def shrink(self, case):
        if "regress" in case:
            return
        if "hist" in case:
            for i in range(len(case["calls"])):
                yield {**case, "calls": case["calls"][:i] + case["calls"][i + 1:]}
        if case["aseed"] != 0:
            yield {**case, "aseed": 0}


NWI_LOG = (
    "Timestamp, Sequence Number, SubPoint Number, Vertix Number, Comment, X(um), Y(um), Intended X(um), Intended Y(um), "
    "Scan Velocity (um/s), Laser State, Laser Rep. Rate (Hz), Spot Type, Spot Size (um), Spot Angle, MFC1, MFC2, Cell Pressure, Cell Flow\n"
    "2023-01-01 00:00:00.000,1,1,1,p1,100.0000,200.0000,100.0000,200.0000,10.0,On,100,Square,10 x 10,0,1,1,1,1\n"
    "2023-01-01 00:00:01.000,,1,2,,140.0000,200.0000,140.0000,200.0000,10.0,Off,100,Square,10 x 10,0,1,1,1,1\n"
    "2023-01-01 00:00:02.000,,2,1,,100.0000,210.0000,100.0000,210.0000,10.0,On,100,Square,10 x 10,0,1,1,1,1\n"
    "2023-01-01 00:00:03.000,,2,2,,140.0000,210.0000,140.0000,210.0000,10.0,Off,100,Square,10 x 10,0,1,1,1,1\n"
)

PROP = C19()

if __name__ == "__main__":
    sys.exit(core.main(PROP, "harness.c19"))
