"""Synthetic imzML / ibd writer shared by C05 and C17.

A *document description* (`doc`, plain JSON) is the single source for both the text handed to
pewlib and the abstract description handed to the Lean driver:

    doc = {
      "decl": bool,                        # emit the <?xml …?> declaration line
      "indent": str, "trail": str,         # layout noise: indentation unit, trailing white space
      "pre": [sect], "mid1": [sect], "mid2": [sect], "post": [sect],   # noise sections (ignored by both parsers)
      "settings_first": bool,              # <scanSettingsList> before <referenceableParamGroupList>
      "groups":   [{"id": str, "items": [item]}],
      "settings": [{"id": str, "items": [item]}],
      "spectra":  [{"id": str, "items": [item], "scanlist": [item], "scans": [[item]],
                    "arrays": [{"items": [item]}], "tail": [item]}],
    }
    sect = {"tag": str, "items": [item]}
    item = {"t": "cv", "acc": str, "value": str | None, "style": int, "name": str}
         | {"t": "user", "name": str, "value": str}
         | {"t": "ref", "ref": str}
         | {"t": "misc", "text": str}      # <binary/>, comments

Every element is written on its own line (the layout of DESIGN.md §5.17).  `style` selects the
attribute order of a cvParam line; in all of them `accession=` precedes `value=`.
"""
from __future__ import annotations

import struct

import numpy as np

ACC = {
    "MZ_ARRAY": "MS:1000514", "INTENSITY_ARRAY": "MS:1000515", "EXTERNAL_DATA": "IMS:1000101",
    "F32": "MS:1000521", "F64": "MS:1000523", "I32": "MS:1000519", "I64": "MS:1000522",
    "I8": "IMS:1100000", "I16": "IMS:1100001",
    "NO_COMPRESSION_REAL": "MS:1000576",
    "SIZE_X": "IMS:1000042", "SIZE_Y": "IMS:1000043", "PIXEL_X": "IMS:1000046", "PIXEL_Y": "IMS:1000047",
    "POS_X": "IMS:1000050", "POS_Y": "IMS:1000051", "TIC": "MS:1000285",
    "OFFSET": "IMS:1000102", "ARRAY_LENGTH": "IMS:1000103", "ENCODED_LENGTH": "IMS:1000104",
}
DTYPE_ACC = {"f4": ACC["F32"], "f8": ACC["F64"]}
NP_DTYPE = {"f4": np.float32, "f8": np.float64}
NSTYLES = 5


def cv(acc, value=None, style=0, name="p"):
    return {"t": "cv", "acc": acc, "value": value, "style": style, "name": name}


def user(name, value):
    return {"t": "user", "name": name, "value": value}


def ref(r):
    return {"t": "ref", "ref": r}


def misc(text):
    return {"t": "misc", "text": text}


def render_item(it) -> str:
    t = it["t"]
    if t == "cv":
        a, v, n = it["acc"], it["value"], it.get("name", "p")
        cvref = a.split(":")[0]
        val = "" if v is None else f' value="{v}"'
        s = it.get("style", 0) % NSTYLES
        if s == 0:
            return f'<cvParam cvRef="{cvref}" accession="{a}" name="{n}"{val}/>'
        if s == 1:  # unit attributes between accession and value (SCiLS order)
            return f'<cvParam accession="{a}" cvRef="{cvref}" name="{n}" unitAccession="MS:1000040" unitCvRef="MS" unitName="m/z"{val}/>'
        if s == 2:  # unit attributes after the value
            return f'<cvParam cvRef="{cvref}" accession="{a}" name="{n}"{val} unitCvRef="UO" unitAccession="UO:0000017" unitName="micrometer"/>'
        if s == 3:
            return f'<cvParam accession="{a}"{val} name="{n}" cvRef="{cvref}"/>'
        return f'<cvParam   cvRef="{cvref}"  accession="{a}"   name="{n}"{val} />'
    if t == "user":
        return f'<userParam name="{it["name"]}" value="{it["value"]}"/>'
    if t == "ref":
        return f'<referenceableParamGroupRef ref="{it["ref"]}"/>'
    if t == "misc":
        return it["text"]
    raise ValueError(t)


def render_lines(doc) -> list[tuple[int, str]]:
    """(depth, text) per line"""
    out: list[tuple[int, str]] = []

    def items(d, its):
        for it in its:
            out.append((d, render_item(it)))

    def sects(d, ss):
        for s in ss:
            out.append((d, f'<{s["tag"]}>'))
            items(d + 1, s["items"])
            out.append((d, f'</{s["tag"]}>'))

    def groups():
        out.append((1, f'<referenceableParamGroupList count="{len(doc["groups"])}">'))
        for g in doc["groups"]:
            out.append((2, f'<referenceableParamGroup id="{g["id"]}">'))
            items(3, g["items"])
            out.append((2, "</referenceableParamGroup>"))
        out.append((1, "</referenceableParamGroupList>"))

    def settings():
        out.append((1, f'<scanSettingsList count="{len(doc["settings"])}">'))
        for s in doc["settings"]:
            out.append((2, f'<scanSettings id="{s["id"]}">'))
            items(3, s["items"])
            out.append((2, "</scanSettings>"))
        out.append((1, "</scanSettingsList>"))

    if doc.get("decl", True):
        out.append((0, '<?xml version="1.0" encoding="UTF-8"?>'))
    out.append((0, '<mzML version="1.1.0" xmlns="http://psi.hupo.org/ms/mzml" '
                   'xmlns:xsi="http://www.w3.org/2001/XMLSchema-instance">'))
    sects(1, doc.get("pre", []))
    if doc.get("settings_first", False):
        settings()
        sects(1, doc.get("mid1", []))
        groups()
    else:
        groups()
        sects(1, doc.get("mid1", []))
        settings()
    sects(1, doc.get("mid2", []))
    out.append((1, '<run defaultInstrumentConfigurationRef="ic0" id="run0">'))
    out.append((2, f'<spectrumList count="{len(doc["spectra"])}" defaultDataProcessingRef="dp0">'))
    for i, s in enumerate(doc["spectra"]):
        out.append((3, f'<spectrum defaultArrayLength="0" id="{s.get("id", "spectrum=%d" % i)}" index="{i}">'))
        items(4, s["items"])
        out.append((4, f'<scanList count="{len(s["scans"])}">'))
        items(5, s["scanlist"])
        for sc in s["scans"]:
            out.append((5, '<scan instrumentConfigurationRef="ic0">'))
            items(6, sc)
            out.append((5, "</scan>"))
        out.append((4, "</scanList>"))
        out.append((4, f'<binaryDataArrayList count="{len(s["arrays"])}">'))
        for a in s["arrays"]:
            out.append((5, '<binaryDataArray encodedLength="0">'))
            items(6, a["items"])
            out.append((5, "</binaryDataArray>"))
        out.append((4, "</binaryDataArrayList>"))
        items(4, s.get("tail", []))
        out.append((3, "</spectrum>"))
    out.append((2, "</spectrumList>"))
    out.append((1, "</run>"))
    sects(1, doc.get("post", []))
    out.append((0, "</mzML>"))
    return out


def render(doc) -> str:
    ind, trail = doc.get("indent", "  "), doc.get("trail", "")
    return "".join(ind * d + t + trail + "\n" for d, t in render_lines(doc))


def line_end_positions(doc) -> list[int]:
    """byte offset just after each line of `render(doc)` (ASCII only)"""
    pos, out = 0, []
    ind, trail = doc.get("indent", "  "), doc.get("trail", "")
    for d, t in render_lines(doc):
        pos += len((ind * d + t + trail + "\n").encode("utf-8"))
        out.append(pos)
    return out


# ----------------------------------------------------------------------------- binary side
def layout_ibd(spectra, mzdt, itdt, *, shared=False, rng=None, intensity_first=False, links=None):
    """spectra: [{"mz": [float], "it": [float]}].  Returns (bytes, [{"mz": (off, nbytes, n), "it": (...)}]).
    `shared`: one m/z array at a single offset referenced by every spectrum (continuous mode; the
    caller guarantees equal axes).  Random padding between the arrays when `rng` is given.
    `links`: {i: {"mz": b} | {"it": b} | both}: the named array of spectrum i is NOT stored; spectrum i
    points at the offset of the same array of spectrum b (stored once) with its OWN length - a leading
    part of it (never more than is stored: the length is clamped).  b may come before or after i in
    the file; b's own array must be stored (links to a linked array are followed)."""
    buf = bytearray(b"\x00" * 16)  # UUID
    metas = []
    links = {int(k): v for k, v in (links or {}).items()}

    def put(vals, dt):
        if rng is not None and rng.random() < 0.3:
            buf.extend(b"\xff" * rng.randint(1, 9))
        arr = np.asarray(vals, dtype=NP_DTYPE[dt])
        off = len(buf)
        buf.extend(arr.tobytes())
        return (off, arr.nbytes, len(arr))

    def linked(i, which):
        b = links.get(i, {}).get(which)
        return None if b is None or not (0 <= b < len(spectra)) or b == i else b

    shared_mz = None
    for i, s in enumerate(spectra):
        lm, li = linked(i, "mz"), linked(i, "it")
        if shared:
            if shared_mz is None:
                shared_mz = put(s["mz"], mzdt)
            metas.append({"mz": shared_mz, "it": None if li is not None else put(s["it"], itdt)})
        elif intensity_first:
            it = None if li is not None else put(s["it"], itdt)
            metas.append({"mz": None if lm is not None else put(s["mz"], mzdt), "it": it})
        else:
            m = None if lm is not None else put(s["mz"], mzdt)
            metas.append({"mz": m, "it": None if li is not None else put(s["it"], itdt)})
    for which, dt in (("mz", mzdt), ("it", itdt)):
        width = np.dtype(NP_DTYPE[dt]).itemsize
        for i, s in enumerate(spectra):
            if metas[i][which] is not None:
                continue
            b, seen = linked(i, which), {i}
            while b is not None and metas[b][which] is None and b not in seen:
                seen.add(b)
                b = linked(b, which)
            if b is None or metas[b][which] is None:  # no stored array to point at: store it after all
                metas[i][which] = put(s[which], dt)
                continue
            off, _, nb = metas[b][which]
            n = min(len(s[which]), nb)
            metas[i][which] = (off, n * width, n)
    return bytes(buf), metas


def array_items(refname, meta, style=0):
    off, nbytes, n = meta
    return [ref(refname), cv(ACC["ARRAY_LENGTH"], str(n), style, "external array length"),
            cv(ACC["ENCODED_LENGTH"], str(nbytes), style, "external encoded length"),
            cv(ACC["OFFSET"], str(off), style, "external offset"), misc("<binary/>")]


def simple_doc(positions, tics, metas, *, size, pixel=("30", "30"), mzdt="f8", itdt="f4", style=0):
    """plain document without layout noise.  positions: [(x, y)], tics: [str | None]"""
    groups = [
        {"id": "mzArray", "items": [cv(ACC["MZ_ARRAY"], None, style, "m/z array"), cv(DTYPE_ACC[mzdt], None, style, "float"),
                                    cv(ACC["NO_COMPRESSION_REAL"], None, style, "no compression"),
                                    cv(ACC["EXTERNAL_DATA"], "true", style, "external data")]},
        {"id": "intensities", "items": [cv(ACC["INTENSITY_ARRAY"], None, style, "intensity array"),
                                        cv(DTYPE_ACC[itdt], None, style, "float"),
                                        cv(ACC["NO_COMPRESSION_REAL"], None, style, "no compression"),
                                        cv(ACC["EXTERNAL_DATA"], "true", style, "external data")]},
        {"id": "spectrum", "items": [cv("MS:1000294", None, style, "mass spectrum")]},
    ]
    sitems = [cv("IMS:1000401", None, style, "top down")]
    if size is not None:
        sitems += [cv(ACC["SIZE_X"], str(size[0]), style, "max count of pixels x"),
                   cv(ACC["SIZE_Y"], str(size[1]), style, "max count of pixels y")]
    sitems += [cv(ACC["PIXEL_X"], pixel[0], style, "pixel size x"), cv(ACC["PIXEL_Y"], pixel[1], style, "pixel size y")]
    spectra = []
    for (x, y), tic, m in zip(positions, tics, metas):
        its = [ref("spectrum"), cv("MS:1000130", None, style, "positive scan")]
        if tic is not None:
            its.append(cv(ACC["TIC"], tic, style, "total ion current"))
        spectra.append({
            "items": its, "scanlist": [cv("MS:1000795", None, style, "no combination")],
            "scans": [[cv(ACC["POS_X"], str(x), style, "position x"), cv(ACC["POS_Y"], str(y), style, "position y")]],
            "arrays": [{"items": array_items("mzArray", m["mz"], style)}, {"items": array_items("intensities", m["it"], style)}],
            "tail": [],
        })
    return {"decl": True, "indent": "  ", "trail": "", "pre": [], "mid1": [], "mid2": [], "post": [],
            "settings_first": False, "groups": groups, "settings": [{"id": "scanSettings0", "items": sitems}],
            "spectra": spectra}


def write_pair(dirpath, doc, ibd: bytes, stem="t"):
    p = dirpath / f"{stem}.imzML"
    p.write_text(render(doc), encoding="utf-8", newline="\n")
    (dirpath / f"{stem}.ibd").write_bytes(ibd)
    return p
