"""C09 — SRR reconstruction follows its geometric model: pewlib.srr.srr.SRRLaser (check_config_valid, get,
krisskross), pewlib.srr.config.SRRConfig, pewlib.process.calc.subpixel_offset against PewModel/Srr.lean
(mechanism `validForData`, `krisskross`, `getFlat`, `getLayer`, `SrrConfig.fromArray ∘ toArray`;
specification `voxel`, `flatSpec`)."""
import sys
from fractions import Fraction

import numpy as np

from harness import core
from harness.core import Prop, outcome, rat, unrat
from harness.c10 import fclose, float_mag, gen_srr, make_srr_cfg, srr_cfg_json, stack_shapes

NAMES = ["A", "B", "C"]
FLAT_REL = 1e-12


def tokens(a):
    """integer-valued floats -> ints (anything else stays a float and cannot equal a token)"""
    return [int(v) if float(v).is_integer() else float(v) for v in np.asarray(a, dtype=np.float64).ravel()]


def enc3(arr, names):
    """structured (R, C, n) array -> {"shape", "data"} with data[r][c][i] = [token per element]"""
    if arr.ndim != 3:
        return {"shape": list(arr.shape)}
    per = np.stack([np.asarray(arr[n], dtype=np.float64) for n in names], axis=-1)
    return {"shape": list(arr.shape), "data": [[[tokens(v) for v in row] for row in plane] for plane in per]}


def enc2(arr, names):
    if arr.ndim != 2:
        return {"shape": list(arr.shape)}
    per = np.stack([np.asarray(arr[n], dtype=np.float64) for n in names], axis=-1)
    return {"shape": list(arr.shape), "data": [[tokens(v) for v in row] for row in per]}


def pick_element(enc, e):
    """projection of an encoded structured array on element e"""
    if "data" not in enc:
        return enc

    def proj(x, depth):
        return x[e] if depth == 0 else [proj(y, depth - 1) for y in x]

    return {"shape": enc["shape"], "data": proj(enc["data"], len(enc["shape"]))}


def flat_close(vals, rats):
    """2-D list of floats against 2-D list of exact rationals"""
    if len(vals) != len(rats):
        return False
    for rv, rr in zip(vals, rats):
        if len(rv) != len(rr):
            return False
        for v, q in zip(rv, rr):
            if not fclose(float(v), unrat(q), FLAT_REL):
                return False
    return True


class C09(Prop):
    id = "C09"
    anchored = ["src/pewlib/srr/srr.py", "src/pewlib/srr/config.py", "src/pewlib/process/calc.py"]
    cases = {"quick": 260, "thorough": 12000}
    rule = ("crossed stacks of 2..5 layers (layer i has the shape of layer i mod 2), 1..6 lines, samples = warm-up + needed + excess "
            "0..7 (or 1-2 short / negative warm-up: the validity check must then not accept something that cannot be reconstructed), "
            "magnification 1..4 realised by (spotsize, speed, scantime) triples incl. binary-inexact values whose float quotient is the "
            "integer, warm-up 0..5 samples given in seconds (exact, fractional, exact rounding tie), 1..4 offsets with denominators "
            "1..6, first offset zero or not, 1..3 elements, every sample a unique integer token. Non-trivial = accepted and reconstructed; "
            "rejected stacks still exercise the validity check, layer reads and the round trip; distinct by canonical case hash")
    trusted = [
        "'integer magnification' means spotsize/(speed*scantime) evaluates to an integer in float64 (DESIGN 6a); the model is given that value",
        "np.round(seconds/scantime) equals round-half-even of the exact quotient of the float values unless that quotient is within 1e-9 of a "
        "tie without being one (such cases are counted undetermined)",
        "np.mean over <= 5 integer-valued float64 layers is within 1e-12 relative of the exact mean",
        "NumPy slicing, np.repeat, .T, np.zeros and slice assignment behave as documented (modelled step by step in PewModel/Srr.lean)",
    ]
    assumptions = [
        "layer i of a stack has the shape of layer (i mod 2) (crossed layers, DESIGN 6a)",
        "a configuration the implementation rejects although the model accepts it is not a violation (the property only speaks of accepted "
        "configurations); it is counted under the feature 'impl-rejects-model-accepts'",
    ]

    def generate(self, rng, tier):
        if rng.random() < 0.04:
            # DESIGN 6a: triples whose float quotient is just off an integer are outside "integer magnification";
            # they are run and only reported (feature counts), never compared
            case = gen_srr(rng, max_vox=4000, force_valid=True)
            M = case["mag"]
            for _ in range(50):
                speed, scantime = rng.choice([3.0, 0.3, 1.7, 33.3, 7.3]), rng.choice([0.1, 0.3, 0.007, 1.3])
                spot = M * rng.choice([0.3, 0.51, 2.21, 43.29, 0.021]) if rng.random() < 0.5 else float(np.nextafter(M * speed * scantime, rng.choice([0.0, 1e9])))
                q = spot / (speed * scantime)
                if q != float(M) and abs(q - M) < 1e-9:
                    case.update({"spotsize": spot, "speed": speed, "scantime": scantime, "near": True, "nel": 1, "element": 0,
                                 "warmup": 0.0, "wmode": "exact"})
                    w = 0
                    (l0, _), (l1, _) = case["shapes"]
                    case["shapes"] = [[l0, l1 * M + 1], [l1, l0 * M + 2]]
                    return case
        case = gen_srr(rng, max_vox=9000 if tier == "quick" else 16000, force_valid=False)
        case["nel"] = rng.choice([1, 1, 2, 3])
        case["element"] = rng.randrange(case["nel"])
        return case

    def targeted(self, tier):
        base = {"spotsize": 35.0, "speed": 140.0, "scantime": 0.25, "warmup": 0.0, "pairs": [[0, 2], [1, 2]], "mag": 1,
                "n": 2, "short": None, "wmode": "exact", "nel": 1, "element": 0}
        # magnification exactly 1 with excess samples (the repaired defect): 3 x 5 layers
        yield {**base, "shapes": [[3, 5], [3, 5]]}
        yield {**base, "shapes": [[4, 20], [6, 20]]}
        yield {**base, "shapes": [[1, 1], [1, 1]]}
        yield {**base, "shapes": [[1, 2], [2, 1]], "n": 3}
        # mag 2, warm-up 2 samples, non-square, first offset non-zero, three elements
        yield {**base, "spotsize": 70.0, "mag": 2, "warmup": 0.5, "pairs": [[1, 3], [2, 3], [0, 1]], "shapes": [[2, 9], [3, 7]],
               "n": 5, "nel": 3, "element": 2}
        # exact fit and one sample short
        yield {**base, "spotsize": 105.0, "mag": 3, "warmup": 0.25, "pairs": [[0, 1]], "shapes": [[2, 4], [1, 7]], "n": 2}
        yield {**base, "spotsize": 105.0, "mag": 3, "warmup": 0.25, "pairs": [[0, 1]], "shapes": [[2, 3], [1, 7]], "n": 2, "short": "s0"}
        yield {**base, "spotsize": 105.0, "mag": 3, "warmup": 0.25, "pairs": [[0, 1]], "shapes": [[2, 4], [1, 6]], "n": 2, "short": "s1"}
        yield {**base, "warmup": -0.25, "shapes": [[2, 4], [2, 4]], "short": "neg"}

    def search_extra(self, tier):
        """small-scope enumeration used by the failing-input search: two-layer stacks, mag 1..2, all small shapes"""
        base = {"speed": 140.0, "scantime": 0.25, "n": 2, "short": None, "wmode": "exact", "nel": 1, "element": 0}
        for M in (1, 2):
            for l0 in (1, 2, 3):
                for l1 in (1, 2, 3):
                    for w in (0, 1):
                        for ex in (0, 1, 2):
                            for pairs in ([[0, 1]], [[0, 2], [1, 2]], [[1, 2]], [[1, 3], [0, 3], [2, 3]]):
                                yield {**base, "spotsize": 35.0 * M, "mag": M, "warmup": w * 0.25, "pairs": pairs,
                                       "shapes": [[l0, w + l1 * M + ex], [l1, w + l0 * M + ex]]}
                        # both layer kinds with the same number of samples
                        s = max(l0, l1) * M + 1
                        yield {**base, "spotsize": 35.0 * M, "mag": M, "warmup": 0.0, "pairs": [[0, 2], [1, 2]],
                               "shapes": [[l0, s], [l1, s]]}

    def build_layers(self, case):
        shapes = stack_shapes(case)
        nel = case["nel"]
        total = sum(l * s for l, s in shapes)
        layers, enc = [], []
        start = 1
        for (l, s) in shapes:
            a = np.empty((l, s), dtype=[(n, np.float64) for n in NAMES[:nel]])
            base = np.arange(start, start + l * s, dtype=np.float64).reshape(l, s)
            for e, n in enumerate(NAMES[:nel]):
                a[n] = base + e * total
            start += l * s
            layers.append(a)
            enc.append({"rows": l, "cols": s, "data": [[int(v) + e * total for e in range(nel)] for v in base.ravel()]})
        return layers, enc

    def evaluate(self, case, ctx):
        from pewlib.srr.config import SRRConfig
        from pewlib.srr.srr import SRRLaser

        names = NAMES[:case["nel"]]
        e = case["element"]
        layers, enc = self.build_layers(case)
        mag = float_mag(case)
        if case.get("near"):
            laser = SRRLaser(layers, config=make_srr_cfg(case))
            try:
                v = bool(laser.check_config_valid(laser.config))
                status = "rejected"
                if v:
                    laser.get()
                    status = "accepted-and-reconstructs"
            except Exception as ex:
                status = "accepted-but-raises-" + type(ex).__name__
            side = "below" if mag < case["mag"] else "above"
            obs = {"near_integer_magnification": status}
            return outcome(obs, obs, obs, undetermined=True, hyp=False, features=[f"near-integer-mag-{side}:{status}"])
        if mag != float(case["mag"]):
            raise core.InternalError("generator: magnification is not the intended float integer")
        cfg = make_srr_cfg(case)
        laser = SRRLaser(layers, config=cfg)
        # the configuration as the implementation states it (public getters); the geometric model is evaluated for it
        observed = None
        try:
            wq = Fraction(float(cfg.warmup)) / Fraction(case["scantime"])
            so = np.asarray(cfg.subpixel_offsets)
            if abs(wq - round(wq)) <= Fraction(1, 10**9) and so.ndim == 2 and so.shape[0] >= 1 and int(so[:, 0].min()) >= 0 \
                    and int(cfg.subpixels_per_pixel) >= 0:
                observed = {"w": int(round(wq)), "offs": [int(v) for v in so[:, 0]], "p": int(cfg.subpixels_per_pixel)}
        except Exception:
            observed = None
        rep = ctx.driver.call("c09.srr", cfg=srr_cfg_json(case), mag=rat(mag), nel=case["nel"], layers=enc, observed=observed)

        # ---- implementation, observed at check_config_valid / get / krisskross and the config's array round trip
        valid = bool(laser.check_config_valid(laser.config))
        impl = {"valid": valid}
        if valid:
            try:
                recon = laser.get()
                impl["recon"] = enc3(recon, names)
                impl["krisskross"] = enc3(laser.krisskross(), names)
                el = laser.get(names[e])
                impl["element"] = {"shape": list(el.shape),
                                   "data": [[tokens(v) for v in row] for row in el]}
                fl = laser.get(flat=True)
                impl["flat"] = {"shape": list(fl.shape), "data": [[[float(fl[n][r, c]) for c in range(fl.shape[1])]
                                                                    for r in range(fl.shape[0])] for n in names]}
                fe = laser.get(names[e], flat=True)
                impl["flat_element"] = {"shape": list(fe.shape), "data": [[float(v) for v in row] for row in fe]}
            except Exception as ex:
                impl["recon"] = {"raises": type(ex).__name__, "msg": str(ex)[:200]}
        impl["layers"] = []
        for i in range(case["n"]):
            try:
                impl["layers"].append(enc2(laser.get(layer=i), names))
            except Exception as ex:
                impl["layers"].append({"raises": type(ex).__name__, "msg": str(ex)[:200]})
        try:
            rt = SRRConfig.from_array(cfg.to_array())
            obs = lambda c: {"params": [rat(float(c.spotsize)), rat(float(c.speed)), rat(float(c.scantime))],
                             "warmup": float(c.warmup), "subpixel_offsets": np.asarray(c.subpixel_offsets).tolist()}
            impl["roundtrip"] = obs(rt)
            impl["original"] = obs(cfg)
        except Exception as ex:
            impl["roundtrip"] = {"raises": type(ex).__name__, "msg": str(ex)[:200]}
            impl["original"] = None

        # ---- specification / model (Lean)
        def cfg_view(j):
            return {"params": [j["spotsize"], j["speed"], j["scantime"]], "warmup": j["warmup_seconds"],
                    "subpixel_offsets": j["subpixel_offsets"]}

        def cfg_ok(o, j):
            v = cfg_view(j)
            return (isinstance(o, dict) and "raises" not in o and o["params"] == v["params"]
                    and fclose(o["warmup"], unrat(v["warmup"])) and o["subpixel_offsets"] == v["subpixel_offsets"])

        spec = {"recon": rep["spec"] if rep["spec_inrange"] else {"unsatisfiable": "a source index of the geometric model is out of range"},
                "flat": rep["flat_spec"], "layers": rep["layer_spec"], "roundtrip": cfg_view(rep["roundtrip_spec"])}
        model = {"valid": rep["valid"], "recon": rep["model"], "flat": rep["flat_model"], "layers": rep["layer_model"],
                 "roundtrip": cfg_view(rep["roundtrip_model"])}

        def recon_ok(target, flats):
            if not valid:
                return True  # nothing is claimed about configurations that are not accepted
            if "data" not in impl.get("recon", {}) or "data" not in target:
                return False
            if not (core.canon(impl["recon"]) == core.canon(target) and core.canon(impl["krisskross"]) == core.canon(target)):
                return False
            if core.canon(impl["element"]) != core.canon(pick_element(target, e)):
                return False
            if impl["flat"]["shape"] != target["shape"][:2] or impl["flat_element"]["shape"] != target["shape"][:2]:
                return False
            for k in range(case["nel"]):
                if "data" not in flats[k] or not flat_close(impl["flat"]["data"][k], flats[k]["data"]):
                    return False
            return flat_close(impl["flat_element"]["data"], flats[e]["data"])

        layers_spec_ok = core.canon(impl["layers"]) == core.canon(spec["layers"])
        rt_same = impl["original"] is not None and core.canon(impl["roundtrip"]) == core.canon(impl["original"])
        spec_ok = recon_ok(spec["recon"], rep["flat_spec"]) and layers_spec_ok and rt_same
        model_ok = (recon_ok(model["recon"], rep["flat_model"]) and core.canon(impl["layers"]) == core.canon(model["layers"])
                    and cfg_ok(impl["roundtrip"], rep["roundtrip_model"]) and cfg_ok(impl["original"], rep["roundtrip_spec"])
                    and not (valid and rep["valid"] is not True))

        margin = unrat(rep["warmup_margin"])
        undet = 0 < margin < Fraction(1, 10**9)
        feats = set()
        if valid and "data" in impl.get("recon", {}):
            l0, l1 = case["shapes"][0][0], case["shapes"][1][0]
            w = rep["config"]["warmup_samples"]
            M = rep["mag"]
            ex0 = case["shapes"][0][1] - (w + l1 * M)
            ex1 = case["shapes"][1][1] - (w + l0 * M)
            feats |= {f"mag{M}", f"layers{case['n']}", f"elements{case['nel']}",
                      "non-square" if l0 != l1 else "square",
                      "warmup>0" if w > 0 else "warmup=0",
                      "excess>0" if max(ex0, ex1) > 0 else "exact-fit",
                      "first-offset-zero" if rep["config"]["offs"][0] == 0 else "first-offset-nonzero",
                      "spp>1" if rep["spp"] > 1 else "spp=1",
                      f"offsets{len(case['pairs'])}", f"warmup-{case['wmode']}"}
            if len(rep["config"]["offs"]) + (rep["config"]["offs"][0] != 0) < case["n"]:
                feats.add("offsets-cycle")
            if min(l0, l1) == 1:
                feats.add("one-line")
            if max(rep["config"]["offs"]) >= rep["spp"] and max(rep["config"]["offs"]) > 0:
                feats.add("offset>=pixel")
        note = ""
        if not valid:
            note = "rejected"
            if rep["valid"] is True:
                feats_rej = {"impl-rejects-model-accepts"}
            else:
                feats_rej = {"rejected:" + str(case.get("short"))}
            out = outcome(impl, model, spec, spec_ok=spec_ok, model_ok=model_ok, undetermined=undet, features=feats_rej, note=note)
            return out
        return outcome(impl, model, spec, spec_ok=spec_ok, model_ok=model_ok, undetermined=undet, features=feats, note=note)

    def shrink(self, case):
        if case["n"] > 2:
            yield {**case, "n": case["n"] - 1}
        if case["nel"] > 1:
            yield {**case, "nel": 1, "element": 0}
        if len(case["pairs"]) > 1:
            yield {**case, "pairs": case["pairs"][:-1]}
            yield {**case, "pairs": case["pairs"][1:]}
        (l0, s0), (l1, s1) = case["shapes"]
        M = case["mag"]
        if l0 > 1 and s1 - M >= 1:
            yield {**case, "shapes": [[l0 - 1, s0], [l1, s1 - M]]}
        if l1 > 1 and s0 - M >= 1:
            yield {**case, "shapes": [[l0, s0 - M], [l1 - 1, s1]]}
        if case["warmup"] != 0 and case.get("short") != "neg":
            w = round(Fraction(case["warmup"]) / Fraction(case["scantime"]))
            if s0 - w >= 1 and s1 - w >= 1:
                yield {**case, "warmup": 0.0, "shapes": [[l0, s0 - w], [l1, s1 - w]], "wmode": "exact"}
        for p in case["pairs"]:
            if p[1] > 1:
                yield {**case, "pairs": [[0, 1] if q is p else q for q in case["pairs"]]}
                break


PROP = C09()

if __name__ == "__main__":
    sys.exit(core.main(PROP, "harness.c09"))
