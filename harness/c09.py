"""C09 — SRR reconstruction follows its geometric model: pewlib.srr.srr.SRRLaser (check_config_valid, get,
krisskross), pewlib.srr.config.SRRConfig, pewlib.process.calc.subpixel_offset against PewModel/Srr.lean
(mechanism `validForData`, `krisskross`, `getFlat`, `getLayer`, `SrrConfig.fromArray ∘ toArray`;
specification `voxel`, `flatSpec`).

Case kinds: a reconstruction of one fresh (stack, config) pair (default); "cfg" = the configuration alone (a history of
offset lists given to one SRRConfig object, denominators up to 30, against `SrrConfig.make` and the statement of
offsets_setter_exact / srrconfig_roundtrip, driver op c09.config); "history" = reconstruct, change the SAME SRRLaser object
(layer of `laser.data` replaced / edited in place, config replaced / changed by its setters), reconstruct again - both
states are compared with the model/specification of the stack and config the object holds at that moment.  The changes include those of the ELEMENT SET and the sample dtype of the stack
(`SRRLaser.rename / add / remove`, `laser.data` replaced by layers with other names / dtype / footprint / number of layers,
`laser.data.append / pop`), the raster parameters of the config (another magnification) and writing into the arrays an earlier
reconstruction returned; the stack the object should hold after them is computed by Lean (`Stack.apply`, driver op c09.stack)."""
import copy
import math
import sys
from fractions import Fraction

import numpy as np

from harness import core
from harness.core import Prop, outcome, rat, unrat
from harness.c10 import cfg_op, enc_rec, fclose, float_mag, gen_pairs, gen_srr, int_mag_triple, make_srr_cfg, srr_cfg_json, stack_shapes

NAMES = ["A", "B", "C"]
FLAT_REL = 1e-12
CFG_MAXDEN = 60  # config-only stream: denominators 1..60 (no reconstruction, so the lcm^2 growth does not matter)
CFG_BATCH = 250  # offset lists per enumerated config-only case


# sample dtypes of a stack (case key -> dtype.str); capital keys: big-endian
DTYPES = {"f8": "<f8", "f4": "<f4", "i8": "<i8", "i4": "<i4", "u2": "<u2", "F8": ">f8", "F4": ">f4", "I4": ">i4"}
# bound on |token| for which token * scale (scale 1, 1/2, 1/4) is held exactly by a field of that dtype, with room for the exact
# sum of up to 16 layers (np.mean of float32 layers adds in float32)
DTYPE_LIMIT = {"<f8": 2**48, "<f4": 2**19, "<i8": 2**58, "<i4": 2**27, "<u2": 2**12, ">f8": 2**48, ">f4": 2**19, ">i4": 2**27}
LAYOUTS = ("F", "strided", "T")
MAX_LAYERS = 16
FLAT_REL32 = 2.0**-22  # np.mean of float32 layers is a float32
SCALES = (1, 0.5, 0.25)


def kind_of(dt):
    return np.dtype(dt).kind


def field_scale(dt, fscale):
    """payload = token * scale: `fscale` for float fields (1, 1/2 or 1/4, all exact), 1 for integer fields"""
    return fscale if kind_of(dt) == "f" else 1


def pairs_ok(pairs):
    """hypothesis of offsets_setter_exact / srrconfig_roundtrip (non-empty, numerators >= 0, denominators >= 1) and
    everything well inside int64"""
    if not isinstance(pairs, list) or not pairs:
        return False
    for p in pairs:
        if not (isinstance(p, list) and len(p) == 2 and all(isinstance(v, int) and not isinstance(v, bool) for v in p)):
            return False
        if p[0] < 0 or p[1] < 1:
            return False
    return math.lcm(*[d for _, d in pairs]) * max(1, max(o for o, _ in pairs)) < 2**60


def int_rows(a):
    """the rows [stored, size] of a `subpixel_offsets` array as Python ints, None if it is not such an array"""
    a = np.asarray(a)
    if a.ndim != 2 or a.shape[1] != 2 or a.dtype.kind not in "iu":
        return None
    return [[int(v) for v in row] for row in a]


def gen_cfg_pairs(rng, maxden=CFG_MAXDEN):
    """an offset list of length 1..4 with denominators 1..maxden: common / mixed / related denominators, numerators
    below the denominator or up to twice it, first offset zero or not"""
    k = rng.choice([1, 2, 2, 3, 3, 4])
    mode = rng.choice(["mixed", "mixed", "common", "multiples", "high"])
    den0 = rng.randint(1, maxden)
    pairs = []
    for _ in range(k):
        if mode == "common":
            den = den0
        elif mode == "multiples":
            base = rng.randint(1, max(1, maxden // 3))
            den = base * rng.randint(1, maxden // base)
        elif mode == "high":
            den = rng.randint(max(1, maxden // 3), maxden)
        else:
            den = rng.randint(1, maxden)
        num = rng.randint(0, den - 1) if rng.random() < 0.8 else rng.randint(den, 2 * den)
        pairs.append([num, den])
    if rng.random() < 0.3:
        pairs[0][0] = 0
    return pairs


def tok(v, scale=1):
    """a sample back to its token: value / scale when that is an integer (anything else stays a float and cannot equal a token)"""
    q = float(v) / scale
    return int(q) if q.is_integer() else q


def tokens(a, scale=1):
    """integer-valued (after the division by the payload scale, a power of two) samples -> ints"""
    return [tok(v, scale) for v in np.asarray(a, dtype=np.float64).ravel()]


def per_field(arr, names, scales):
    """(..., k) float64 array of value / scale, one slice per field"""
    return np.stack([np.asarray(arr[n], dtype=np.float64) / sc for n, sc in zip(names, scales)], axis=-1)


def enc3(arr, names, scales):
    """structured (R, C, n) array -> {"shape", "data"} with data[r][c][i] = [token per element]"""
    if arr.ndim != 3:
        return {"shape": list(arr.shape)}
    per = per_field(arr, names, scales)
    return {"shape": list(arr.shape), "data": [[[tokens(v) for v in row] for row in plane] for plane in per]}


def enc2(arr, names, scales):
    if arr.ndim != 2:
        return {"shape": list(arr.shape)}
    per = per_field(arr, names, scales)
    return {"shape": list(arr.shape), "data": [[tokens(v) for v in row] for row in per]}


def descr_of(dtype):
    """the fields of a structured dtype as [name, dtype.str] pairs (what the model's `Stack.fields` holds)"""
    if dtype.names is None:
        return {"not-structured": str(dtype)}
    return [[str(n), dtype.fields[n][0].str] for n in dtype.names]


def make_layer(fields, rows, cols, data, fscale):
    """the structured array of one layer: `data` = one tuple of tokens per pixel, row by row"""
    a = np.empty((rows, cols), dtype=[(n, dt) for n, dt in fields])
    for k, (n, dt) in enumerate(fields):
        sc = field_scale(dt, fscale)
        col = [px[k] * sc for px in data]
        a[n] = np.array(col, dtype=np.dtype(dt) if kind_of(dt) != "f" else np.float64).reshape(rows, cols)
    return a


def relayout(a, how):
    """the same layer in another memory layout: Fortran order, a strided window of a larger array, the transpose of a
    C-ordered transposed copy (all writeable views / arrays with the same dtype and values)"""
    if how == "F":
        return np.asfortranarray(a)
    if how == "strided":
        big = np.zeros((2 * a.shape[0] + 1, a.shape[1] + 3), dtype=a.dtype)
        view = big[1::2, 2:2 + a.shape[1]]
        view[...] = a
        return view
    if how == "T":
        return np.ascontiguousarray(a.T).T
    return a


def payload_ok(fields, enc_layers, fscale):
    """every token * scale is held exactly by its field's dtype (and small enough for exact sums over the layers)"""
    for k, (_, dt) in enumerate(fields):
        lim = DTYPE_LIMIT.get(dt)
        if lim is None:
            return False
        for L in enc_layers:
            for px in L["data"]:
                v = px[k]
                if abs(v) >= lim or (dt == "<u2" and v < 0):
                    return False
    return len(enc_layers) <= MAX_LAYERS


def pick_element(enc, e):
    """projection of an encoded structured array on element e"""
    if "data" not in enc:
        return enc

    def proj(x, depth):
        return x[e] if depth == 0 else [proj(y, depth - 1) for y in x]

    return {"shape": enc["shape"], "data": proj(enc["data"], len(enc["shape"]))}


def flat_close(vals, rats, rel=FLAT_REL):
    """2-D list of floats against 2-D list of exact rationals"""
    if len(vals) != len(rats):
        return False
    for rv, rr in zip(vals, rats):
        if len(rv) != len(rr):
            return False
        for v, q in zip(rv, rr):
            # fast path in floating point (int / int is correctly rounded, so qf is within 2^-53 of q: negligible beside rel);
            # only a difference within a factor 4 of the tolerance is decided exactly
            a = float(v)
            if not math.isfinite(a):
                return False
            if isinstance(q, list):
                qn, qd = int(q[0]), int(q[1])
                qf = qn / qd
            else:
                qf = float(int(q))
            d, m = abs(a - qf), max(abs(a), abs(qf))
            if d <= 0.25 * rel * m:
                continue
            if d > 4.0 * rel * m or not fclose(a, unrat(q), rel):
                return False
    return True


def cal_ok(cal, nfields):
    """a `cal` entry of a case: one [intercept, gradient] pair (or None = the default Calibration()) per initial field, finite
    floats, gradient not zero"""
    if cal is None:
        return True
    if not isinstance(cal, list) or len(cal) != nfields:
        return False
    for q in cal:
        if q is None:
            continue
        if not (isinstance(q, list) and len(q) == 2 and all(isinstance(v, (int, float)) and not isinstance(v, bool) and math.isfinite(v) for v in q)):
            return False
        if q[1] == 0 or abs(q[0]) > 2.0**40 or not (2.0**-20 <= abs(q[1]) <= 2.0**20):
            return False
    return True


def probe_ok(q):
    """a configuration handed to check_config_valid: the five constructor arguments, finite positive raster parameters"""
    try:
        return (isinstance(q, dict) and all(isinstance(q[k], (int, float)) and not isinstance(q[k], bool) and math.isfinite(q[k])
                                             for k in ("spotsize", "speed", "scantime", "warmup"))
                and q["spotsize"] > 0 and q["speed"] > 0 and q["scantime"] > 0 and abs(q["warmup"] / q["scantime"]) < 2**40
                and pairs_ok(q["pairs"]))
    except Exception:
        return False


def read_ok(rd):
    return (isinstance(rd, dict) and (rd.get("element") is None or (isinstance(rd["element"], int) and not isinstance(rd["element"], bool)))
            and (rd.get("layer") is None or (isinstance(rd["layer"], int) and not isinstance(rd["layer"], bool)))
            and isinstance(rd.get("calibrate", False), bool) and isinstance(rd.get("flat", False), bool))


def read_values(arr, names):
    """the array a read returned as nested lists of floats, one list per pixel (1 value for an unstructured array)"""
    if arr.dtype.names is None:
        return np.asarray(arr, dtype=np.float64)[..., None]
    if list(arr.dtype.names) != list(names):
        return None
    return np.stack([np.asarray(arr[nm], dtype=np.float64) for nm in names], axis=-1)


def model_values(j):
    """a driver image / stack of exact rationals as a float64 array (each rational correctly rounded)"""
    def conv(x, depth):
        if depth == 0:
            return [int(q[0]) / int(q[1]) for q in x]
        return [conv(y, depth - 1) for y in x]
    return np.array(conv(j["data"], len(j["shape"])), dtype=np.float64).reshape(tuple(j["shape"]) + (-1,))


def stack_shapes9(case):
    """the layer shapes of a case: layer i is shaped like layer i mod 2, plus `extra[i]` more samples (same-parity layers of
    different lengths; absent = a crossed stack)"""
    ex = case.get("extra") or [0] * case["n"]
    return [[case["shapes"][i % 2][0], case["shapes"][i % 2][1] + ex[i]] for i in range(case["n"])]


def extra_ok(case):
    ex = case.get("extra")
    return ex is None or (isinstance(ex, list) and len(ex) == case["n"]
                          and all(isinstance(v, int) and not isinstance(v, bool) and 0 <= v <= 64 for v in ex))


class StepRaised(Exception):
    """a change of the object that the model performs raised in pewlib"""


def real(fn, *a, **kw):
    try:
        return fn(*a, **kw)
    except Exception as ex:
        raise StepRaised(f"{type(ex).__name__}: {str(ex)[:200]}") from ex


class C09(Prop):
    id = "C09"
    anchored = ["src/pewlib/srr/srr.py", "src/pewlib/srr/config.py", "src/pewlib/process/calc.py"]
    cases = {"quick": 330, "thorough": 12000}
    rule = ("crossed stacks of 2..5 layers (layer i has the shape of layer i mod 2), 1..6 lines, samples = warm-up + needed + excess "
            "0..7 (or 1-2 short / negative warm-up: the validity check must then not accept something that cannot be reconstructed), "
            "magnification 1..4 realised by (spotsize, speed, scantime) triples incl. binary-inexact values whose float quotient is the "
            "integer, warm-up 0..5 samples given in seconds (exact, fractional, exact rounding tie), 1..4 offsets with denominators "
            "1..6, first offset zero or not, 1..3 elements, every sample a unique integer token. Non-trivial = accepted and reconstructed; "
            "rejected stacks still exercise the validity check (compared in both directions with Lean's validSpec), layer reads (with and "
            "without flat=True) and the round trip; distinct by canonical case hash. Every case sends only INPUTS to the driver "
            "(constructor arguments and the changes made to the object); the real to_array() result is encoded field by field and read "
            "back by the model's from_array, SRRConfig.from_array of a plain Config array (defaults for the missing fields) included. "
            "Config-only cases (feature cfg-only, ~22 % of the generated cases + enumerations in targeted()): no stack, one SRRConfig "
            "object that is given 1..8 offset lists one after the other (constructor, then the setter), lists of length 1..4 with "
            "denominators 1..30 (common, mixed, multiples of each other), magnification 1..12; after each assignment the public getters "
            "(subpixel_offsets rows, subpixels_per_pixel, warmup) and the to_array/from_array round trip are compared with the model's "
            "exact setter and the statement of offsets_setter_exact is evaluated on the reported rows; enumerated: every single offset "
            "n/d with d <= 30, n <= 2d, every two-offset list with denominators <= 12 and numerators below them. Reconstructions with a "
            "denominator 10..12 on 1-2 line stacks at magnification 1 (feature recon:den>=10, ~3 %). Histories on ONE SRRLaser "
            "object (feature history, ~18 % + 33 fixed ones in targeted()): every observation of a reconstruction case, then one to three "
            "changes of the object, then every observation again (in a quarter of the multi-step histories also between the steps: "
            "feature history:observed3x), compared with the model of the NEW stack and config. The changes: a layer of laser.data "
            "replaced by a new array of the same shape, cells of a layer or a whole layer edited in place, the config replaced or "
            "changed through its setters, its raster parameters assigned so that the magnification becomes another integer "
            "(history:magnification-change); the ELEMENT SET changed (history:element-set-change, about half of the histories): "
            "SRRLaser.rename (one name, all, a swap, a chain, a key naming nothing), SRRLaser.add (same or another sample dtype), "
            "SRRLaser.remove (one name as str or list, several); laser.data replaced (as a list or item by item) by layers with another "
            "sample dtype / payload scale (history:dtype-change), other names or number of elements, another footprint, another number "
            "of layers; a layer appended / popped (history:layer-count-change); the arrays the earlier reconstructions returned "
            "overwritten by the caller (history:scribble-on-returned-arrays). The stack after the changes is computed by Lean "
            "(Stack.applyAll) from the first stack and the list of changes and also compared with laser.data. Sample dtypes "
            "(features dtype:<f4 / <i8 / <i4 / <u2, dtype:mixed-fields; 25 % of the fresh reconstructions, half of the histories): "
            "payload = token * scale with scale 1, 1/2 or 1/4 for float fields (payload:fractional: a float stack reconstructed "
            "through an integer buffer would lose the fraction), tokens from 1, from beyond 2^32 (payload:beyond-2^32: a float64 / int64 "
            "stack squeezed through float32 / int32 would change) or negative. Sizes beyond the usual (feature layers>5 / lines>6, ~3 %): "
            "6..16 layers of 1-3 lines, 7..24 lines in one layer kind. The object is made by SRRLaser(...), by SRRLaser.from_list (float64 "
            "stacks, feature ctor:from_list, ~8 %) or by SRRLaser.from_lasers followed by the assignment of the config (ctor:from_lasers, "
            "~8 %). Besides get(layer=i) and get(layer=i, flat=True), get(element, layer=i) is read for every layer; get(name) and "
            "get(name, flat=True) for EVERY element. Calls of get BEFORE the observations of a state (features cread:*, creads:first / "
            "creads:mid; 30 % of the fresh reconstructions, half of the histories + 12 fixed cases): 1-3 calls with calibrate=True (85 %) "
            "or not, one element or all, a layer or the reconstruction, flat or not, on an object whose elements carry NON-identity "
            "calibrations (calibration:non-identity; given to the constructor / the first Laser of from_lasers / put into the public dict; "
            "reassigned by history step `cal`); afterwards every plain observation must still be the geometric model of the ORIGINAL "
            "layers and laser.data must hold them (the in-place calibration loop of get writes into whatever its local `data` refers to). "
            "Arrays returned by layer reads and by those calls are among the arrays the `scribble` step overwrites. "
            "check_config_valid(config) with 1-3 configurations OTHER than the object's own (probe-config:*, 40 %): more / negative warm-up, "
            "the largest warm-up that fits and one sample more, another magnification, other offsets. Same-parity layers of different "
            "lengths (feature ragged, ~8 %: every layer from the third on 0-5 samples longer or shorter than the first of its kind, all "
            "long enough). Memory layouts of the layers (layout:F / strided / T, ~20 %), one dtype per field and big-endian fields "
            "(dtype:mixed-fields, dtype:big-endian). ONE raster attribute of the config assigned (history:config-one-attribute:*)")
    trusted = [
        "'integer magnification' means spotsize/(speed*scantime) evaluates to an integer in float64 (DESIGN 6a); the driver computes "
        "that float64 value itself from the three inputs (PewModel/Srr.lean `fl`: round to nearest, ties to even, normal range) and the "
        "harness compares it bit for bit with the `magnification` getter on every case",
        "IEEE-754: float64 multiplication and division are correctly rounded (modelled by `fl`, theorem fl_relerr); the warm-up in samples "
        "is np.round (half-even) of the float64 quotient seconds/scantime, modelled exactly; the SPECIFICATION of the warm-up is half-even "
        "of the exact quotient - when the two can differ (quotient not a float64 and within |x|/2^53 of a tie, hypothesis of "
        "warmup_setter_determined, decided by the driver) the case is counted undetermined",
        "np.mean over <= 16 layers whose samples are integer multiples of 1/4 below 2^48 is within 1e-12 relative of the exact mean: the "
        "float sum is exact, only the division rounds (flat_is_mean is about the exact mean)",
        "NumPy slicing, np.repeat, .T, np.zeros and slice assignment behave as documented (modelled step by step in PewModel/Srr.lean); "
        "assignment broadcasting of a length-1 axis is not modelled: for accepted configurations on crossed stacks it cannot occur "
        "(valid_implies_shapes_agree; re-checked on every accepted case: the model answering 'raises' where pewlib reconstructs is a reported difference)",
        "the offsets a configuration holds are observed through the public `subpixel_offsets` getter (rows [stored, size]); the "
        "statement of offsets_setter_exact is evaluated on those rows by the driver (`setterExact`), for accepted configurations",
        "structured arrays: NumPy >= 2 semantics of float(array) (TypeError unless 0-d), array[name] (ValueError for a missing field) and "
        "keyword construction; only 0-d / 1-d arrays of float64 fields and (k, 2) integer tables are encoded for the driver",
    ]
    assumptions = [
        "layer i of a stack has the shape of layer (i mod 2) (crossed layers, DESIGN 6a); the driver re-checks it (`crossed`)",
        "acceptance is compared in BOTH directions: check_config_valid must accept exactly the configurations for which every source index "
        "of the geometric model exists (Lean `validSpec`, theorems valid_iff_spec and valid_iff_evaluable); a validity check that rejects "
        "a configuration the specification accepts is reported (feature 'impl-rejects-spec-accepts'). Near-integer magnifications (float "
        "quotient within 1e-9 of an integer without being one) stay outside: run, reported as features, never compared",
        "the specification (voxel formula, flat mean, acceptance) and the model are evaluated by the driver for the configuration computed "
        "by Lean from the INPUTS (constructor arguments, then the setter calls / set_equal_subpixel_offsets / replacement made on the "
        "object, `ops`), never from what the implementation reports; the implementation's getters (warmup, magnification, "
        "subpixel_offsets, subpixels_per_pixel) and its array form are compared with that configuration too (impl-vs-model)",
        "history cases change the stack only through the public interface: the list `laser.data` (assignment of the list or of an item, "
        "append, pop, element assignment into a layer), `SRRLaser.rename / add / remove`; and the configuration only through "
        "`laser.config` (assignment of a new SRRConfig, its `subpixel_offsets` / `warmup` setters, `set_equal_subpixel_offsets`, "
        "assignment of spotsize / speed / scantime); every reconstruction is required to follow the stack and config the object holds "
        "when it is called ('for every stack ... and every accepted configuration'); no state of an earlier call is part of the "
        "specification (Lean's krisskross is a function of the stack and the configuration alone)",
        "all layers of a stack share one structured dtype; a sample is token * scale, held exactly by its field's dtype (checked inside "
        "evaluate for the stack Lean computes: a case whose tokens do not fit is hypothesis-excluded); steps a shrinker could make "
        "meaningless (a name that is not there, a duplicate, nothing left after remove, pop below two layers... = Lean's Stack.apply "
        "answers none) are hypothesis-excluded before anything is done to the object",
        "get(flat=True) WITHOUT an element stores np.mean in a structured array of the stack's own dtype, so for an INTEGER field the "
        "mean is truncated: the structured flat image of integer fields is not compared (feature 'flat(structured) of an integer "
        "field...'); get(element, flat=True) of the same field returns the float64 mean and IS compared; see notes/TC09.md",
        "np.mean of float32 layers is a float32: the flat image of a '<f4' field is compared at 2^-22 relative",
        "a history step that replaces laser.data by layers with OTHER element names also assigns the public dict laser.calibration "
        "(one default Calibration per new name), as a caller has to: SRRLaser.remove pops the removed names from that dict",
        "a change of the stack that the model of srr.py performs (Stack.apply answers some) but pewlib raises on is reported as a "
        "difference between model and code (feature history:step-raises), not as an internal error",
        "config-only cases outside the hypotheses of offsets_setter_exact (empty list, denominator < 1, negative numerator) or whose "
        "lcm * numerator does not fit 2^60 are counted as hypothesis-excluded, never compared",
        "a change of the array LAYOUT (field names, order, shape) that keeps from_array(to_array(c)) = c is reported as an "
        "implementation-vs-model difference (the model's arrays are the ones NumPy builds now), not as a violation of the specification",
        "no clause of the property says what get(calibrate=True) returns: the values of a calibrated read are compared with the model "
        "(PewModel/Srr.lean Laser.get / getSpec, exact (x - intercept) / gradient; 1e-12 of the magnitudes involved, 2^-20 for float32 "
        "fields; integer fields written back into their own dtype not compared) and a difference is RECORDED as a feature ('calibrated "
        "read: values differ from the model (recorded only)'), never a verdict (notes/SECTION13.md 13.2). What is demanded after any "
        "calls of get is what the property says of every read: layers unmodified, voxels and flat image the geometric model of the "
        "stored layers (theorems reads_do_not_change_store, reconstruction_after_reads). Plain (calibrate=False) calls among `creads` are "
        "compared exactly like the standing observations",
        "the byte order of the dtype of a reconstruction is not compared (field names, kinds and sizes are)",
        "same-parity layers of different lengths: every layer is at least as long as needed whenever the first two are (theorem "
        "krisskross_voxel_ragged); a stack whose first two layers are long enough and a later one is not (accepted by the validity "
        "check, which reads layers 0 and 1, DESIGN 9.5) is hypothesis-excluded",
        "configurations handed to check_config_valid (`probes`) with a near-integer magnification are skipped; with a warm-up decided by "
        "float rounding only the model is compared",
    ]

    def generate(self, rng, tier):
        t = rng.random()
        if t < 0.04:
            # DESIGN 6a: triples whose float quotient is just off an integer are outside "integer magnification";
            # they are run and only reported (feature counts), never compared
            case = gen_srr(rng, max_vox=4000, force_valid=True)
            M = case["mag"]
            for _ in range(50):
                speed, scantime = rng.choice([3.0, 0.3, 1.7, 33.3, 7.3]), rng.choice([0.1, 0.3, 0.007, 1.3])
                spot = M * rng.choice([0.3, 0.51, 2.21, 43.29, 0.021]) if rng.random() < 0.5 else float(np.nextafter(M * speed * scantime, rng.choice([0.0, 1e9])))
                q = spot / (speed * scantime)
                if q != float(M) and abs(q - M) < 1e-9:
                    case.update({"spotsize": spot, "speed": speed, "scantime": scantime, "near": True, "nel": 1, "element": 0,
                                 "warmup": 0.0, "wmode": "exact"})
                    w = 0
                    (l0, _), (l1, _) = case["shapes"]
                    case["shapes"] = [[l0, l1 * M + 1], [l1, l0 * M + 2]]
                    return case
        elif t < 0.26:
            return self.gen_cfg_only(rng)
        elif t < 0.44:
            return self.gen_history(rng)
        elif t < 0.47:
            return self.gen_bigden(rng)
        elif t < 0.50:
            return self.gen_sizes(rng)
        case = gen_srr(rng, max_vox=9000 if tier == "quick" else 16000, force_valid=False)
        case["nel"] = rng.choice([1, 1, 2, 3])
        case["element"] = rng.randrange(case["nel"])
        self.gen_payload(rng, case, plain=0.75)
        self.gen_ctor(rng, case)
        if rng.random() < 0.3:
            self.gen_cal(rng, case)
        self.gen_extra(rng, case, 0.25)
        if rng.random() < 0.4:
            self.gen_probes(rng, case)
        return case

    def gen_extra(self, rng, case, p):
        """same-parity layers of different lengths: every layer from the third on may have more samples than the layer kind's
        first one (never fewer: every layer holds what is read from it when the first two do)"""
        if case["n"] >= 3 and rng.random() < p:
            ex = [0, 0] + [rng.choice([0, 1, 2, 5]) for _ in range(case["n"] - 2)]
            if not any(ex):
                ex[rng.randrange(2, case["n"])] = rng.choice([1, 3])
            if rng.random() < 0.3:  # the first layers the longest
                ex = [max(ex) - v for v in ex]
                if not any(ex[2:]) and ex[0] == ex[1] == 0:
                    ex[2] = 1
            case["extra"] = ex

    def gen_probes(self, rng, case):
        """1-3 configurations OTHER than the object's own for check_config_valid: more / less / negative warm-up, the largest
        warm-up that still fits and one sample more, another magnification, other offsets"""
        (l0, s0), (l1, s1) = case["shapes"]
        M = case["mag"]
        fit = min(s0 - l1 * M, s1 - l0 * M)
        out = []
        for _ in range(rng.choice([1, 2, 2, 3])):
            q = {k: case[k] for k in ("spotsize", "speed", "scantime", "warmup", "pairs")}
            how = rng.choice(["fit", "fit+1", "more", "neg", "mag", "mag", "pairs"])
            if how == "fit":
                q["warmup"] = max(fit, 0) * q["scantime"]
            elif how == "fit+1":
                q["warmup"] = (max(fit, 0) + 1) * q["scantime"]
            elif how == "more":
                q["warmup"] = rng.choice([1, 2, 8, 50]) * q["scantime"] + q["warmup"]
            elif how == "neg":
                q["warmup"] = -rng.choice([1, 3]) * q["scantime"]
            elif how == "mag":
                M2 = rng.choice([m for m in (1, 2, 3, 4, 5, 7) if m != M])
                q["spotsize"], q["speed"], q["scantime"] = int_mag_triple(rng, M2)
                q["warmup"] = rng.choice([0, 0, 1, 2]) * q["scantime"]
            else:
                q["pairs"] = gen_pairs(rng)
            out.append(q)
        case["probes"] = out

    def gen_cal(self, rng, case):
        """calibrations of the elements (a quarter of them the default one, never all) and 1-3 calls of get made before the
        observations of every state: calibrate mostly, one element or all, a layer or the reconstruction, flat or not"""
        nel = case["nel"]
        cal = []
        for _ in range(nel):
            if rng.random() < 0.25:
                cal.append(None)
                continue
            b, g = rng.choice([0.0, 1.0, -2.0, 0.5, 0.25, 3.0, 10.0]), rng.choice([2.0, 0.5, 4.0, 3.0, 0.7, -1.0, 1.0, 0.125])
            cal.append([b, 2.0 if (b, g) == (0.0, 1.0) else g])
        if all(q is None for q in cal):
            cal[rng.randrange(nel)] = [1.0, 2.0]
        case["cal"] = cal
        case["creads"] = [{"element": None if rng.random() < 0.55 else rng.randrange(3), "calibrate": rng.random() < 0.85,
                           "flat": rng.random() < 0.3, "layer": rng.randrange(16) if rng.random() < 0.6 else None}
                          for _ in range(rng.choice([1, 1, 2, 2, 3]))]
        case["creads_at"] = rng.choice(["first", "first", "mid"])

    def gen_ctor(self, rng, case):
        """how the object is made: SRRLaser(...) mostly, SRRLaser.from_list (float64 stacks) or SRRLaser.from_lasers"""
        r = rng.random()
        if r < 0.08 and case.get("dtype", "f8") == "f8" and "dtypes" not in case:
            case["ctor"] = "from_list"
        elif r < 0.16:
            case["ctor"] = "from_lasers"

    def gen_sizes(self, rng):
        """stacks beyond the usual sizes: 6..16 layers of 1-3 lines, or 7..24 lines in one layer kind (magnification 1-2,
        at most two sub-pixels per pixel)"""
        for _ in range(200):
            M = rng.choice([1, 1, 2])
            if rng.random() < 0.5:
                n, l0, l1 = rng.choice([6, 7, 8, 9, 12, 16]), rng.randint(1, 3), rng.randint(1, 3)
            else:
                n, l0, l1 = rng.choice([2, 2, 3]), rng.randint(7, 24), rng.randint(1, 8)
                if rng.random() < 0.5:
                    l0, l1 = l1, l0
            pairs = rng.choice([[[0, 1]], [[0, 2], [1, 2]], [[1, 2]], [[1, 1], [0, 1]], [[0, 2], [1, 2], [3, 2]]])
            size = math.lcm(*[d for _, d in pairs])
            p = math.lcm(size, M) // M
            ov = max(o * size // d for o, d in pairs)
            if (l0 * M * p + ov) * (l1 * M * p + ov) * n > 9000:
                continue
            w = rng.choice([0, 0, 1, 4])
            spotsize, speed, scantime = int_mag_triple(rng, M)
            case = {"spotsize": spotsize, "speed": speed, "scantime": scantime, "warmup": w * scantime, "pairs": pairs, "mag": M, "n": n,
                    "shapes": [[l0, w + l1 * M + rng.choice([0, 0, 2])], [l1, w + l0 * M + rng.choice([0, 1])]], "short": None,
                    "wmode": "exact", "nel": rng.choice([1, 1, 2]), "element": rng.randrange(2)}
            self.gen_payload(rng, case, plain=0.7)
            if rng.random() < 0.3:
                self.gen_cal(rng, case)
            if rng.random() < 0.3:
                case["kind"], case["order"] = "history", "std"
                case["steps"] = [rng.choice([{"op": "pop"}, {"op": "append"}, {"op": "replace", "layer": n - 1}, {"op": "rename", "map": [["A", "D"]]},
                                             {"op": "setdata", "n": rng.choice([2, 5, 6, 11]), "via": "list"}])]
            return case
        raise core.InternalError("could not generate a large SRR case")

    def gen_cfg_only(self, rng):
        """no stack: one configuration object that is given a history of offset lists"""
        M = rng.choice([1, 1, 2, 3, 4, 5, 6, 7, 10, 12])
        spotsize, speed, scantime = int_mag_triple(rng, M)
        w = rng.choice([0, 0, 1, 3, 50])
        seconds = w * scantime if rng.random() < 0.7 else (w + rng.choice([0.3, 0.45, 0.1])) * scantime
        maxden = rng.choice([CFG_MAXDEN, CFG_MAXDEN, CFG_MAXDEN, 12, 9])
        return {"kind": "cfg", "spotsize": spotsize, "speed": speed, "scantime": scantime, "warmup": seconds, "mag": M,
                "sets": [gen_cfg_pairs(rng, maxden) for _ in range(rng.choice([1, 2, 4, 6, 8]))],
                "via": rng.choice(["list", "array"])}

    def gen_bigden(self, rng):
        """a reconstruction whose offsets have a denominator 10..12: 1-2 lines, magnification 1 (the output grows with lcm^2)"""
        for _ in range(200):
            k = rng.choice([1, 2, 2])
            dens = [rng.choice([10, 11, 12])] + [rng.randint(1, 12) for _ in range(k - 1)]
            rng.shuffle(dens)
            pairs = [[rng.randint(0, d - 1) if rng.random() < 0.9 else rng.randint(d, d + 3), d] for d in dens]
            if rng.random() < 0.3:
                pairs[0][0] = 0
            size = math.lcm(*dens)
            ov = max(o * size // d for o, d in pairs)
            l0, l1, n = rng.randint(1, 2), rng.randint(1, 2), rng.choice([2, 2, 3])
            if (l0 * size + ov) * (l1 * size + ov) * n > 30000:
                continue
            w = rng.choice([0, 0, 1, 2])
            spotsize, speed, scantime = int_mag_triple(rng, 1)
            ex0, ex1 = rng.choice([0, 1, 2]), rng.choice([0, 0, 3])
            return {"spotsize": spotsize, "speed": speed, "scantime": scantime, "warmup": w * scantime, "pairs": pairs, "mag": 1,
                    "n": n, "shapes": [[l0, w + l1 + ex0], [l1, w + l0 + ex1]], "short": None, "wmode": "exact", "nel": 1,
                    "element": 0}
        raise core.InternalError("could not generate a large-denominator SRR case")

    def gen_payload(self, rng, case, plain=0.6):
        """the sample dtype and payload of a stack: float64 integers mostly; float32 / integer dtypes, fractional payloads
        (token / 2, token / 4), tokens beyond 2^40 (float64, int64), negative tokens"""
        if rng.random() < 0.2:
            case["layout"] = rng.choice(LAYOUTS)  # the layers' memory layout: Fortran order / strided window / transposed base
        if rng.random() < plain:
            return
        if rng.random() < 0.25:
            # one dtype per field (mixed kinds, sizes and byte orders)
            case["dtypes"] = [rng.choice(["f8", "f4", "i8", "i4", "u2", "F8", "F4", "I4"]) for _ in range(3)]
            if rng.random() < 0.5 and any(k.lower() in ("f8", "f4") for k in case["dtypes"]):
                case["scale"] = rng.choice([0.5, 0.25])
            return
        dt = rng.choice(["f8", "f8", "f8", "f4", "f4", "i8", "i4", "u2", "F8", "F4", "I4"])
        case["dtype"] = dt
        if dt in ("f8", "f4", "F8", "F4") and rng.random() < 0.6:
            case["scale"] = rng.choice([0.5, 0.25])
        if dt in ("f8", "i8", "F8") and rng.random() < 0.4:
            case["base"] = rng.choice([2**40 + 1, -(2**40), 2**33 + 5])
        elif dt in ("f4", "i4", "F4", "I4") and rng.random() < 0.2:
            case["base"] = -4000

    def gen_history(self, rng):
        """reconstruct, change the SAME SRRLaser object, reconstruct again.  Changes: a layer replaced / edited in place, the
        config replaced / changed by its setters / given another magnification, the ELEMENT SET of the stack changed (rename,
        add, remove), `laser.data` replaced by layers with other names / sample dtype / footprint / number of layers, a layer
        appended or popped, the arrays an earlier reconstruction returned overwritten by the caller"""
        case = gen_srr(rng, max_vox=3500, force_valid=True)
        case["nel"] = rng.choice([1, 2, 2, 3])
        case["element"] = rng.randrange(3)
        case["kind"] = "history"
        self.gen_payload(rng, case, plain=0.5)
        self.gen_ctor(rng, case)
        if rng.random() < 0.5:
            self.gen_cal(rng, case)
        self.gen_extra(rng, case, 0.2)
        if rng.random() < 0.4:
            self.gen_probes(rng, case)
        M, n = case["mag"], case["n"]
        (l0, s0), (l1, s1) = case["shapes"]
        pairs_cur = case["pairs"]
        w = max(0, round(Fraction(case["warmup"]) / Fraction(case["scantime"])))  # input sizing only
        names = NAMES[:case["nel"]]
        spare = ["D", "E", "F", "G"]

        def vox(l0_, l1_, M_, n_, pairs_):
            size = math.lcm(*[d for _, d in pairs_])
            p = math.lcm(size, M_) // M_
            ov = max(o * size // d for o, d in pairs_)
            return (l0_ * M_ * p + ov) * (l1_ * M_ * p + ov) * n_

        steps = []
        for _ in range(rng.choice([1, 1, 1, 1, 1, 2, 2, 2, 3])):
            op = rng.choice(["replace", "edit", "edit", "config", "config", "rename", "rename", "add", "add", "remove", "remove",
                             "setdata", "setdata", "setdata", "append", "pop", "params", "params", "params", "scribble", "cal"])
            i = rng.randrange(n)
            if op == "remove" and len(names) < 2:
                op = "add"
            if op == "pop" and n < 3:
                op = "append"
            if op == "append" and vox(l0, l1, M, n + 1, pairs_cur) > 3500:
                op = "rename"
            if op == "replace":
                steps.append({"op": "replace", "layer": i})
            elif op == "edit":
                rows, cols = (l0, s0) if i % 2 == 0 else (l1, s1)
                cells = "all" if rng.random() < 0.3 else [[rng.randrange(rows), rng.randrange(cols)] for _ in range(rng.choice([1, 1, 2, 4]))]
                steps.append({"op": "edit", "layer": i, "cells": cells})
            elif op == "rename":
                style = rng.choice(["one", "one", "swap", "all", "chain"])
                if style == "swap" and len(names) >= 2:
                    a, b = rng.sample(names, 2)
                    mp = [[a, b], [b, a]]
                elif style == "all":
                    mp = [[x, x + "x"] for x in names]
                elif style == "chain" and len(names) >= 2:  # A -> B while B -> new
                    a, b = rng.sample(names, 2)
                    mp = [[a, b], [b, spare.pop(0)]]
                else:
                    mp = [[rng.choice(names), spare.pop(0)]]
                if rng.random() < 0.15:
                    mp.append(["nosuch", "Z"])  # a key that names no element is ignored
                rn = dict(mp)
                names = [rn.get(x, x) for x in names]
                steps.append({"op": "rename", "map": mp})
            elif op == "add":
                nm = spare.pop(0)
                steps.append({"op": "add", "name": nm, "dtype": case.get("dtype", "f8") if rng.random() < 0.7 else rng.choice(["f8", "f4", "i8"])})
                names = names + [nm]
            elif op == "remove":
                k = 1 if rng.random() < 0.75 else rng.randint(1, len(names) - 1)
                rm = rng.sample(names, k)
                steps.append({"op": "remove", "names": rm, "as_str": rng.random() < 0.5})
                names = [x for x in names if x not in rm]
            elif op == "setdata":
                what = rng.choice(["dtype", "dtype", "dtype", "names", "names", "footprint", "layers", "values"])
                stp = {"op": "setdata", "via": rng.choice(["list", "items"])}
                if what == "dtype":
                    cur_dt = case.get("dtype", "f8")
                    stp["dtype"] = rng.choice([d for d in ("f8", "f8", "f4", "i8", "i4", "u2", "F8", "I4") if d != cur_dt])
                    stp["scale"] = rng.choice([1, 0.5, 0.25]) if stp["dtype"] in ("f8", "f4", "F8") else 1
                elif what == "names":
                    k = rng.choice([len(names), len(names), 1, 2, 3])
                    pool = [x for x in ["P", "Q", "R"] + names if True]
                    rng.shuffle(pool)
                    names = list(dict.fromkeys(pool))[:k]
                    stp["names"] = names
                elif what == "footprint":
                    for _ in range(30):
                        a, b = rng.randint(1, 6), rng.randint(1, 6)
                        if (a, b) != (l0, l1) and vox(a, b, M, n, pairs_cur) <= 3500:
                            l0, l1 = a, b
                            s0, s1 = w + l1 * M + rng.choice([0, 0, 1, 3]), w + l0 * M + rng.choice([0, 0, 2])
                            stp["shapes"] = [[l0, s0], [l1, s1]]
                            break
                elif what == "layers":
                    for _ in range(10):
                        n2 = rng.choice([2, 3, 4, 5])
                        if n2 != n and vox(l0, l1, M, n2, pairs_cur) <= 3500:
                            n = n2
                            stp["n"] = n
                            break
                steps.append(stp)
            elif op == "append":
                steps.append({"op": "append"})
                n += 1
            elif op == "pop":
                steps.append({"op": "pop"})
                n -= 1
            elif op == "scribble":
                steps.append({"op": "scribble"})
            elif op == "cal":
                steps.append({"op": "cal", "field": rng.randrange(3), "b": rng.choice([0.0, 1.0, 0.5, -2.0]), "g": rng.choice([2.0, 4.0, 3.0, 0.5])})
                if "creads" not in case:
                    case["creads"] = [{"element": None, "calibrate": True, "flat": False, "layer": rng.randrange(16)}]
            elif op == "params":
                # another integer magnification for which the stack is still long enough
                cands = [m for m in (1, 2, 3, 4, 5) if m != M and w + l1 * m <= s0 and w + l0 * m <= s1 and vox(l0, l1, m, n, pairs_cur) <= 3500]
                if not cands:
                    steps.append({"op": "scribble"})
                    continue
                M2 = rng.choice(cands)
                cur3 = next(([x["spotsize"], x["speed"], x["scantime"]] for x in reversed(steps) if x["op"] == "params"),
                            [case["spotsize"], case["speed"], case["scantime"]])
                stp = None
                if rng.random() < 0.6:
                    # ONE attribute assigned (spot size scaled, or speed / scan time divided) so that the float magnification is M2
                    for only in rng.sample(["spotsize", "speed", "scantime"], 3):
                        c3 = list(cur3)
                        j = ["spotsize", "speed", "scantime"].index(only)
                        c3[j] = cur3[j] * M2 / M if j == 0 else cur3[j] * M / M2
                        if c3[j] > 0 and c3[0] / (c3[1] * c3[2]) == float(M2):
                            stp = {"op": "params", "spotsize": c3[0], "speed": c3[1], "scantime": c3[2], "mag": M2, "only": only}
                            break
                if stp is None:
                    sp, v, t = int_mag_triple(rng, M2)
                    stp = {"op": "params", "spotsize": sp, "speed": v, "scantime": t, "mag": M2}
                M = M2
                steps.append(stp)
            else:
                w2 = rng.randint(0, w)  # not more warm-up than before: the stack stays long enough
                pairs2 = pairs_cur
                for _ in range(50):
                    cand = gen_pairs(rng)
                    if cand != pairs_cur and vox(l0, l1, M, n, cand) <= 3500:
                        pairs2 = cand
                        break
                via = rng.choice(["object", "setter", "setter", "equal"])
                if via == "equal":  # set_equal_subpixel_offsets(width): offsets 0/width .. (width-1)/width
                    for width in rng.sample([1, 2, 3, 4, 5], 5):
                        if vox(l0, l1, M, n, [[k, width] for k in range(width)]) <= 3500:
                            pairs2 = [[k, width] for k in range(width)]
                            break
                    else:
                        via = "setter"
                scantime_now = next((x["scantime"] for x in reversed(steps) if x["op"] == "params"), case["scantime"])
                steps.append({"op": "config", "via": via, "pairs": pairs2, "warmup": w2 * scantime_now})
                pairs_cur, w = pairs2, w2
            if len(steps) > 1 and rng.random() < 0.25:
                steps[-2]["obs"] = True  # observe after that step as well (three observation points)
        case["steps"] = steps
        case["order"] = rng.choice(["std", "std", "flat-first", "krisskross-first"])
        return case

    def targeted(self, tier):
        base = {"spotsize": 35.0, "speed": 140.0, "scantime": 0.25, "warmup": 0.0, "pairs": [[0, 2], [1, 2]], "mag": 1,
                "n": 2, "short": None, "wmode": "exact", "nel": 1, "element": 0}
        # magnification exactly 1 with excess samples (the repaired defect): 3 x 5 layers
        yield {**base, "shapes": [[3, 5], [3, 5]]}
        yield {**base, "shapes": [[4, 20], [6, 20]]}
        yield {**base, "shapes": [[1, 1], [1, 1]]}
        yield {**base, "shapes": [[1, 2], [2, 1]], "n": 3}
        # mag 2, warm-up 2 samples, non-square, first offset non-zero, three elements
        yield {**base, "spotsize": 70.0, "mag": 2, "warmup": 0.5, "pairs": [[1, 3], [2, 3], [0, 1]], "shapes": [[2, 9], [3, 7]],
               "n": 5, "nel": 3, "element": 2}
        # exact fit and one sample short
        yield {**base, "spotsize": 105.0, "mag": 3, "warmup": 0.25, "pairs": [[0, 1]], "shapes": [[2, 4], [1, 7]], "n": 2}
        yield {**base, "spotsize": 105.0, "mag": 3, "warmup": 0.25, "pairs": [[0, 1]], "shapes": [[2, 3], [1, 7]], "n": 2, "short": "s0"}
        yield {**base, "spotsize": 105.0, "mag": 3, "warmup": 0.25, "pairs": [[0, 1]], "shapes": [[2, 4], [1, 6]], "n": 2, "short": "s1"}
        yield {**base, "warmup": -0.25, "shapes": [[2, 4], [2, 4]], "short": "neg"}
        # ---- config-only enumerations ("offset lists of any length with denominators 1..d")
        cbase = {"kind": "cfg", "spotsize": 35.0, "speed": 140.0, "scantime": 0.25, "warmup": 0.5, "mag": 1, "via": "list",
                 "enumerated": True}
        singles = [[[num, den]] for den in range(1, CFG_MAXDEN + 1) for num in range(0, 2 * den + 1)]
        doubles = [[[n1, d1], [n2, d2]] for d1 in range(1, 13) for d2 in range(1, 13) for n1 in range(d1) for n2 in range(d2)]
        for k, lists in enumerate((singles, doubles)):
            for j in range(0, len(lists), CFG_BATCH):
                yield {**cbase, "sets": lists[j:j + CFG_BATCH], "mag": 1 + (j // CFG_BATCH) % 4, "spotsize": 35.0 * (1 + (j // CFG_BATCH) % 4),
                       "via": "array" if (j // CFG_BATCH) % 2 else "list"}
        # a few fixed long lists and offsets beyond one pixel
        yield {**cbase, "sets": [[[0, 1]], [[1, 30], [29, 30], [15, 30], [31, 30]], [[1, 2], [1, 3], [1, 5], [1, 7]],
                                 [[7, 8], [8, 9], [9, 10], [10, 11]], [[1, 16], [3, 24], [5, 18], [7, 27]]],
               "spotsize": 105.0, "mag": 3}
        # ---- two-step histories on one object
        hbase = {**base, "kind": "history", "spotsize": 70.0, "mag": 2, "warmup": 0.25, "pairs": [[1, 3], [1, 2]],
                 "shapes": [[3, 7], [2, 9]], "n": 4, "nel": 2, "element": 1, "order": "std"}
        yield {**hbase, "steps": [{"op": "replace", "layer": 2}]}
        yield {**hbase, "steps": [{"op": "replace", "layer": 1}], "order": "flat-first"}
        yield {**hbase, "steps": [{"op": "edit", "layer": 0, "cells": [[0, 1]]}]}
        yield {**hbase, "steps": [{"op": "edit", "layer": 3, "cells": "all"}], "order": "krisskross-first"}
        yield {**hbase, "steps": [{"op": "config", "via": "setter", "pairs": [[0, 2], [1, 2]], "warmup": 0.0}]}
        yield {**hbase, "steps": [{"op": "config", "via": "object", "pairs": [[1, 2]], "warmup": 0.25}]}
        yield {**hbase, "steps": [{"op": "config", "via": "equal", "pairs": [[0, 3], [1, 3], [2, 3]], "warmup": 0.5}]}
        yield {**hbase, "steps": [{"op": "config", "via": "setter", "pairs": [[2, 3]], "warmup": 0.25}, {"op": "replace", "layer": 0}]}
        yield {**base, "kind": "history", "shapes": [[1, 1], [1, 1]], "steps": [{"op": "replace", "layer": 0}], "order": "std"}
        yield {**base, "kind": "history", "shapes": [[1, 2], [2, 1]], "n": 3, "steps": [{"op": "edit", "layer": 2, "cells": [[0, 0]]}],
               "order": "std"}
        # ---- histories that change the element set / sample dtype / footprint / layer count / magnification of the SAME object
        yield {**hbase, "steps": [{"op": "rename", "map": [["A", "C"]]}]}
        yield {**hbase, "steps": [{"op": "rename", "map": [["A", "B"], ["B", "A"]]}], "order": "flat-first"}
        yield {**hbase, "steps": [{"op": "add", "name": "D", "dtype": "f8"}]}
        yield {**hbase, "steps": [{"op": "add", "name": "D", "dtype": "i8"}], "scale": 0.25}
        yield {**hbase, "steps": [{"op": "remove", "names": ["A"], "as_str": True}], "order": "krisskross-first"}
        yield {**hbase, "nel": 3, "steps": [{"op": "remove", "names": ["C", "A"]}]}
        yield {**hbase, "dtype": "i8", "steps": [{"op": "setdata", "dtype": "f8", "scale": 0.25, "via": "items"}]}
        yield {**hbase, "base": 2**40 + 1, "steps": [{"op": "setdata", "dtype": "f4", "scale": 0.5, "via": "list"}]}
        yield {**hbase, "dtype": "f4", "scale": 0.5, "steps": [{"op": "setdata", "dtype": "u2", "via": "list"}]}
        yield {**hbase, "steps": [{"op": "setdata", "names": ["B", "A"], "via": "items"}]}
        yield {**hbase, "steps": [{"op": "setdata", "names": ["P"], "via": "list"}]}
        yield {**hbase, "steps": [{"op": "setdata", "shapes": [[2, 8], [3, 5]], "via": "list"}]}
        yield {**hbase, "steps": [{"op": "setdata", "n": 2, "via": "list"}]}
        yield {**hbase, "steps": [{"op": "append"}]}
        yield {**hbase, "steps": [{"op": "pop"}]}
        yield {**hbase, "steps": [{"op": "pop", "obs": True}, {"op": "append"}]}
        yield {**hbase, "steps": [{"op": "scribble"}]}
        yield {**hbase, "shapes": [[3, 9], [2, 13]], "steps": [{"op": "params", "spotsize": 140.0, "speed": 140.0, "scantime": 0.25, "mag": 4}]}
        yield {**hbase, "steps": [{"op": "params", "spotsize": 35.0, "speed": 140.0, "scantime": 0.25, "mag": 1}]}
        yield {**hbase, "steps": [{"op": "rename", "map": [["A", "C"]], "obs": True}, {"op": "rename", "map": [["C", "A"]], "obs": True},
                                  {"op": "edit", "layer": 1, "cells": "all"}]}
        yield {**hbase, "steps": [{"op": "add", "name": "D", "dtype": "f4"}, {"op": "remove", "names": ["A", "B"]}]}
        # ---- calls of get(calibrate=True, ...) before the observations: the store must be what it was
        cbase = {**base, "spotsize": 35.0, "mag": 1, "warmup": 0.25, "pairs": [[0, 2], [1, 2]], "shapes": [[3, 7], [4, 6]], "n": 3,
                 "nel": 2, "element": 1, "cal": [[1.0, 2.0], None]}
        yield {**cbase, "creads": [{"element": None, "calibrate": True, "flat": False, "layer": k} for k in range(3)]}
        yield {**cbase, "creads": [{"element": None, "calibrate": True, "flat": False, "layer": 1}], "creads_at": "mid"}
        yield {**cbase, "creads": [{"element": None, "calibrate": True, "flat": False, "layer": None},
                                   {"element": None, "calibrate": True, "flat": True, "layer": None}]}
        yield {**cbase, "cal": [[0.5, 3.0], [-2.0, 0.5]], "creads": [{"element": 0, "calibrate": True, "flat": False, "layer": 2},
                                                                     {"element": 1, "calibrate": True, "flat": True, "layer": None},
                                                                     {"element": 1, "calibrate": True, "flat": False, "layer": None}]}
        yield {**cbase, "dtype": "f4", "scale": 0.5, "creads": [{"element": None, "calibrate": True, "flat": False, "layer": 0}]}
        yield {**cbase, "dtype": "i8", "creads": [{"element": None, "calibrate": True, "flat": False, "layer": 0},
                                                  {"element": 0, "calibrate": True, "flat": False, "layer": 1}]}
        hcal = {**hbase, "cal": [[1.0, 2.0], [0.25, 4.0]], "creads": [{"element": None, "calibrate": True, "flat": False, "layer": 1},
                                                                      {"element": None, "calibrate": True, "flat": False, "layer": None}]}
        yield {**hcal, "steps": [{"op": "rename", "map": [["A", "B"], ["B", "A"]]}]}
        yield {**hcal, "steps": [{"op": "add", "name": "D", "dtype": "f8"}, {"op": "remove", "names": ["A"]}]}
        yield {**hcal, "steps": [{"op": "cal", "field": 1, "b": 0.0, "g": 2.0, "obs": True}, {"op": "edit", "layer": 1, "cells": [[0, 0]]}]}
        yield {**hcal, "steps": [{"op": "setdata", "names": ["P", "A"], "via": "list"}], "creads_at": "mid"}
        yield {**hcal, "steps": [{"op": "scribble"}], "ctor": "from_list"}
        yield {**hcal, "steps": [{"op": "replace", "layer": 1}], "ctor": "from_lasers"}
        # ---- check_config_valid(config) with configurations other than the object's own
        pq = {"spotsize": 70.0, "speed": 140.0, "scantime": 0.25, "warmup": 0.25, "pairs": [[0, 1]]}
        yield {**base, "spotsize": 70.0, "mag": 2, "warmup": 0.25, "pairs": [[1, 3], [1, 2]], "shapes": [[3, 7], [2, 9]], "n": 3,
               "probes": [{**pq, "warmup": 0.5}, {**pq, "warmup": 0.75}, {**pq, "warmup": 1.0}, {**pq, "warmup": -0.25},
                          {**pq, "spotsize": 35.0}, {**pq, "spotsize": 105.0, "warmup": 0.0}, {**pq, "spotsize": 140.0, "warmup": 0.0}]}
        yield {**hbase, "probes": [{**pq, "warmup": 0.75}, {**pq, "spotsize": 105.0, "warmup": 0.0}],
               "steps": [{"op": "setdata", "shapes": [[2, 8], [3, 5]], "via": "list"}]}
        # ---- same-parity layers of different lengths
        rag = {**base, "spotsize": 70.0, "mag": 2, "warmup": 0.25, "pairs": [[1, 3], [1, 2]], "shapes": [[3, 5], [2, 7]], "nel": 2, "element": 1}
        yield {**rag, "n": 3, "extra": [0, 0, 2]}
        yield {**rag, "n": 5, "extra": [0, 0, 1, 4, 0]}
        yield {**rag, "n": 4, "extra": [3, 2, 0, 0]}
        yield {**rag, "n": 4, "extra": [0, 1, 2, 0], "kind": "history", "order": "std", "steps": [{"op": "edit", "layer": 2, "cells": [[0, 6]]}]}
        # ---- ONE raster attribute of the config assigned between two reconstructions (derived quantities must follow)
        p2 = {"spotsize": 70.0, "speed": 140.0, "scantime": 0.25}
        yield {**hbase, "steps": [{"op": "params", **p2, "spotsize": 35.0, "mag": 1, "only": "spotsize"}]}
        yield {**hbase, "steps": [{"op": "params", **p2, "speed": 280.0, "mag": 1, "only": "speed"}]}
        yield {**hbase, "steps": [{"op": "params", **p2, "scantime": 0.5, "mag": 1, "only": "scantime"}]}
        yield {**hbase, "shapes": [[3, 9], [2, 13]], "steps": [{"op": "params", **p2, "spotsize": 140.0, "mag": 4, "only": "spotsize"}]}
        yield {**hbase, "pairs": [[0, 2], [1, 2]], "steps": [
            {"op": "params", **p2, "speed": 280.0, "mag": 1, "only": "speed", "obs": True},
            {"op": "config", "via": "setter", "pairs": [[0, 3], [2, 3]], "warmup": 0.25, "obs": True},
            {"op": "params", "spotsize": 140.0, "speed": 280.0, "scantime": 0.25, "mag": 2, "only": "spotsize"}]}
        # ---- memory layouts of the layers, one dtype per field, big-endian fields
        for lay in LAYOUTS:
            yield {**base, "spotsize": 70.0, "mag": 2, "warmup": 0.25, "pairs": [[1, 3], [1, 2]], "shapes": [[3, 7], [2, 9]], "n": 3,
                   "nel": 2, "element": 0, "layout": lay}
        yield {**hbase, "layout": "strided", "steps": [{"op": "edit", "layer": 1, "cells": [[1, 2]]}]}
        yield {**hbase, "layout": "F", "cal": [[1.0, 2.0], None], "creads": [{"element": None, "calibrate": True, "flat": False, "layer": 1}],
               "steps": [{"op": "scribble"}]}
        yield {**base, "spotsize": 70.0, "mag": 2, "warmup": 0.25, "pairs": [[1, 3], [1, 2]], "shapes": [[3, 7], [2, 9]], "n": 3,
               "nel": 3, "element": 2, "dtypes": ["F8", "i4", "f4"], "scale": 0.5}
        yield {**hbase, "dtypes": ["I4", "F4"], "steps": [{"op": "add", "name": "D", "dtype": "F8"}]}
        # ---- sample dtypes and payloads of a fresh stack
        for dt, extra in (("f4", {"scale": 0.25}), ("i8", {"base": -(2**40)}), ("i4", {}), ("u2", {}), ("f8", {"scale": 0.5, "base": 2**40 + 1})):
            yield {**base, "spotsize": 70.0, "mag": 2, "warmup": 0.25, "pairs": [[1, 3], [1, 2]], "shapes": [[3, 7], [2, 9]], "n": 3,
                   "nel": 2, "element": 1, "dtype": dt, **extra}
        # ---- reconstruction with denominators >= 10 (1 line, magnification 1)
        yield {**base, "pairs": [[3, 10]], "shapes": [[1, 1], [1, 1]]}
        yield {**base, "pairs": [[0, 1], [5, 11]], "shapes": [[1, 2], [2, 1]], "n": 3}
        yield {**base, "pairs": [[7, 12], [1, 4]], "shapes": [[2, 3], [1, 2]]}

    def search_extra(self, tier):
        """small-scope enumeration used by the failing-input search: two-layer stacks, mag 1..2, all small shapes"""
        base = {"speed": 140.0, "scantime": 0.25, "n": 2, "short": None, "wmode": "exact", "nel": 1, "element": 0}
        for M in (1, 2):
            for l0 in (1, 2, 3):
                for l1 in (1, 2, 3):
                    for w in (0, 1):
                        for ex in (0, 1, 2):
                            for pairs in ([[0, 1]], [[0, 2], [1, 2]], [[1, 2]], [[1, 3], [0, 3], [2, 3]]):
                                yield {**base, "spotsize": 35.0 * M, "mag": M, "warmup": w * 0.25, "pairs": pairs,
                                       "shapes": [[l0, w + l1 * M + ex], [l1, w + l0 * M + ex]]}
                        # both layer kinds with the same number of samples
                        s = max(l0, l1) * M + 1
                        yield {**base, "spotsize": 35.0 * M, "mag": M, "warmup": 0.0, "pairs": [[0, 2], [1, 2]],
                               "shapes": [[l0, s], [l1, s]]}

    def case_fields(self, case):
        """the fields [name, dtype.str] and the float payload scale of the stack a case starts with"""
        names = case.get("names") or NAMES[:case["nel"]]
        keys = case.get("dtypes") or [case.get("dtype", "f8")]  # one dtype for all fields, or one per field (cycled)
        fscale = case.get("scale", 1)
        ok = (isinstance(keys, list) and keys and all(isinstance(k, str) and k in DTYPES for k in keys) and fscale in SCALES
              and isinstance(names, list) and len(names) >= 1 and len(set(names)) == len(names)
              and all(isinstance(n, str) and n.isidentifier() for n in names) and case.get("layout") in (None,) + LAYOUTS)
        if not ok:
            return [[n, None] for n in names] if isinstance(names, list) else [], fscale, False
        return [[n, DTYPES[keys[j % len(keys)]]] for j, n in enumerate(names)], fscale, ok

    def enc_stack(self, shapes, nfields, start):
        """fresh tokens for a stack of the given layer shapes: every sample of every field a number no other sample has"""
        total = sum(l * s for l, s in shapes)
        enc = []
        for (l, s) in shapes:
            enc.append({"rows": l, "cols": s, "data": [[start + v + e * total for e in range(nfields)] for v in range(l * s)]})
            start += l * s
        return enc, start + (nfields - 1) * total

    def build_layers(self, case):
        """-> (arrays, encoded layers, fields, float scale, next unused token); arrays is None when the payload does not fit the dtype"""
        fields, fscale, ok = self.case_fields(case)
        if not ok or not extra_ok(case):
            return None, None, fields, fscale, 0
        base = int(case.get("base", 1))
        enc, fresh = self.enc_stack(stack_shapes9(case), len(fields), base)
        if not payload_ok(fields, enc, fscale):
            return None, enc, fields, fscale, fresh
        layers = [relayout(make_layer(fields, L["rows"], L["cols"], L["data"], fscale), case.get("layout")) for L in enc]
        return layers, enc, fields, fscale, max(abs(base), abs(fresh)) + 1

    def evaluate(self, case, ctx):
        from pewlib.srr.srr import SRRLaser

        kind = case.get("kind", "recon")
        if kind == "cfg":
            return self.eval_cfg(case, ctx)
        if kind not in ("recon", "history"):
            raise core.InternalError(f"unknown case kind {kind}")
        layers, enc, fields, fscale, fresh = self.build_layers(case)
        if layers is None:
            # names that are no identifiers / duplicates, an unknown dtype or scale, tokens the dtype does not hold exactly
            return outcome(None, None, None, spec_ok=True, model_ok=True, undetermined=True, hyp=False, features=[])
        mag = float_mag(case)
        if case.get("near"):
            laser = SRRLaser(layers, config=make_srr_cfg(case))
            try:
                v = bool(laser.check_config_valid(laser.config))
                status = "rejected"
                if v:
                    laser.get()
                    status = "accepted-and-reconstructs"
            except Exception as ex:
                status = "accepted-but-raises-" + type(ex).__name__
            side = "below" if mag < case["mag"] else "above"
            # the model's float64 magnification must be the implementation's, and it must not be an integer
            rep = ctx.driver.call("c09.config", cfg=srr_cfg_json(case), sets=[])
            mj = rep["start"]
            same = mj["magnification"] == rat(float(laser.config.magnification))
            obs = {"near_integer_magnification": status, "magnification": rat(float(laser.config.magnification))}
            mobs = {"near_integer_magnification": status, "magnification": mj["magnification"]}
            if mj["integer_mag"]:
                raise core.InternalError("generator: a near-integer magnification is an integer in the model's float arithmetic")
            return outcome(obs, mobs, obs, model_ok=same, undetermined=True, hyp=False,
                           features=[f"near-integer-mag-{side}:{status}"])
        if mag != float(case["mag"]):
            raise core.InternalError("generator: magnification is not the intended float integer")
        cfg = make_srr_cfg(case)
        ctor = case.get("ctor", "init")
        # calibrations of the elements (None / no entry: the default Calibration()) and the calls of get made before the
        # observations of every state (`creads`)
        from pewlib.calibration import Calibration

        cal = case.get("cal")
        creads = case.get("creads", [])
        if not cal_ok(cal, len(fields)) or not isinstance(creads, list) or not all(read_ok(rd) for rd in creads):
            return outcome(None, None, None, spec_ok=True, model_ok=True, undetermined=True, hyp=False, features=[])
        caldict = {f[0]: Calibration(intercept=float(q[0]), gradient=float(q[1])) for f, q in zip(fields, cal or []) if q is not None}
        cal0 = [[f[0], rat(float(q[0])), rat(float(q[1]))] if q is not None else [f[0], rat(0.0), rat(1.0)]
                for f, q in zip(fields, cal or [None] * len(fields))]
        if ctor == "from_list" and all(f[1] == "<f8" for f in fields):
            # the classmethod builds float64 structured layers from one plain array per element and layer; it takes no
            # calibrations: they are put into the public dict afterwards
            laser = SRRLaser.from_list([f[0] for f in fields], [[np.array(a[f[0]]) for f in fields] for a in layers], config=cfg)
            for nm, c in caldict.items():
                laser.calibration[nm] = c
        elif ctor == "from_lasers":
            # stacked from one Laser per layer (raster parameters and calibrations of the first one, default warm-up and
            # offsets), then given the config
            from pewlib.config import Config
            from pewlib.laser import Laser

            raster = Config(spotsize=case["spotsize"], speed=case["speed"], scantime=case["scantime"])
            laser = SRRLaser.from_lasers([Laser(a, calibration=caldict if k == 0 else None, config=raster) for k, a in enumerate(layers)])
            laser.config = cfg
        else:
            ctor = "init"
            laser = SRRLaser(layers, calibration=caldict if (caldict or cal is not None) else None, config=cfg)
        st = {"ctor": ctor, "fields": fields, "enc": enc, "sops": [], "fscale": fscale, "fresh": fresh,
              "low": 1 if abs(int(case.get("base", 1))) >= 2**30 else None, "cal0": cal0}
        cur = {"fields": [list(f) for f in fields], "shapes": [list(x) for x in stack_shapes9(case)]}
        if kind == "history":
            return self.eval_history(case, ctx, laser, st, cur)
        r = self.eval_state(case, ctx, laser, cfg, st, cur=cur)
        if r.get("excluded"):
            return outcome(None, None, None, spec_ok=True, model_ok=True, undetermined=True, hyp=False, features=[])
        return outcome(r["impl"], r["model"], r["spec"], spec_ok=r["spec_ok"], model_ok=r["model_ok"],
                       undetermined=r["undet"], features=r["feats"], note=r["note"])

    def eval_state(self, case, ctx, laser, cfg, st, order="std", cur=None):
        """every observation of the property on `laser` in its CURRENT state, against the model/specification that the driver
        computes from the INPUTS: the stack the object was built with (`st["fields"]`, `st["enc"]`) and the changes made to it since
        (`st["sops"]`, applied by Lean's `Stack.applyAll`), the constructor arguments + later changes of the configuration described
        by `case` (spotsize, speed, scantime, warmup, pairs, ops). `cfg` is the configuration object whose getters / round trip are
        observed."""
        from pewlib.config import Config
        from pewlib.srr.config import SRRConfig

        def obs_cfg(c):
            o = {"params": [rat(float(c.spotsize)), rat(float(c.speed)), rat(float(c.scantime))], "warmup": rat(float(c.warmup)),
                 "magnification": rat(float(c.magnification))}
            so = c.subpixel_offsets
            o["subpixel_offsets"] = int_rows(so) if int_rows(so) is not None else {"not-integer-rows": np.asarray(so).tolist()}
            spp = c.subpixels_per_pixel
            o["subpixels_per_pixel"] = int(spp) if float(spp).is_integer() else float(spp)
            return o

        def cfg_view(j):
            if "spotsize" not in j:
                return j
            return {"params": [j["spotsize"], j["speed"], j["scantime"]], "warmup": j["warmup_seconds"],
                    "magnification": j["magnification"], "subpixel_offsets": j["subpixel_offsets"], "subpixels_per_pixel": j["spp"]}

        # ---- the configuration's array form, as NumPy built it (read back by the driver's `fromRec`)
        arrays, arr_note = [], None
        try:
            arr = cfg.to_array()
            arr_enc = enc_rec(arr)
            raster_enc = enc_rec(Config(spotsize=float(cfg.spotsize), speed=float(cfg.speed), scantime=float(cfg.scantime)).to_array())
            if arr_enc is not None and raster_enc is not None:
                arrays = [arr_enc, raster_enc]
        except Exception as ex:
            arr, arr_note = None, {"raises": type(ex).__name__, "msg": str(ex)[:200]}
        # ---- the calls of get made BEFORE the observations of this state (`creads`: any mixture of calibrate / element /
        # layer / flat), resolved against the fields and layers the object holds now; reconstructions only when accepted
        valid = bool(laser.check_config_valid(laser.config))
        reads = []
        if cur is not None:
            cf, cn = cur["fields"], len(cur["shapes"])
            for rd in case.get("creads", []):
                lay = None if rd.get("layer") is None else rd["layer"] % cn
                if lay is None and not valid:
                    continue
                reads.append({"element": None if rd.get("element") is None else cf[rd["element"] % len(cf)][0],
                              "calibrate": bool(rd.get("calibrate", False)), "flat": bool(rd.get("flat", False)), "layer": lay})
        rep = ctx.driver.call("c09.srr", cfg=srr_cfg_json(case), fields=st["fields"], layers=st["enc"], stack_ops=st["sops"],
                              arrays=arrays, cal0=st["cal0"], fscale=rat(float(st["fscale"])), reads=reads)
        if not rep["stack_ok"]:
            raise core.InternalError("a change of the stack that the model does not cover reached eval_state")
        if not (rep["reads_are_spec"] and rep["store_unchanged_by_reads"]):
            raise core.InternalError("the mechanism model of SRRLaser.get contradicts its specification (theorems get_eq_spec / "
                                     "reads_do_not_change_store)")
        mj = rep["config"]
        if not mj["integer_mag"] or mj["mag"] != case["mag"]:
            raise core.InternalError("generator: the model's float64 magnification is not the intended integer")
        if not rep["lines_crossed"]:
            raise core.InternalError("generator: the stack does not have the lines of a crossed stack")
        if not rep["crossed"] and rep["valid_spec"] and not rep["all_long_enough"]:
            # same-parity layers of different lengths, the first two long enough, a later one not: the validity check (which reads
            # layers 0 and 1) accepts what cannot be reconstructed - DESIGN 9.5, outside the quantifier ("s exceeding the needed length")
            return {"excluded": True}
        # ---- the stack the object should hold now (Lean): fields, layers
        fields = rep["fields"]
        names = [f[0] for f in fields]
        scales = [field_scale(f[1], st["fscale"]) for f in fields]
        kinds = [kind_of(f[1]) for f in fields]
        rels = [FLAT_REL32 if f[1].endswith("f4") else FLAT_REL for f in fields]
        nel, n = len(fields), len(rep["stack"])
        e = case["element"] % nel
        if not payload_ok(fields, rep["stack"], st["fscale"]):
            return {"excluded": True}
        # the statement of offsets_setter_exact on the rows the configuration reports (evaluated by the driver)
        setter_exact = None
        try:
            rows = int_rows(cfg.subpixel_offsets)
        except Exception:
            rows = None
        pairs_now = case.get("pairs_now", case["pairs"])  # the offset list the object was given last
        if rows is not None and pairs_ok(pairs_now):
            srep = ctx.driver.call("c09.config", cfg=srr_cfg_json(case), sets=[{"pairs": pairs_now, "observed": rows, "array": None}])
            setter_exact = srep["sets"][0]["observed_exact"]

        # ---- implementation, observed at check_config_valid / get / krisskross and the config's array round trip
        impl = {"valid": valid}
        returned = []  # the arrays the reads handed out (a later step of a history may write into them)
        creads_at = case.get("creads_at", "first")
        cr_impl, cr_model, cr_feats = [], [], set()

        def do_reads():
            """the calls of `creads` on the object; each result against the driver's (model of SRRLaser.get on the stored layers
            and the calibrations: 1e-12 of the magnitudes involved, 2^-20 for float32 fields; exact without calibrate).  A field
            of integer dtype that get(calibrate=True) without an element wrote back into its own dtype is not compared.  Plain
            reads that differ from the model are a broken correspondence; CALIBRATED values that differ are recorded only."""
            cal_now = {c[0]: (float(unrat(c[1])), float(unrat(c[2]))) for c in rep["cal"]}
            vmax = [max([abs(v) for L in rep["stack"] for px in L["data"] for v in px[k:k + 1]] + [1]) * scales[k] for k in range(nel)]
            for rd, mj in zip(reads, rep["reads_model"]):
                kw = {"calibrate": rd["calibrate"], "flat": rd["flat"], "layer": rd["layer"]}
                tag = {"args": rd}
                try:
                    res = laser.get(rd["element"], **kw)
                except Exception as ex:
                    ent = {**tag, "raises": type(ex).__name__, "msg": str(ex)[:200]}
                    cr_impl.append(ent)
                    if rd["calibrate"]:
                        cr_model.append(ent)
                        if mj is not None:
                            cr_feats.add("calibrated read: raises where the model returns (recorded only)")
                    else:
                        cr_model.append({**tag, "raises": True} if mj is None else {**tag, "shape": mj["shape"], "agrees_with_model": True})
                    continue
                returned.append(res)
                if mj is None:
                    ent = {**tag, "shape": list(res.shape)}
                    cr_impl.append(ent)
                    if rd["calibrate"]:
                        cr_model.append(ent)
                        cr_feats.add("calibrated read: returns where the model raises (recorded only)")
                    else:
                        cr_model.append({**tag, "raises": True})
                    continue
                sel = list(range(nel)) if rd["element"] is None else [names.index(rd["element"])]
                got = read_values(res, [names[k] for k in sel])
                ok = got is not None and list(res.shape) == mj["shape"]
                first = None
                if ok:
                    want = model_values(mj)
                    ok = want.shape == got.shape
                    for pos, k in enumerate(sel if ok else []):
                        if rd["calibrate"] and rd["element"] is None and kinds[k] != "f":
                            cr_feats.add("calibrated read of all elements: integer field written back truncated, not compared")
                            continue
                        b, g = cal_now.get(names[k], (0.0, 1.0))
                        if rd["calibrate"] and (b, g) != (0.0, 1.0):
                            tol = (2.0**-20 if fields[k][1].endswith("f4") else 1e-12) * (vmax[k] + abs(b)) / abs(g)
                        else:
                            tol = (2.0**-20 * vmax[k]) if (rd["flat"] and rd["layer"] is None and fields[k][1].endswith("f4")) else (
                                1e-12 * vmax[k] if (rd["flat"] and rd["layer"] is None) else 0.0)
                        d = np.abs(got[..., pos] - want[..., pos])
                        if rd["flat"] and rd["layer"] is None and rd["element"] is None and kinds[k] != "f":
                            continue  # structured flat image of an integer field: truncated by pewlib (see assumptions)
                        if not np.all(d <= tol):
                            ok = False
                            at = np.unravel_index(int(np.argmax(d)), d.shape)
                            first = {"field": names[k], "at": [int(x) for x in at], "got": float(got[..., pos][at]), "model": float(want[..., pos][at])}
                            break
                if rd["calibrate"]:
                    # no clause of the property says what a CALIBRATED read returns: a difference from the model is recorded (feature,
                    # evidence), never a verdict (notes/SECTION13.md 13.2); what is demanded is that the store is unchanged afterwards
                    ent = {**tag, "shape": list(res.shape), "calibrated_values_agree_with_model": bool(ok),
                           **({"first_difference": first} if first else {})}
                    cr_impl.append(ent)
                    cr_model.append(ent)
                    if not ok:
                        cr_feats.add("calibrated read: values differ from the model (recorded only)")
                else:
                    cr_impl.append({**tag, "shape": list(res.shape), "agrees_with_model": bool(ok), **({"first_difference": first} if first else {})})
                    cr_model.append({**tag, "shape": mj["shape"], "agrees_with_model": True})
                cr_feats.add("cread:" + ("calibrated" if rd["calibrate"] else "plain") + (":layer" if rd["layer"] is not None else (":flat" if rd["flat"] else ":recon"))
                             + (":element" if rd["element"] is not None else ":all"))
                if rd["calibrate"] and rd["layer"] is not None and rd["element"] is None and any(
                        cal_now.get(nm, (0.0, 1.0)) != (0.0, 1.0) for nm in names):
                    cr_feats.add("cread:in-place-calibration-of-a-layer-copy")

        if reads and creads_at == "first":
            do_reads()
        if valid:
            try:
                if order == "flat-first":
                    laser.get(flat=True)
                elif order == "krisskross-first":
                    laser.krisskross()
                recon = laser.get()
                returned.append(recon)
                impl["recon_fields"] = descr_of(recon.dtype)
                impl["recon"] = enc3(recon, names, scales)
                kk = laser.krisskross()
                returned.append(kk)
                impl["krisskross"] = enc3(kk, names, scales)
                impl["elements"], impl["flat_elements"] = [], []
                for k in range(nel):  # get(name) / get(name, flat=True) for EVERY element
                    el = laser.get(names[k])
                    returned.append(el)
                    impl["elements"].append({"shape": list(el.shape), "data": [[tokens(v, scales[k]) for v in row] for row in el]})
                fl = laser.get(flat=True)
                returned.append(fl)
                impl["flat"] = {"shape": list(fl.shape), "data": [[[float(fl[nm][r, c]) / sc for c in range(fl.shape[1])]
                                                                    for r in range(fl.shape[0])] for nm, sc in zip(names, scales)]}
                for k in range(nel):
                    fe = laser.get(names[k], flat=True)
                    returned.append(fe)
                    impl["flat_elements"].append({"shape": list(fe.shape), "data": [[float(v) / scales[k] for v in row] for row in fe]})
            except Exception as ex:
                impl["recon"] = {"raises": type(ex).__name__, "msg": str(ex)[:200]}
        if reads and creads_at != "first":
            do_reads()  # between the reconstructions and the layer reads
        impl["offsets_exact"] = setter_exact
        impl["layers"], impl["layers_flat"] = [], []
        impl["layers_element"] = []
        for i in range(n):
            for key, kw in (("layers", {}), ("layers_flat", {"flat": True})):
                try:
                    lr = laser.get(layer=i, **kw)
                    returned.append(lr)
                    impl[key].append(enc2(lr, names, scales))
                except Exception as ex:
                    impl[key].append({"raises": type(ex).__name__, "msg": str(ex)[:200]})
            try:  # get(element, layer=i): that element of the layer
                le = laser.get(names[e], layer=i, flat=bool(i % 3 == 1))
                returned.append(le)
                impl["layers_element"].append({"shape": list(le.shape), "data": [tokens(row, scales[e]) for row in le]} if le.ndim == 2
                                              else {"shape": list(le.shape)})
            except Exception as ex:
                impl["layers_element"].append({"raises": type(ex).__name__, "msg": str(ex)[:200]})
        # the stack itself, read from the public list `laser.data` (against the model of the changes made to it)
        try:
            impl["stack"] = {"fields": [descr_of(a.dtype) for a in laser.data],
                             "layers": [{"rows": int(a.shape[0]), "cols": int(a.shape[1]),
                                         "data": [tokens(v) for v in per_field(a, names, scales).reshape(-1, nel)]} for a in laser.data]}
        except Exception as ex:
            impl["stack"] = {"raises": type(ex).__name__, "msg": str(ex)[:200]}
        try:
            impl["config"] = obs_cfg(cfg)
        except Exception as ex:
            impl["config"] = {"raises": type(ex).__name__, "msg": str(ex)[:200]}
        # ---- check_config_valid(config) for configurations OTHER than the one the object holds (`probes`): the answer is about the
        # configuration passed in, compared in both directions with Lean's validSpec for it (near-integer magnifications and
        # warm-ups decided by float rounding are not judged)
        pr_impl, pr_model, pr_spec, pr_feats = [], [], [], set()
        probes = [q for q in case.get("probes", []) if probe_ok(q)]
        if probes:
            prep = ctx.driver.call("c09.valid", shapes=[[L["rows"], L["cols"]] for L in rep["stack"]],
                                   cfgs=[srr_cfg_json(q) for q in probes])["configs"]
            for q, pj in zip(probes, prep):
                if not pj["integer_mag"] or float_mag(q) != float(pj["mag"]):
                    continue
                try:
                    got = bool(laser.check_config_valid(make_srr_cfg(q)))
                except Exception as ex:
                    got = {"raises": type(ex).__name__, "msg": str(ex)[:200]}
                pr_impl.append(got)
                pr_model.append(pj["valid"])
                pr_spec.append(pj["valid_spec"] if pj["warmup_determined"] else got)
                pr_feats.add("probe-config:" + ("accepted" if got is True else "rejected"))
        impl["probes"] = pr_impl
        if arr is None:
            impl["array"] = impl["roundtrip"] = impl["from_raster_array"] = arr_note
        else:
            impl["array"] = arr_enc if arr_enc is not None else {"not-encodable": str(arr.dtype)}
            for key, a in (("roundtrip", arr), ("from_raster_array", Config(spotsize=float(cfg.spotsize), speed=float(cfg.speed),
                                                                           scantime=float(cfg.scantime)).to_array())):
                try:
                    impl[key] = obs_cfg(SRRConfig.from_array(a))
                except Exception as ex:
                    impl[key] = {"raises": type(ex).__name__, "msg": str(ex)[:200]}

        # ---- specification / model (Lean)
        determined = bool(rep["warmup_determined"])
        spec = {"valid": rep["valid_spec"],
                "recon": rep["spec"] if rep["spec_inrange"] else {"unsatisfiable": "a source index of the geometric model is out of range"},
                "flat": rep["flat_spec"], "layers": rep["layer_spec"], "layers_flat": rep["layer_spec"], "roundtrip": "unchanged"}
        model = {"valid": rep["valid"], "recon": rep["model"], "recon_fields": fields, "flat": rep["flat_model"],
                 "layers": rep["layer_model"], "layers_flat": rep["layer_model_flat"],
                 "stack": {"fields": [fields] * n, "layers": rep["stack"]}, "config": cfg_view(mj), "array": rep["array_model"],
                 "roundtrip": cfg_view(rep["roundtrip_model"]),
                 "from_raster_array": cfg_view(rep["from_arrays"][1]) if arrays else None}

        def recon_ok(target, flats):
            if not valid:
                return True  # nothing is claimed about the reconstruction of configurations that are not accepted
            if "data" not in impl.get("recon", {}) or "data" not in target:
                return False
            if not (core.canon(impl["recon"]) == core.canon(target) and core.canon(impl["krisskross"]) == core.canon(target)):
                return False
            if len(impl.get("elements", [])) != nel or len(impl.get("flat_elements", [])) != nel:
                return False
            for k in range(nel):
                if core.canon(impl["elements"][k]) != core.canon(pick_element(target, k)):
                    return False
                if impl["flat_elements"][k]["shape"] != target["shape"][:2]:
                    return False
            if impl["flat"]["shape"] != target["shape"][:2]:
                return False
            for k in range(nel):
                if kinds[k] != "f":
                    # get(flat=True) without an element stores the mean in the field's own integer dtype (truncated):
                    # integer sample dtypes are outside what is compared for the structured flat image (see notes/TC09.md)
                    continue
                if "data" not in flats[k] or not flat_close(impl["flat"]["data"][k], flats[k]["data"], rels[k]):
                    return False
            return all("data" in flats[k] and flat_close(impl["flat_elements"][k]["data"], flats[k]["data"], rels[k]) for k in range(nel))

        def same(a, b):
            return core.canon(a) == core.canon(b)

        def native(descr):
            """field list with the byte-order mark dropped: which byte order the RESULT of a reconstruction has is nobody's clause"""
            return [[f[0], f[1].lstrip("<>=|")] for f in descr] if isinstance(descr, list) else descr

        def agrees(o, v):
            """a configuration the implementation holds against the model's (exact floats; errors by class)"""
            if not isinstance(o, dict) or not isinstance(v, dict):
                return False
            if "raises" in o or "raises" in v:
                return o.get("raises") == v.get("raises")
            if v.get("unmodelled"):
                return True
            return same(o, v)

        spec["layers_element"] = [pick_element(L, e) if isinstance(L, dict) else L for L in rep["layer_spec"]]
        model["layers_element"] = [pick_element(L, e) if isinstance(L, dict) else L for L in rep["layer_model"]]
        layers_spec_ok = (same(impl["layers"], spec["layers"]) and same(impl["layers_flat"], spec["layers"])
                          and same(impl["layers_element"], spec["layers_element"]))
        rt_same = isinstance(impl["config"], dict) and "raises" not in impl["config"] and same(impl["roundtrip"], impl["config"])
        # acceptance is compared in BOTH directions (theorems valid_iff_spec / valid_iff_evaluable): accepted iff the geometric
        # model can be evaluated.  (When float rounding decides the warm-up in samples the case is undetermined anyway.)
        spec_ok = (valid == rep["valid_spec"] and recon_ok(spec["recon"], rep["flat_spec"]) and layers_spec_ok and rt_same
                   and not (valid and setter_exact is False))
        spec["offsets_exact"] = model["offsets_exact"] = None if setter_exact is None else True
        model_ok = (valid == (rep["valid"] is True) and recon_ok(model["recon"], rep["flat_model"])
                    and same(impl["layers"], model["layers"]) and same(impl["layers_flat"], model["layers_flat"])
                    and same(impl["layers_element"], model["layers_element"]) and same(impl["stack"], model["stack"])
                    and (not (valid and "data" in impl.get("recon", {})) or same(native(impl["recon_fields"]), native(fields)))
                    and agrees(impl["config"], model["config"]) and agrees(impl["roundtrip"], model["roundtrip"]))
        if arrays:
            model_ok = model_ok and same(impl["array"], model["array"]) and agrees(impl["from_raster_array"], model["from_raster_array"])
        # the calls of get made before the observations: what they RETURN is a matter of model and code (no clause of the property
        # speaks of calibrated values); that the observations after them still follow the geometric model is the specification
        impl["creads"], model["creads"], spec["creads"] = cr_impl, cr_model, "no clause about the values; the store must be unchanged"
        if len(cr_impl) != len(reads):
            raise core.InternalError("not every call of creads was made")
        model_ok = model_ok and same(cr_impl, cr_model)
        model["probes"], spec["probes"] = pr_model, pr_spec
        model_ok = model_ok and same(pr_impl, pr_model)
        spec_ok = spec_ok and same(pr_impl, pr_spec)

        # float rounding of the warm-up quotient crosses a tie: the specification does not decide the warm-up in samples, so
        # nothing is demanded of the implementation; the MODEL (exact float64 arithmetic) still has to agree with it
        undet = (not determined) and model_ok
        if not determined:
            spec_ok = True
        feats = set()
        sh0 = (rep["stack"][0]["rows"], rep["stack"][0]["cols"])
        sh1 = (rep["stack"][1]["rows"], rep["stack"][1]["cols"])
        if valid and "data" in impl.get("recon", {}):
            l0, l1 = sh0[0], sh1[0]
            w = mj["warmup_samples"]
            M = mj["mag"]
            ex0 = sh0[1] - (w + l1 * M)
            ex1 = sh1[1] - (w + l0 * M)
            feats |= {f"mag{M}", f"layers{n}", f"elements{nel}",
                      "non-square" if l0 != l1 else "square",
                      "warmup>0" if w > 0 else "warmup=0",
                      "excess>0" if max(ex0, ex1) > 0 else "exact-fit",
                      "first-offset-zero" if mj["offs"][0] == 0 else "first-offset-nonzero",
                      "spp>1" if mj["spp"] > 1 else "spp=1",
                      f"offsets{len(mj['offs'])}", f"warmup-{case['wmode']}"}
            if len(mj["offs"]) + (mj["offs"][0] != 0) < n:
                feats.add("offsets-cycle")
            if min(l0, l1) == 1:
                feats.add("one-line")
            if max(mj["offs"]) >= mj["spp"] and max(mj["offs"]) > 0:
                feats.add("offset>=pixel")
            if mj["magnification_exact"] != mj["magnification"]:
                feats.add("magnification: exact quotient is not the float integer")
            if arrays:
                feats.add("array-form: structured dtype compared")
            dts = sorted({f[1] for f in fields})
            if dts != ["<f8"]:
                feats |= {"dtype:" + d for d in dts}
                if len(dts) > 1:
                    feats.add("dtype:mixed-fields")
            if st.get("ctor", "init") != "init":
                feats.add("ctor:" + st["ctor"])
            if case.get("layout") and st.get("ctor", "init") != "from_list" and not st["sops"]:
                feats.add("layout:" + case["layout"])
            if any(d.startswith(">") for d in dts):
                feats.add("dtype:big-endian")
            if not rep["crossed"]:
                feats.add("ragged: same-parity layers of different lengths")
            if n > 5:
                feats.add("layers>5")
            if max(l0, l1) > 6:
                feats.add("lines>6")
            if any(k != "f" for k in kinds):
                feats.add("flat(structured) of an integer field: truncated by pewlib, not compared")
            if st["fscale"] != 1 and "f" in kinds:
                feats.add("payload:fractional")
            if any(abs(v) >= 2**32 for L in rep["stack"] for px in L["data"][:1] for v in px):
                feats.add("payload:beyond-2^32")
        if valid and "data" in impl.get("recon", {}):
            feats |= cr_feats | pr_feats
            if cr_impl:
                feats.add("creads:" + creads_at)
            if len(mj["offs"]) + (mj["offs"][0] != 0) > n:
                feats.add("offsets>layers")
            if any(c[1:] != [rat(0.0), rat(1.0)] for c in rep["cal"]):
                feats.add("calibration:non-identity")
        note = ""
        if not valid:
            note = "rejected"
            feats = {"rejected:" + str(case.get("short"))} if not rep["valid_spec"] else {"impl-rejects-spec-accepts"}
        elif feats and max(d for _, d in pairs_now) >= 10:
            feats.add("recon:den>=10")
        if not determined:
            feats.add("warm-up decided by float rounding (undetermined)")
        return {"impl": impl, "model": model, "spec": spec, "spec_ok": spec_ok, "model_ok": model_ok, "undet": undet,
                "feats": feats, "note": note, "valid": valid, "returned": returned, "fields": fields,
                "shapes": [[L["rows"], L["cols"]] for L in rep["stack"]]}

    # ------------------------------------------------------------------ histories on one object
    def eval_history(self, case, ctx, laser, st, cur):
        """observe, change the SAME object step by step, observe again (after the last step, and after every step marked "obs").
        A step changes the object and, independently, the abstract description (`st["sops"]` for the stack - applied by Lean -,
        `case["ops"]` for the configuration)."""
        order = case.get("order", "std")
        excluded = outcome(None, None, None, spec_ok=True, model_ok=True, undetermined=True, hyp=False, features=[])
        states = [self.eval_state(case, ctx, laser, laser.config, st, order=order, cur=cur)]
        if states[0].get("excluded"):
            return excluded
        cur = {"fields": states[0]["fields"], "shapes": states[0]["shapes"]}
        case2 = dict(case)
        case2["ops"] = list(case.get("ops", []))
        st = dict(st, sops=list(st["sops"]))
        hfeats = set()
        steps = case.get("steps", [])
        for k, stp in enumerate(steps):
            try:
                r = self.do_step(stp, case2, ctx, laser, st, cur, states, hfeats)
            except StepRaised as ex:
                # pewlib raised where the model of srr.py performs the change: reported as a difference between model and code
                done = {"states": [x["impl"] for x in states]}
                return outcome({**done, "step": k, "raises": str(ex)}, {"states": [x["model"] for x in states], "step": k, "performed": True},
                               {"states": [x["spec"] for x in states]}, spec_ok=all(x["spec_ok"] for x in states), model_ok=False,
                               features=["history:step-raises"], note=f"step {k} ({stp['op']}) raises {ex}")
            if r == "excluded":
                return excluded
            if stp.get("obs") or k == len(steps) - 1:
                states.append(self.eval_state(case2, ctx, laser, laser.config, st, order=order, cur=cur))
                if states[-1].get("excluded"):
                    return excluded
        if len(states) == 1:
            states.append(self.eval_state(case2, ctx, laser, laser.config, st, order=order, cur=cur))
        impl = {"states": [x["impl"] for x in states]}
        model = {"states": [x["model"] for x in states]}
        spec = {"states": [x["spec"] for x in states]}
        feats = set()
        if all(x["valid"] and "data" in x["impl"].get("recon", {}) for x in states):
            feats = {"history", f"history:order-{order}", f"history:steps{len(steps)}", f"history:observed{len(states)}x"} | hfeats
            feats |= {f for x in states for f in x["feats"] if f.startswith(("mag", "layers", "elements", "dtype:", "payload:", "ctor:", "lines",
                                                                               "cread", "calibrat", "offsets>"))}
        elif not all(x["valid"] for x in states):
            feats = {"history:rejected"}
        return outcome(impl, model, spec, spec_ok=all(x["spec_ok"] for x in states), model_ok=all(x["model_ok"] for x in states),
                       undetermined=any(x["undet"] for x in states), features=feats, note=states[-1]["note"])

    def stack_step(self, ctx, st, cur, sop):
        """append a change of the stack to the abstract description; Lean says what the stack looks like afterwards
        (False: the change is outside the model, e.g. a name that does not exist - nothing is done to the object then)"""
        rep = ctx.driver.call("c09.stack", fields=st["fields"], layers=st["enc"], stack_ops=st["sops"] + [sop])
        if not rep["ok"]:
            return False
        st["sops"].append(sop)
        cur["fields"], cur["shapes"] = rep["states"][-1]["fields"], rep["states"][-1]["shapes"]
        return True

    def alloc(self, st, fields, shapes, fscale):
        """fresh tokens for new layers: above every token used so far; when the dtype does not hold those and the stack started
        beyond 2^30 (so that the small numbers are unused), from the unused small numbers.  None: they do not fit either way."""
        enc, nxt = self.enc_stack(shapes, len(fields), st["fresh"])
        if payload_ok(fields, enc, fscale):
            st["fresh"] = nxt + 1
            return enc
        if st.get("low") is not None:
            enc, nxt = self.enc_stack(shapes, len(fields), st["low"])
            if nxt < 2**29 and payload_ok(fields, enc, fscale):
                st["low"] = nxt + 1
                return enc
        return None

    def fresh_layer(self, st, fields, rows, cols, fscale):
        """a new layer of fresh tokens: (array, encoded); None when the dtype does not hold them"""
        enc = self.alloc(st, fields, [(rows, cols)], fscale)
        if enc is None:
            return None
        return make_layer(fields, rows, cols, enc[0]["data"], fscale), enc[0]

    def do_step(self, stp, case2, ctx, laser, st, cur, states, hfeats):
        op = stp["op"]
        fields = [list(f) for f in cur["fields"]]
        names = [f[0] for f in fields]
        n = len(cur["shapes"])
        if op in ("replace", "edit"):
            i = stp["layer"] % n
            rows, cols = cur["shapes"][i]
            if op == "replace" or stp["cells"] == "all":
                cells = [[r, c] for r in range(rows) for c in range(cols)]
            else:
                cells = [list(x) for x in sorted({(r % rows, c % cols) for r, c in stp["cells"]})]
            delta = st["fresh"]  # every changed sample gets a value no other sample has
            if not payload_ok(fields, [{"data": [[2 * delta] * len(fields)]}], st["fscale"]):
                return "excluded"
            if not self.stack_step(ctx, st, cur, {"op": "add_to", "layer": i, "cells": cells, "delta": delta}):
                return "excluded"
            st["fresh"] = 2 * delta
            if op == "replace":
                old = laser.data[i]
                new = np.empty(old.shape, dtype=old.dtype)
                for nm, dt in fields:
                    new[nm] = old[nm] + np.asarray(delta * field_scale(dt, st["fscale"])).astype(old.dtype[nm])
                laser.data[i] = new
                hfeats.add("history:replace-layer")
            else:
                for nm, dt in fields:
                    for r, c in cells:
                        laser.data[i][nm][r, c] += np.asarray(delta * field_scale(dt, st["fscale"])).astype(laser.data[i].dtype[nm])
                hfeats.add("history:edit-in-place")
            hfeats.add("history:last-layer" if i == n - 1 else ("history:first-layer" if i == 0 else "history:inner-layer"))
        elif op == "rename":
            mp = [[str(a), str(b)] for a, b in stp["map"]]
            if len({a for a, _ in mp}) != len(mp) or not all(b.isidentifier() for _, b in mp):
                return "excluded"
            if not self.stack_step(ctx, st, cur, {"op": "rename", "map": mp}):
                return "excluded"
            real(laser.rename, {a: b for a, b in mp})
            hfeats |= {"history:rename", "history:element-set-change"}
            if any(b in names for _, b in mp):
                hfeats.add("history:rename-swap-or-chain")
        elif op == "remove":
            rm = [str(x) for x in stp["names"]]
            if not self.stack_step(ctx, st, cur, {"op": "remove", "names": rm}):
                return "excluded"
            real(laser.remove, rm[0] if len(rm) == 1 and stp.get("as_str") else rm)
            hfeats |= {"history:remove", "history:element-set-change"}
        elif op == "add":
            dt = DTYPES.get(stp.get("dtype", "f8"))
            name = str(stp["name"])
            if dt is None or not name.isidentifier():
                return "excluded"
            arrs, encs = [], []
            for rows, cols in cur["shapes"]:
                got = self.fresh_layer(st, [[name, dt]], rows, cols, st["fscale"])
                if got is None:
                    return "excluded"
                arrs.append(np.ascontiguousarray(got[0][name]))
                encs.append({"rows": rows, "cols": cols, "data": [px[0] for px in got[1]["data"]]})
            if not self.stack_step(ctx, st, cur, {"op": "add", "name": name, "dtype": dt, "data": encs}):
                return "excluded"
            real(laser.add, name, arrs)
            hfeats |= {"history:add", "history:element-set-change"}
            if any(f[1] != dt for f in fields):
                hfeats.add("history:dtype-change")
        elif op == "setdata":
            # other layers altogether: names / sample dtype / payload scale / footprint / number of layers as the step says,
            # what it does not say stays as it is
            nm2 = stp.get("names") or names
            dt2 = DTYPES.get(stp["dtype"]) if stp.get("dtype") else None
            if stp.get("dtype") and dt2 is None:
                return "excluded"
            fs2 = stp.get("scale", st["fscale"])
            if not (isinstance(nm2, list) and nm2 and len(set(nm2)) == len(nm2) and all(isinstance(x, str) and x.isidentifier() for x in nm2)
                    and fs2 in SCALES):
                return "excluded"
            fields2 = [[x, dt2 or (fields[j][1] if j < len(fields) else fields[0][1])] for j, x in enumerate(nm2)]
            sh2 = stp.get("shapes") or cur["shapes"][:2]
            n2 = int(stp.get("n") or n)
            if n2 < 2 or len(sh2) != 2 or min(min(x) for x in sh2) < 1:
                return "excluded"
            shapes2 = [list(sh2[i % 2]) for i in range(n2)]
            enc2_ = self.alloc(st, fields2, shapes2, fs2)
            if enc2_ is None:
                return "excluded"
            if not self.stack_step(ctx, st, cur, {"op": "set_data", "fields": fields2, "layers": enc2_}):
                return "excluded"
            new = [make_layer(fields2, L["rows"], L["cols"], L["data"], fs2) for L in enc2_]
            fs_old, st["fscale"] = st["fscale"], fs2
            if stp.get("via") == "items" and n2 == n:
                for i in range(n):
                    laser.data[i] = new[i]
                hfeats.add("history:setdata-itemwise")
            else:
                laser.data = new
                hfeats.add("history:setdata-list")
            if [f[0] for f in fields2] != names:
                # other elements: the caller keeps the public calibration dict in step (SRRLaser.remove pops from it)
                from pewlib.calibration import Calibration

                laser.calibration = {x: Calibration() for x in nm2}
                st["sops"].append({"op": "set_cal", "cal": [[x, rat(0.0), rat(1.0)] for x in nm2]})
            hfeats.add("history:setdata")
            if [f[0] for f in fields2] != names:
                hfeats |= {"history:setdata:names", "history:element-set-change"}
            if sorted({f[1] for f in fields2}) != sorted({f[1] for f in fields}) or fs2 != fs_old:
                hfeats.add("history:dtype-change")
            if stp.get("shapes"):
                hfeats.add("history:setdata:footprint")
            if n2 != n:
                hfeats.add("history:setdata:layers")
        elif op == "append":
            rows, cols = cur["shapes"][n - 2]
            got = self.fresh_layer(st, fields, rows, cols, st["fscale"])
            if got is None:
                return "excluded"
            if not self.stack_step(ctx, st, cur, {"op": "append", "layer": got[1]}):
                return "excluded"
            laser.data.append(got[0])
            hfeats |= {"history:append-layer", "history:layer-count-change"}
        elif op == "pop":
            if n < 3:
                return "excluded"
            if not self.stack_step(ctx, st, cur, {"op": "pop"}):
                return "excluded"
            laser.data.pop()
            hfeats |= {"history:pop-layer", "history:layer-count-change"}
        elif op == "cal":
            # laser.calibration[name] = Calibration(intercept, gradient): the public dict, one item
            from pewlib.calibration import Calibration

            if not cal_ok([[stp.get("b"), stp.get("g")]], 1) or not isinstance(stp.get("field"), int):
                return "excluded"
            nm = names[stp["field"] % len(names)]
            laser.calibration[nm] = Calibration(intercept=float(stp["b"]), gradient=float(stp["g"]))
            st["sops"].append({"op": "cal_item", "name": nm, "intercept": rat(float(stp["b"])), "gradient": rat(float(stp["g"]))})
            hfeats.add("history:calibration-assigned")
        elif op == "scribble":
            # the caller writes into the arrays earlier reconstructions returned (as get(calibrate=True) does in place):
            # neither the stack nor the configuration changes
            for a in states[-1]["returned"]:
                if not a.flags.writeable:
                    continue
                if a.dtype.names:
                    for nm in a.dtype.names:
                        a[nm][...] = 3
                else:
                    a[...] = 3
            hfeats.add("history:scribble-on-returned-arrays")
        elif op == "params":
            # the three raster attributes assigned: another magnification (the warm-up stays what it is, in samples)
            sp, v, t, M2 = float(stp["spotsize"]), float(stp["speed"]), float(stp["scantime"]), int(stp["mag"])
            if not (sp > 0 and v > 0 and t > 0 and M2 >= 1 and sp / (v * t) == float(M2)):
                return "excluded"
            only = stp.get("only")
            if only is not None:
                # a single attribute assigned; the other two must be what the object holds (else the step means nothing)
                now3 = case2.get("params_now") or [case2["spotsize"], case2["speed"], case2["scantime"]]
                if only not in ("spotsize", "speed", "scantime") or any(
                        float(a) != float(b) for k3, (a, b) in enumerate(zip(now3, [sp, v, t])) if ["spotsize", "speed", "scantime"][k3] != only):
                    return "excluded"
                setattr(laser.config, only, {"spotsize": sp, "speed": v, "scantime": t}[only])
                hfeats.add("history:config-one-attribute:" + only)
            else:
                laser.config.spotsize, laser.config.speed, laser.config.scantime = sp, v, t
            case2["ops"] = case2["ops"] + [cfg_op("params", spotsize=sp, speed=v, scantime=t)]
            if M2 != case2["mag"]:
                hfeats.add("history:magnification-change")
            case2["params_now"], case2["mag"] = [sp, v, t], M2
            hfeats.add("history:config-params")
        elif op == "config":
            pairs2 = [list(q) for q in stp["pairs"]]
            case2["wmode"] = "exact"
            # the driver is told what was DONE to the object (a new one, or the two setters); `pairs` only names the
            # offset list the statement of offsets_setter_exact is evaluated for
            if stp["via"] == "object":
                p3 = case2.get("params_now") or [case2["spotsize"], case2["speed"], case2["scantime"]]
                laser.config = make_srr_cfg({"spotsize": p3[0], "speed": p3[1], "scantime": p3[2], "pairs": pairs2, "warmup": stp["warmup"]})
                case2["ops"] = case2["ops"] + [cfg_op("new", spotsize=p3[0], speed=p3[1], scantime=p3[2], warmup=stp["warmup"],
                                                      pairs=pairs2)]
            elif stp["via"] == "equal" and pairs2 == [[k, len(pairs2)] for k in range(len(pairs2))]:
                laser.config.set_equal_subpixel_offsets(len(pairs2))
                laser.config.warmup = stp["warmup"]
                case2["ops"] = case2["ops"] + [cfg_op("equal", width=len(pairs2)), cfg_op("warmup", seconds=stp["warmup"])]
            else:
                laser.config.subpixel_offsets = [tuple(q) for q in pairs2]
                laser.config.warmup = stp["warmup"]
                case2["ops"] = case2["ops"] + [cfg_op("offsets", pairs=pairs2), cfg_op("warmup", seconds=stp["warmup"])]
            case2["pairs_now"] = pairs2
            hfeats.add("history:config-" + stp["via"])
        else:
            raise core.InternalError(f"unknown history step {op}")
        return None

    # ------------------------------------------------------------------ the configuration alone
    def eval_cfg(self, case, ctx):
        from pewlib.srr.config import SRRConfig

        sets = case["sets"]
        if not sets or not all(pairs_ok(ps) for ps in sets):
            # outside the hypotheses of offsets_setter_exact / srrconfig_roundtrip (or beyond int64): nothing is claimed
            return outcome(None, None, None, spec_ok=True, model_ok=True, undetermined=True, hyp=False, features=[])
        mag = float_mag(case)
        if mag != float(case["mag"]):
            raise core.InternalError("generator: magnification is not the intended float integer")

        def give(ps):
            return np.array(ps) if case.get("via") == "array" else [tuple(q) for q in ps]

        def obs(c):
            o = {"params": [rat(float(c.spotsize)), rat(float(c.speed)), rat(float(c.scantime))], "warmup": rat(float(c.warmup)),
                 "magnification": rat(float(c.magnification))}
            so = c.subpixel_offsets
            o["subpixel_offsets"] = int_rows(so) if int_rows(so) is not None else {"not-integer-rows": np.asarray(so).tolist()}
            spp = c.subpixels_per_pixel
            o["subpixels_per_pixel"] = int(spp) if float(spp).is_integer() else float(spp)
            return o

        impl_sets, entries = [], []
        cfg = None
        for k, ps in enumerate(sets):
            arr_enc = None
            try:
                if k == 0:
                    cfg = SRRConfig(spotsize=case["spotsize"], speed=case["speed"], scantime=case["scantime"], warmup=case["warmup"],
                                    subpixel_offsets=give(ps))
                else:
                    cfg.subpixel_offsets = give(ps)  # the setter alone, on the same object
                o = obs(cfg)
                arr = cfg.to_array()
                arr_enc = enc_rec(arr)
                o["array"] = arr_enc if arr_enc is not None else {"not-encodable": str(arr.dtype)}
                o["roundtrip"] = obs(SRRConfig.from_array(arr))
            except Exception as ex:
                if cfg is None:
                    raise core.InternalError(f"SRRConfig could not be constructed: {ex!r}")
                o = {"raises": type(ex).__name__, "msg": str(ex)[:200]}
            impl_sets.append(o)
            rows = o.get("subpixel_offsets")
            entries.append({"pairs": ps, "observed": rows if isinstance(rows, list) else None, "array": arr_enc})
        cj = srr_cfg_json({**case, "pairs": sets[0]})
        rep = ctx.driver.call("c09.config", cfg=cj, sets=entries)
        if not rep["start"]["integer_mag"] or rep["start"]["mag"] != case["mag"]:
            raise core.InternalError("generator: the model's float64 magnification is not the intended integer")

        def view(j):
            return {"params": [j["spotsize"], j["speed"], j["scantime"]], "warmup": j["warmup_seconds"],
                    "magnification": j["magnification"], "subpixel_offsets": j["subpixel_offsets"], "subpixels_per_pixel": j["spp"]}

        def agrees(o, v):
            return isinstance(o, dict) and "raises" not in o and all(core.canon(o[k]) == core.canon(v[k]) for k in v)

        spec_ok = model_ok = True
        model_sets, spec_sets = [], []
        feats = {"cfg-only", "cfg-only:via-" + str(case.get("via", "list")), f"cfg-only:mag{rep['start']['mag']}"}
        if case.get("enumerated"):
            feats.add("cfg-only:enumerated")
        if len(sets) > 1:
            feats.add("cfg-only:setter-history")
        for ps, o, en, r in zip(sets, impl_sets, entries, rep["sets"]):
            if not r["hyp"]:
                raise core.InternalError("pairs_ok and the driver disagree on the hypothesis")
            mv = view(r["config"])
            rv = view(r["roundtrip_model"]) if "spotsize" in r["roundtrip_model"] else r["roundtrip_model"]
            # `SRRConfig.from_array` of the REAL array, read by the model's `fromRec`
            fv = None
            if en["array"] is not None:
                fa = r["from_arrays"][0]
                fv = view(fa) if "spotsize" in fa else fa
            model_sets.append({"state": mv, "array": r["array_model"], "roundtrip": rv, "from_real_array": fv})
            spec_sets.append({"offset_fractions": r["spec_fractions"], "offsets_exact": True, "roundtrip": "unchanged"})
            ok = "raises" not in o
            # specification: stored/size = offset/denominator exactly (offsets_setter_exact, evaluated by the driver on the reported
            # rows), and the configuration survives the round trip unchanged
            s_ok = (ok and r["observed_exact"] is True
                    and core.canon(o["roundtrip"]) == core.canon({k: v for k, v in o.items() if k not in ("array", "roundtrip")}))
            m_ok = (ok and agrees(o, mv) and isinstance(rv, dict) and "params" in rv and agrees(o["roundtrip"], rv)
                    and core.canon(o["array"]) == core.canon(r["array_model"])
                    and isinstance(fv, dict) and "params" in fv and agrees(o["roundtrip"], fv))
            o["offsets_exact"] = r["observed_exact"]
            spec_ok, model_ok = spec_ok and s_ok, model_ok and m_ok
            dens = [d for _, d in ps]
            feats |= {f"cfg-only:len{len(ps)}", "cfg-only:den>=10" if max(dens) >= 10 else "cfg-only:den<=9",
                      "cfg-only:first-zero" if ps[0][0] == 0 else "cfg-only:first-nonzero"}
            if max(dens) >= 20:
                feats.add("cfg-only:den>=20")
            if len(set(dens)) > 1:
                feats.add("cfg-only:mixed-denominators")
            if any(o_ >= d for o_, d in ps):
                feats.add("cfg-only:offset>=pixel")
            if r["config"]["size"] not in dens:
                feats.add("cfg-only:lcm-above-every-denominator")
            if r["config"]["spp"] != r["config"]["size"]:
                feats.add("cfg-only:spp!=size")
        # nothing in the specification of a config-only case depends on the warm-up in samples (offsets exact, round trip
        # unchanged); the model's float64 warm-up is compared exactly whatever the rounding
        undet = False
        return outcome({"sets": impl_sets}, {"sets": model_sets}, {"sets": spec_sets}, spec_ok=spec_ok, model_ok=model_ok,
                       undetermined=undet, features=feats)


    def shrink(self, case):
        if case.get("kind") == "cfg":
            sets = case["sets"]
            if len(sets) > 1:
                for k in range(len(sets)):
                    yield {**case, "sets": [sets[k]]}
                yield {**case, "sets": sets[:len(sets) // 2]}
                yield {**case, "sets": sets[len(sets) // 2:]}
                for k in range(len(sets)):
                    yield {**case, "sets": sets[:k] + sets[k + 1:]}
            for k, ps in enumerate(sets):
                if len(ps) > 1:
                    for j in range(len(ps)):
                        yield {**case, "sets": sets[:k] + [ps[:j] + ps[j + 1:]] + sets[k + 1:]}
                for j, (o, d) in enumerate(ps):
                    for o2, d2 in ((o - d, d), (o // 2, d), (o - 1, d)):
                        if 0 <= o2 < o:
                            yield {**case, "sets": sets[:k] + [ps[:j] + [[o2, d2]] + ps[j + 1:]] + sets[k + 1:]}
            if case["warmup"] != 0:
                yield {**case, "warmup": 0.0}
            if case.get("via") == "array":
                yield {**case, "via": "list"}
            return
        if case.get("kind") == "history":
            steps = case.get("steps", [])
            if len(steps) > 1:
                for k in range(len(steps)):
                    yield {**case, "steps": steps[:k] + steps[k + 1:]}
            if case.get("order", "std") != "std":
                yield {**case, "order": "std"}
            for k, stp in enumerate(steps):
                if stp["op"] == "edit" and stp["cells"] != "all" and len(stp["cells"]) > 1:
                    yield {**case, "steps": steps[:k] + [{**stp, "cells": stp["cells"][:1]}] + steps[k + 1:]}
                if stp.get("obs"):
                    yield {**case, "steps": steps[:k] + [{x: v for x, v in stp.items() if x != "obs"}] + steps[k + 1:]}
                if stp["op"] == "rename" and len(stp["map"]) > 1:
                    for q in range(len(stp["map"])):
                        yield {**case, "steps": steps[:k] + [{**stp, "map": stp["map"][:q] + stp["map"][q + 1:]}] + steps[k + 1:]}
                if stp["op"] == "remove" and len(stp["names"]) > 1:
                    for q in range(len(stp["names"])):
                        yield {**case, "steps": steps[:k] + [{**stp, "names": stp["names"][:q] + stp["names"][q + 1:]}] + steps[k + 1:]}
                if stp["op"] == "setdata":
                    for key in ("names", "dtype", "scale", "shapes", "n"):
                        if key in stp:
                            yield {**case, "steps": steps[:k] + [{x: v for x, v in stp.items() if x != key}] + steps[k + 1:]}
        if case.get("probes"):
            yield {k: v for k, v in case.items() if k != "probes"}
            if len(case["probes"]) > 1:
                for k in range(len(case["probes"])):
                    yield {**case, "probes": case["probes"][:k] + case["probes"][k + 1:]}
        if case.get("creads"):
            rds = case["creads"]
            if len(rds) > 1:
                for k in range(len(rds)):
                    yield {**case, "creads": rds[:k] + rds[k + 1:]}
            if case.get("creads_at", "first") != "first":
                yield {**case, "creads_at": "first"}
        elif "cal" in case and not any(stp["op"] == "cal" for stp in case.get("steps", [])):
            yield {x: v for x, v in case.items() if x not in ("cal", "creads", "creads_at")}
        for key in ("base", "scale", "dtype", "ctor", "dtypes", "layout", "extra"):
            if key in case:
                yield {x: v for x, v in case.items() if x != key}
        if case["n"] > 2:
            yield {**{k: v for k, v in case.items() if k != "extra"}, "n": case["n"] - 1,
                   **({"extra": case["extra"][:-1]} if case.get("extra") else {})}
        if case["nel"] > 1:
            yield {**case, "nel": 1, "element": 0}
        if len(case["pairs"]) > 1:
            yield {**case, "pairs": case["pairs"][:-1]}
            yield {**case, "pairs": case["pairs"][1:]}
        (l0, s0), (l1, s1) = case["shapes"]
        M = case["mag"]
        if l0 > 1 and s1 - M >= 1:
            yield {**case, "shapes": [[l0 - 1, s0], [l1, s1 - M]]}
        if l1 > 1 and s0 - M >= 1:
            yield {**case, "shapes": [[l0, s0 - M], [l1 - 1, s1]]}
        if case["warmup"] != 0 and case.get("short") != "neg":
            w = round(Fraction(case["warmup"]) / Fraction(case["scantime"]))
            if s0 - w >= 1 and s1 - w >= 1:
                yield {**case, "warmup": 0.0, "shapes": [[l0, s0 - w], [l1, s1 - w]], "wmode": "exact"}
        for p in case["pairs"]:
            if p[1] > 1:
                yield {**case, "pairs": [[0, 1] if q is p else q for q in case["pairs"]]}
                break


PROP = C09()

if __name__ == "__main__":
    sys.exit(core.main(PROP, "harness.c09"))
