"""C06 — calibration fits: pewlib.calibration.Calibration.from_points / .calibrate against
PewModel/Calib.lean (mechanism `updateLinreg`, `weights`, `calibrate`; specification: centred
weighted least squares `specGradient`/`specIntercept`, squared weighted correlation `specRsq`).

A fit case is a point set with NaN rows interleaved.  The Lean specification is evaluated on the
point set *without* its NaN rows; the implementation is run on that clean set, on the set as given
and on permutations of it, and every one of these fits must equal the specification (so: optimum,
r², permutation invariance and NaN-row invariance are all checked against the same oracle).

The same fit is also reached through *histories* on one object (the result of a fit depends only on the current
points and weighting): an object created with other custom weights (of the same / of another length), another
built-in weighting or other points, optionally switched built-in -> custom -> built-in, gets the case's points and
weighting through the public setters (points then weights, weights then points, or only the one that differs)
and is refitted with update_linreg().  Every history must equal the same specification value.

calibrate cases apply a line (given, fitted, the identity) to responses built on it; the line may lie at, one ulp beside
or anywhere within 1e-2 of the identity ("returns data unchanged" holds for the exact identity only:
`calibrate_unchanged_iff_identity`), on data from ordinary units down to trace levels.  Session cases run several
operations on ONE object (attributes assigned, refits incl. fewer than two usable rows, calibrate in between) against
`Pew.Calib.run` / `finalState` ("c06.session"): every calibrate call answers for the line held at that moment.
"""
import itertools
import math
import sys
import warnings
from fractions import Fraction

import numpy as np

from harness import core
from harness.core import Prop, outcome, orat, unrat

if hasattr(sys, "set_int_max_str_digits"):
    # exact sums over a long table with levels and responses decades apart have numerators of several thousand digits
    sys.set_int_max_str_digits(1_000_000)

BUILTIN = ["Equal", "x", "1/x", "1/(x^2)", "y", "1/y", "1/(y^2)"]
# labels of custom weight vectors: `weights=(label, vector)` uses the vector as given whatever the label says, unless the
# label IS one of the seven built-in names (then pewlib takes it for the built-in weighting and ignores the vector: not a
# custom weighting, never generated as one)
CUSTOM_LABELS = [
    "Custom", "custom", "w", "None",
    "1/sqrt(y)", "poly", "by variance", "1/y^2", "1/(y^2) ", "yy", "1/y ", " y", "1/(y^3)", "std(y)^-2",      # contain 'y'
    "1/sqrt(x)", "x^2", "1/x^2", " 1/x", "max", "1/(x^2)/2", "x ",                                          # contain 'x'
    "xy", "1/(x^2)+1/(y^2)", "1/xy",                                                                        # both
    "equal", "EQUAL", "X", "Y", "1/X", "1/(X^2)", "1/Y", "1/(Y^2)", "Equal ",                               # case / blank variants
    "", " ", "1/\u03c3\u00b2", "\u91cd\u307f", "poids-y\u00b7\u00e9", "variance weights from replicate standards (y)",  # empty, non-ASCII, > 32 chars
]
assert not any(lab in BUILTIN for lab in CUSTOM_LABELS)


def label_features(lab):
    f = set()
    if "y" in lab:
        f.add("custom-label:contains-y")
    if "x" in lab:
        f.add("custom-label:contains-x")
    if any(b in lab for b in BUILTIN if len(b) > 1):
        f.add("custom-label:builtin-name-as-substring")
    if lab.strip() not in BUILTIN and any(lab.strip().lower() == b.lower() for b in BUILTIN):
        f.add("custom-label:case-variant-of-builtin")
    if lab.strip() in BUILTIN:
        f.add("custom-label:builtin-name-with-blanks")
    if lab.strip() == "":
        f.add("custom-label:empty-or-blank")
    if any(ord(ch) > 127 for ch in lab):
        f.add("custom-label:non-ascii")
    if len(lab) > 32:
        f.add("custom-label:longer-than-32")
    return f or {"custom-label:plain"}
TOL = 1e-9          # relative tolerance on gradient/intercept (in the column-scaled norm) and r²
RHO_MIN = 1e-18     # conditioning guard: D/(Sw*Swxx) below this => undetermined (above it the perturbation bound decides)
COV_MARGIN_MIN = 1e-12  # 1 - Σw²/(Σw)² below this => r² not compared (np.cov's normalisation cancels)
LADDERS = [
    [0, 1, 2, 5, 10], [0, 0.1, 0.5, 1, 5, 10, 50], [0, 10, 20, 50, 100, 200, 500],
    [0, 0.5, 1, 2, 4, 8], [0, 1, 10, 100, 1000], [0, 0.05, 0.1, 0.2, 0.5, 1.0], [0, 25, 50, 75, 100],
    [0, 0.001, 0.01, 0.1, 1, 10, 100, 1000],
]

# scales of a level ladder: ordinary units down to trace levels (mol/L ladders of 1e-9 .. 1e-12)
TRACE_SCALES = [1.0, 1.0, 1e-3, 1e-6, 1e-9, 1e-12, 1e3]
NEAR_BINS = [(0.0, "0"), (1e-12, "<=1e-12"), (1e-9, "<=1e-9"), (1e-6, "<=1e-6"), (1e-3, "<=1e-3")]


def near_one(rng):
    """a gradient at 1, one or a few ulps beside it, or 1e-15 .. 1e-2 away from it (either side)"""
    r = rng.random()
    if r < 0.18:
        return 1.0
    if r < 0.36:
        return rng.choice([1.0 + 2.0 ** -52, 1.0 - 2.0 ** -53, 1.0 + 2.0 ** -50, 1.0 - 2.0 ** -51])
    return 1.0 + rng.choice([-1.0, 1.0]) * 10.0 ** rng.uniform(-15, -2)


def near_zero(rng, scale):
    """an intercept at 0, at the bottom of the float range, small against the data scale, or small absolutely"""
    r = rng.random()
    if r < 0.18:
        return 0.0
    s = rng.choice([-1.0, 1.0, 1.0])
    if r < 0.3:
        return s * rng.choice([5e-324, 2.2250738585072014e-308, 1e-300, 1e-100, 1e-30])
    if r < 0.6:
        return s * scale * 10.0 ** rng.uniform(-12, -1)
    return s * 10.0 ** rng.uniform(-20, -3)


def near_bin(d):
    d = abs(d)
    for lim, name in NEAR_BINS:
        if d <= lim:
            return name
    return ">1e-3"


def line_class(g, c):
    """how close a line is to the identity (for the feature counts only)"""
    if g == 1.0 and c == 0.0:
        return "identity"
    return "near-identity" if abs(g - 1.0) <= 1e-3 and abs(c) <= 1e-3 else "line"


def gen_conc(rng, size, scale=1.0):
    """data for calibrate: NaN, 0, round levels and log-uniform values, in units of `scale`"""
    conc = []
    for _ in range(size):
        r = rng.random()
        conc.append(None if r < 0.1 else 0.0 if r < 0.2 else float(rng.choice([1, 2, 5, 10, 100])) * scale
                    if r < 0.4 else 10.0 ** rng.uniform(-4, 5) * scale)
    return conc


def fnum(v):
    return None if v is None or (isinstance(v, float) and math.isnan(v)) else float(v)


def nan(v):
    return math.nan if v is None else float(v)


def is_nan_row(r):
    return r[0] is None or r[1] is None


TABLE_FORMS = ["list", "tuple", "int-list", "f4", ">f8", "fortran", "strided", "reversed", "readonly"]
TABLE_INT_FORMS = ["|i1", "|u1"] + [o + b for b in ("i2", "i4", "i8", "u2", "u4", "u8") for o in "<>"]


def table_as(rows, cw, form):
    """the same points table (and custom weight vector) as another kind of object `from_points` accepts: nested lists /
    tuples of Python numbers, integer arrays of any width and byte order (tables of levels and raw counts), binary32,
    big-endian, Fortran-ordered, strided, reversed, read-only arrays.  None when the values do not fit the form exactly
    (the variant is then skipped): decided here, for any case a shrinker derives."""
    cells = [v for r in rows for v in r]
    wvals = [] if cw is None else list(cw)
    integral = lambda vs: all(v is not None and float(v) == int(float(v)) and abs(float(v)) < 2.0 ** 63 for v in vs)
    pts64 = np.array([[nan(x), nan(y)] for x, y in rows], dtype=np.float64).reshape(-1, 2)
    w64 = None if cw is None else np.array([nan(w) for w in cw], dtype=np.float64)
    if form == "list":
        if not rows:  # an empty list is not a table of shape (n, 2)
            return None
        return [[nan(x), nan(y)] for x, y in rows], None if cw is None else [nan(w) for w in cw]
    if form == "tuple":
        if not rows:
            return None
        return tuple((nan(x), nan(y)) for x, y in rows), None if cw is None else tuple(nan(w) for w in cw)
    pyint = lambda v: math.nan if v is None else (int(v) if float(v) == int(float(v)) and abs(float(v)) < 2.0 ** 63 else float(v))
    if form == "int-list":
        if not rows or not any(isinstance(pyint(v), int) for v in cells):
            return None
        return [[pyint(x), pyint(y)] for x, y in rows], None if cw is None else [pyint(w) for w in cw]
    if form == "f4":
        f = pts64.astype(np.float32)
        if not rows or not np.array_equal(f.astype(np.float64), pts64, equal_nan=True):
            return None
        return f, w64
    if form == ">f8":
        return pts64.astype(">f8"), None if w64 is None else w64.astype(">f8")
    if form == "fortran":
        return np.asfortranarray(pts64), w64
    if form == "strided":
        wide = np.full((len(rows), 5), 7.0)
        wide[:, 1::2] = pts64
        ww = None
        if w64 is not None:
            ww = np.full(2 * len(w64) + 1, 7.0)
            ww[1::2] = w64
            ww = ww[1::2]
        return wide[:, 1::2], ww
    if form == "reversed":
        return pts64[::-1].copy()[::-1], None if w64 is None else w64[::-1].copy()[::-1]
    if form == "readonly":
        a = pts64.copy()
        a.flags.writeable = False
        return a, w64
    dt = parse_dtype(form)
    if dt is not None and dt.kind in "iu":
        info = np.iinfo(dt)
        if not rows or not integral(cells) or not all(info.min <= int(float(v)) <= info.max for v in cells):
            return None
        t = np.array([[int(float(x)), int(float(y))] for x, y in rows], dtype=dt).reshape(-1, 2)
        if cw is not None and integral(wvals) and all(info.min <= int(float(v)) <= info.max for v in wvals):
            return t, np.array([int(float(v)) for v in wvals], dtype=dt)
        return t, w64
    return None


CALL_FORMS = ["keywords", "unit-keyword", "positional", "constructor-then-update"]


def run_fit(rows, weighting, cw, prior=False, table=None, call="keywords"):
    """real pewlib on one variant; observation points: gradient, intercept, rsq, error, weights.
    prior=True: the same fit reached through a history - an object that already holds a (non-identity) line and fit
    statistics gets these points and weights assigned and is refitted with update_linreg().
    table: (points object, weights object) from `table_as` instead of the binary64 arrays."""
    from pewlib.calibration import Calibration

    pts = np.array([[nan(x), nan(y)] for x, y in rows], dtype=np.float64).reshape(-1, 2)
    wts = weighting if cw is None else (weighting, np.array([nan(w) for w in cw], dtype=np.float64))
    if table is not None:
        pts = table[0]
        wts = weighting if cw is None else (weighting, table[1])
    with warnings.catch_warnings():
        warnings.simplefilter("ignore")
        with np.errstate(all="ignore"):
            try:
                if prior:
                    cal = Calibration(intercept=3.25, gradient=7.5, rsq=0.5, error=2.0,
                                      points=np.array([[1.0, 2.0], [2.0, 5.0], [4.0, 7.0]]), weights="Equal")
                    cal.points = pts
                    cal.weights = wts
                    cal.update_linreg()
                elif call == "unit-keyword":
                    cal = Calibration.from_points(pts, unit="ppm", weights=wts)
                elif call == "positional":
                    cal = Calibration.from_points(pts, "ng/g", wts)
                elif call == "constructor-then-update":
                    cal = Calibration(points=pts, weights=wts, unit="ppb")
                    cal.update_linreg()
                else:
                    cal = Calibration.from_points(pts, weights=wts)
                return observe(cal)
            except Exception as e:
                return {"raises": type(e).__name__, "msg": str(e)[:200]}


def observe(cal):
    return {
        "gradient": fnum(cal.gradient) if cal.gradient is not None else None,
        "gradient_nan": isinstance(cal.gradient, float) and math.isnan(cal.gradient),
        "intercept": fnum(cal.intercept),
        "rsq": None if cal.rsq is None else ("nan" if math.isnan(cal.rsq) else float(cal.rsq)),
        "error": None if cal.error is None else ("nan" if math.isnan(cal.error) else float(cal.error)),
        "weights": [fnum(w) for w in np.asarray(cal.weights, dtype=np.float64).ravel()],
    }


def np_points(rows):
    return np.array([[nan(x), nan(y)] for x, y in rows], dtype=np.float64).reshape(-1, 2)


def np_weights(weighting, cw):
    return weighting if cw is None else (weighting, np.array([nan(w) for w in cw], dtype=np.float64))


# ---------------------------------------------------------------------------------------------- histories
# A history is {"ops": [op, ...], "final": "<letters>"}.  ops (the prefix, NOT judged):
#   {"op": "new", "rows": rows | "case", "weighting": str | "case", "cw": list | None, "fit": bool}
#        fit=True: Calibration.from_points, fit=False: the constructor with a stored line and statistics
#   {"op": "points", "rows": rows | "case"}         cal.points = ...
#   {"op": "weights", "weighting": str | "case", "cw": list | None}    cal.weights = ...
#   {"op": "fit"}                                   cal.update_linreg()
#   {"op": "roundtrip", "pad": k | None}            cal = Calibration.from_array(cal.to_array(size = n + k | None))
# "case" stands for the case's own rows / its weighting together with its custom vector.  final (judged): the case's
# points and weighting are brought onto the object, one letter per step, then update_linreg() is called:
#   p  cal.points = <case points>                 P  cal.points[...] = <case points>   (edited in place, same length)
#   w  cal.weights = <case weighting / vector>    W  cal.weights[...] = <case vector>  (custom vector edited in place)
#   N  cal.weighting = <case weighting>           (the public attribute assigned directly; built-in names only)
#   f  cal.update_linreg()                        (an extra refit in between, or twice at the end)
#   g i r e u   the RESULT attributes assigned by the caller (plain public attributes): cal.gradient / .intercept / .rsq /
#      .error / .unit = h["vals"][letter] (a manual value tried out, a reset to 1 / 0 / None); they do not change what
#      the object is fitted from - the update_linreg() that follows recomputes everything from the points
# A history is legal for a case when every step is a legal use of the public interface at the time it is taken and the
# object holds the case's points and weighting at the end.
FINAL_LETTERS = "pwPWNfgireu"
RESULT_ATTRS = {"g": "gradient", "i": "intercept", "r": "rsq", "e": "error", "u": "unit"}
RESULT_DEFAULTS = {"g": 2.0, "i": 5.0, "r": 0.25, "e": 3.0, "u": "ppb"}


def result_value(h, ch):
    """the value a history assigns to a result attribute (a finite number, None for rsq / error, a string for unit)"""
    v = (h.get("vals") or {}).get(ch, RESULT_DEFAULTS[ch]) if isinstance(h, dict) else RESULT_DEFAULTS[ch]
    if ch == "u":
        return v if isinstance(v, str) else RESULT_DEFAULTS[ch]
    if v is None and ch in "re":
        return None
    if isinstance(v, bool) or not isinstance(v, (int, float)) or not math.isfinite(v):
        return RESULT_DEFAULTS[ch]
    return float(v)


class _HState:
    """what a Calibration object holds, as far as the legality of the next step depends on it"""

    def __init__(self):
        self.rows = self.w = self.cw = None

    def set_points(self, r):
        if any(len(x) != 2 for x in r):
            return False
        self.rows = r
        return True

    def set_weights(self, w, c):
        if c is None and w not in BUILTIN:
            return False
        if c is not None and (len(c) != len(self.rows) or w in BUILTIN):
            return False
        self.w, self.cw = w, c
        return True

    def can_fit(self):
        return self.w in BUILTIN or (self.cw is not None and len(self.cw) == len(self.rows))

    def holds(self, rows, weighting, cw):
        return self.rows == rows and self.w == weighting and (weighting in BUILTIN or self.cw == cw)


def resolve_history(h, rows, weighting, cw):
    """-> (resolved ops, final) or None when the history is not a legal use of the public interface for THIS case
    (custom vector of another length than the points at the time it is assigned or used, an in-place edit of a table of
    another length, an ending that does not leave the case's points and weighting on the object, malformed).  Decided
    here, for any case a shrinker derives."""
    try:
        final = h["final"]
        if not isinstance(final, str) or len(final) > 8 or any(ch not in FINAL_LETTERS for ch in final):
            return None
        if not h["ops"] or h["ops"][0]["op"] != "new":
            return None
        st = _HState()
        out = []
        for k, op in enumerate(h["ops"]):
            kind = op["op"]
            if kind == "new" and k > 0:
                return None
            if kind in ("new", "points"):
                if not st.set_points(rows if op["rows"] == "case" else op["rows"]):
                    return None
            if kind in ("new", "weights"):
                w, c = (weighting, cw) if op["weighting"] == "case" else (op["weighting"], op["cw"])
                if not st.set_weights(w, c):
                    return None
            if kind == "new":
                out.append(("new", st.rows, st.w, st.cw, bool(op["fit"])))
            elif kind == "points":
                out.append(("points", st.rows))
            elif kind == "weights":
                out.append(("weights", st.w, st.cw))
            elif kind == "fit":
                if not st.can_fit():
                    return None
                out.append(("fit",))
            elif kind == "roundtrip":
                pad = op["pad"]
                # rows that are NaN in both cells may be dropped by from_array (with their weights): not produced here
                if not st.can_fit() or any(r[0] is None and r[1] is None for r in st.rows) or \
                        not (pad is None or (isinstance(pad, int) and 0 <= pad <= 8)):
                    return None
                if st.w in BUILTIN:
                    st.cw = None  # from_array hands a built-in weighting over by its name
                out.append(("roundtrip", pad))
            else:
                return None
        for ch in final:
            if ch == "p":
                st.set_points(rows)
            elif ch == "P":
                if len(st.rows) != len(rows):
                    return None
                st.rows = rows
            elif ch == "w":
                if not st.set_weights(weighting, cw):
                    return None
            elif ch == "W":
                if cw is None or st.w != weighting or st.w in BUILTIN or st.cw is None or len(st.cw) != len(cw):
                    return None
                st.cw = cw
            elif ch == "N":
                if weighting not in BUILTIN:
                    return None
                st.w = weighting
            elif ch in RESULT_ATTRS:
                pass  # a result attribute: nothing the fit is computed from changes
            elif not st.can_fit():  # "f"
                return None
        if not st.holds(rows, weighting, cw) or not st.can_fit():
            return None
        return out, (final, {ch: result_value(h, ch) for ch in final if ch in RESULT_ATTRS})
    except (KeyError, TypeError, IndexError):
        return None


def history_features(ops, final, rows, weighting, cw):
    final, vals = final if isinstance(final, tuple) else (final, {})
    final_all = final
    final = "".join(ch for ch in final if ch not in RESULT_ATTRS) if any(ch in RESULT_ATTRS for ch in final) else final
    names = {"pw": "points-then-weights", "wp": "weights-then-points", "p": "points-only", "w": "weights-only", "": "nothing"}
    f = {"hist-final:" + names.get(final, final)}
    if "P" in final:
        f.add("hist:points-edited-in-place")
    if "W" in final:
        f.add("hist:custom-weights-edited-in-place")
    if "N" in final:
        f.add("hist:weighting-attribute-assigned")
    if "f" in final:
        f.add("hist:extra-refit")
    res = [ch for ch in final_all if ch in RESULT_ATTRS]
    if res:
        f.add("hist:result-attributes-assigned-before-refit")
        f |= {"hist:result-assigned:" + RESULT_ATTRS[ch] for ch in res}
        f.add("hist:result-assigned:" + ("one" if len(res) == 1 else "several"))
        rest = final
        f.add("hist:result-assigned-then:" + {"": "update_linreg", "p": "points-of-equal-content", "w": "weights-of-equal-content",
                                              "f": "update_linreg-twice"}.get(rest, rest))
    if any(o[0] == "roundtrip" for o in ops):
        f.add("hist:to_array/from_array-round-trip" + ("(padded)" if any(o[0] == "roundtrip" and o[1] for o in ops) else ""))
    new = ops[0]
    if new[3] is not None:
        same = len(new[3]) == len(rows)
        f.add("hist:prior-custom-same-length" if same else "hist:prior-custom-other-length")
        if same and cw is None:
            f.add("hist:prior-custom-same-length->builtin")
    elif new[2] != weighting:
        f.add("hist:prior-other-builtin")
    if new[1] != rows:
        f.add("hist:prior-other-points")
    f.add("hist:prior-fitted" if new[4] else "hist:prior-constructed")
    seq = [new[3] is not None] + [o[2] is not None for o in ops[1:] if o[0] == "weights"]
    if "w" in final or "W" in final:
        seq.append(cw is not None)
    seq = [k for k, _ in itertools.groupby(seq)]
    for i in range(len(seq) - 2):
        if seq[i:i + 3] == [False, True, False]:
            f.add("hist:builtin->custom->builtin")
        if seq[i:i + 3] == [True, False, True]:
            f.add("hist:custom->builtin->custom")
    return f


def run_history(ops, final, rows, weighting, cw):
    """real pewlib: the prefix builds the object (an exception there -> None: the prefix is not what is judged),
    then the case's points/weighting are assigned and the object is refitted; observed like run_fit."""
    from pewlib.calibration import Calibration

    with warnings.catch_warnings():
        warnings.simplefilter("ignore")
        with np.errstate(all="ignore"):
            try:
                cal = None
                for op in ops:
                    if op[0] == "new":
                        if op[4]:
                            cal = Calibration.from_points(np_points(op[1]), weights=np_weights(op[2], op[3]))
                        else:
                            cal = Calibration(intercept=3.25, gradient=7.5, rsq=0.5, error=2.0,
                                              points=np_points(op[1]), weights=np_weights(op[2], op[3]))
                    elif op[0] == "points":
                        cal.points = np_points(op[1])
                    elif op[0] == "weights":
                        cal.weights = np_weights(op[1], op[2])
                    elif op[0] == "roundtrip":
                        n = cal.points.shape[0]
                        cal = Calibration.from_array(cal.to_array(None if op[1] is None else n + op[1]))
                    else:
                        cal.update_linreg()
            except Exception:
                return None
            try:
                final, vals = final if isinstance(final, tuple) else (final, {})
                for step in final:
                    if step in RESULT_ATTRS:
                        setattr(cal, RESULT_ATTRS[step], vals.get(step, RESULT_DEFAULTS[step]))
                    elif step == "p":
                        cal.points = np_points(rows)
                    elif step == "P":
                        cal.points[...] = np_points(rows)
                    elif step == "w":
                        cal.weights = np_weights(weighting, cw)
                    elif step == "W":
                        cal.weights[...] = np.array([nan(v) for v in cw], dtype=np.float64)
                    elif step == "N":
                        cal.weighting = weighting
                    else:
                        cal.update_linreg()
                if any(op[0] == "roundtrip" for op in ops):
                    # to_array / from_array are not what is judged: go on only if the object that came back holds the
                    # case's tables
                    if cal.weighting != weighting or not np.array_equal(cal.points, np_points(rows), equal_nan=True) or \
                            (cw is not None and not np.array_equal(cal.weights, np_weights(weighting, cw)[1], equal_nan=True)):
                        return None
                cal.update_linreg()
                return observe(cal)
            except Exception as e:
                return {"raises": type(e).__name__, "msg": str(e)[:200]}


def drop_row(h, i, n):
    """shrinking: the history for the case without row i (vectors and point sets of the case's length lose entry i;
    whether the result is still legal is decided by resolve_history)"""
    ops = []
    for op in h["ops"]:
        op = dict(op)
        if isinstance(op.get("rows"), list) and len(op["rows"]) == n:
            op["rows"] = op["rows"][:i] + op["rows"][i + 1:]
        if isinstance(op.get("cw"), list) and len(op["cw"]) == n:
            op["cw"] = op["cw"][:i] + op["cw"][i + 1:]
        ops.append(op)
    return {**h, "ops": ops}


def prior_rows(rng, m):
    """m ordinary calibration points (distinct levels where the ladder has enough, positive responses)"""
    ladder = rng.choice(LADDERS)
    scale = 10.0 ** rng.choice([0, 0, -2, -1, 1, 2])
    xs = sorted(rng.sample(ladder, m)) if m <= len(ladder) else [rng.choice(ladder) for _ in range(m)]
    g = 10.0 ** rng.uniform(-1, 4)
    c = rng.choice([0.0, 10.0 ** rng.uniform(-1, 3)])
    out = [[float(x) * scale, abs((g * x * scale + c) * (1 + rng.gauss(0, 0.05))) + 10.0 ** rng.uniform(-3, 0)] for x in xs]
    if m >= 3 and rng.random() < 0.2:
        out[rng.randrange(m)][rng.choice([0, 1])] = None
    if rng.random() < 0.3:
        rng.shuffle(out)
    return out


def prior_cw(rng, m):
    return [10.0 ** rng.uniform(-3, 3) if rng.random() < 0.8 else float(rng.choice([1, 2, 5])) for _ in range(m)]


def make_histories(rng, rows, weighting, cw):
    """every history class for one fit case (each class on every case; values and the variable choices random)"""
    n = len(rows)
    new = lambda r, w, c=None, fit=None: {"op": "new", "rows": r, "weighting": w, "cw": c,
                                          "fit": (rng.random() < 0.8) if fit is None else fit}
    other_b = lambda: rng.choice([b for b in BUILTIN if b != weighting])
    other_n = lambda: rng.choice([k for k in (n + 1, n + 2, n - 1, 3, 2, 5) if k >= 0 and k != n])
    hs = []
    lab = weighting if cw is not None else rng.choice(CUSTOM_LABELS)   # the same label with another vector for a custom case
    olab = lambda: rng.choice(CUSTOM_LABELS)
    # (a) custom weights of the same length as the case's points: on the case's points (then only the weights are
    #     assigned, or both) and on other points of that length
    hs.append({"ops": [new("case", lab, prior_cw(rng, n))], "final": rng.choice(["w", "w", "pw", "wp"])})
    hs.append({"ops": [new(prior_rows(rng, n), olab(), prior_cw(rng, n))], "final": "pw"})
    hs.append({"ops": [new(prior_rows(rng, n), olab(), prior_cw(rng, n))], "final": "wp"})
    # (b) custom weights of another length
    m = other_n()
    hs.append({"ops": [new(prior_rows(rng, m), olab(), prior_cw(rng, m))], "final": "pw"})
    if cw is None:
        m = other_n()
        hs.append({"ops": [new(prior_rows(rng, m), olab(), prior_cw(rng, m))], "final": "wp"})
    # (c) another built-in weighting
    hs.append({"ops": [new("case", other_b())], "final": rng.choice(["w", "w", "pw", "wp"])})
    hs.append({"ops": [new(prior_rows(rng, rng.choice([n, other_n()])), other_b())], "final": "pw"})
    if cw is None:
        hs.append({"ops": [new(prior_rows(rng, rng.choice([n, other_n()])), other_b())], "final": "wp"})
    else:
        hs.append({"ops": [new(prior_rows(rng, n), other_b())], "final": "wp"})
    # (d) other points under the case's own weighting
    m = n if cw is not None else rng.choice([n, other_n()])
    pr = prior_rows(rng, m)
    if cw is not None:  # a NaN weight of the case's vector stays on a row that is set aside
        pr = [[r[0], None] if cw[i] is None else r for i, r in enumerate(pr)]
    hs.append({"ops": [new(pr, "case")], "final": rng.choice(["p", "p", "pw", "wp"])})
    # built-in -> custom -> built-in on one object (for a custom case the chain is continued to the case's vector)
    ops = [new(rng.choice(["case", prior_rows(rng, n)]), rng.choice(BUILTIN)),
           {"op": "weights", "weighting": olab(), "cw": prior_cw(rng, n)}]
    if rng.random() < 0.7:
        ops.append({"op": "fit"})
    if cw is not None or rng.random() < 0.3:
        ops.append({"op": "weights", "weighting": rng.choice(BUILTIN), "cw": None})
        if rng.random() < 0.5:
            ops.append({"op": "fit"})
    hs.append({"ops": ops, "final": rng.choice((["w"] if ops[0]["rows"] == "case" else []) + ["pw", "wp"])})
    # (e) the points table edited in place (cal.points[...] = ...): other points of the same length under the case's
    #     weighting, or under another one (then the weighting is assigned before or after the edit)
    pr = prior_rows(rng, n)
    if cw is not None:
        pr = [[r[0], None] if cw[i] is None else r for i, r in enumerate(pr)]
    hs.append({"ops": [new(pr, "case")], "final": rng.choice(["P", "P", "Pf"])})
    hs.append({"ops": [new(prior_rows(rng, n), other_b())], "final": rng.choice(["Pw", "wP"] if cw is None else ["Pw"])})
    if cw is not None:
        # (f) the custom vector edited in place under the same name
        hs.append({"ops": [new("case", weighting, prior_cw(rng, n))], "final": rng.choice(["W", "W", "fW"])})
    else:
        # (g) the public attribute `weighting` assigned directly, after another built-in and after a custom vector
        hs.append({"ops": [new("case", other_b())], "final": rng.choice(["N", "fN", "pN", "Np"])})
        hs.append({"ops": [new("case", olab(), prior_cw(rng, n))], "final": rng.choice(["N", "fN"])})
    # (h) an extra refit between the two assignments (legal when the object is consistent in between) / twice at the end
    hs.append({"ops": [new(prior_rows(rng, rng.choice([n, other_n()])), other_b())], "final": rng.choice(["pfw", "pwf", "wfp"] if cw is None else ["pfw", "pwf"])})
    # (i) an object that came back from to_array / from_array (as stored in a laser file): refitted as it is, and given
    #     the case's points and weighting
    hs.append({"ops": [new("case", "case", cw, fit=rng.random() < 0.7), {"op": "roundtrip", "pad": rng.choice([None, 0, 1, 3])}], "final": ""})
    hs.append({"ops": [new(prior_rows(rng, rng.choice([n, other_n()])), rng.choice(BUILTIN)),
                       {"op": "roundtrip", "pad": rng.choice([None, 2])}], "final": rng.choice(["pw", "wp"] if cw is None else ["pw"])})
    # (j) the RESULT attributes assigned by the caller between two fits of the same points and weighting (a manual value
    #     tried out, a reset to 1 / 0 / None, another unit): one of them, several, all; followed by update_linreg() alone, by
    #     the points / the weights re-assigned with equal content, or by two refits - the refit recomputes everything
    def vals():
        return {"g": rng.choice([1.0, 2.0, -0.5, 10.0 ** rng.uniform(-3, 6)]), "i": rng.choice([0.0, 5.0, -10.0 ** rng.uniform(-2, 4)]),
                "r": rng.choice([None, 0.25, 1.0, 0.0]), "e": rng.choice([None, 0.0, 3.0]), "u": rng.choice(["", "ppb", "ng/g"])}
    one = rng.choice("gir")
    hs.append({"ops": [new("case", "case", cw, fit=True)], "final": one, "vals": vals()})
    hs.append({"ops": [new("case", "case", cw, fit=True)], "final": rng.choice(["gi", "ig", "gir", "gire", "ireu", "giu"]), "vals": vals()})
    hs.append({"ops": [new("case", "case", cw, fit=True)], "final": rng.choice(["e", "u", "re", "g", "i"]) + rng.choice(["p", "w", "f"]),
               "vals": vals()})
    # ... on an object that reached the case's tables through the setters and was fitted there
    hs.append({"ops": [new(prior_rows(rng, rng.choice([n, other_n()])), other_b()), {"op": "points", "rows": "case"},
                       {"op": "weights", "weighting": "case", "cw": None}, {"op": "fit"}],
               "final": rng.choice(["gi", "g", "i", "gr"]), "vals": vals()})
    return hs


def drv_fit(ctx, rows, weighting, cw):
    rep = _drv_fit(ctx, rows, weighting, cw)
    if not rep["mech_pts_are_spec_pts"]:
        raise core.InternalError("driver: the mechanism's points and weights differ from the specified ones (contradicts fitPts_eq_specPts / NanInsert.usable_eq)")
    return rep


def _drv_fit(ctx, rows, weighting, cw):
    return ctx.driver.call(
        "c06.fit", weighting=weighting, custom=cw is not None,
        rows=[[orat(nan(x)), orat(nan(y)), None if cw is None else orat(nan(cw[i]))] for i, (x, y) in enumerate(rows)])


def qf(j):
    q = unrat(j)
    return None if q is None else float(q)


def fit_view(rep, which):
    f = rep[which]
    rsq = f["rsq"]
    out = {"gradient": qf(f["gradient"]), "intercept": qf(f["intercept"]),
           "rsq": rsq if rsq in (None, "nan") else qf(rsq)}
    e2 = f.get("err2")
    out["error"] = None if e2 is None else math.sqrt(max(qf(e2), 0.0))
    out["weights"] = [qf(w) for w in rep["weights" if which == "model" else "spec_weights"]]
    return out


def weights_finite_where_finite(rows, weighting, got_w):
    """the property's clause on the observed `weights` attribute: every finite entry of the column the weights are
    derived from (x, or y for the y-based weightings) has a finite weight - zeros included"""
    col = 1 if "y" in weighting else 0
    if len(got_w) != len(rows):
        return False
    for r, w in zip(rows, got_w):
        if r[col] is not None and (w is None or not math.isfinite(w)):
            return False
    return True


def weights_equal(impl_w, model_w):
    if len(impl_w) != len(model_w):
        return False
    for a, b in zip(impl_w, model_w):
        if (a is None) != (b is None):
            return False
        if a is not None and not core.close(a, b, rel=1e-15):
            return False
    return True


def lsq_tolerance(rows, weights, g, c, rho):
    """first-order perturbation bound of the weighted least-squares solution computed in floating point
    (Wedin): relative error <~ eps * (kappa + kappa^2 * tan(theta)), kappa^2 <= 4/rho for the column-scaled
    2-column design matrix (rho = D/(Sw*Swxx)), tan(theta) = |residual| / |fitted| in the weighted norm.  A fit
    through one dominant weight with a large residual on the light points is legitimately less accurate than TOL."""
    if rho <= 0:
        return float("inf")
    rss = sum(w * (y - (g * x + c)) ** 2 for (x, y), w in zip(rows, weights))
    fss = sum(w * (g * x + c) ** 2 for (x, y), w in zip(rows, weights))
    kappa2 = 4.0 / rho
    tan = math.sqrt(rss / fss) if fss > 0 else float("inf")
    return TOL + 32 * 2.0 ** -52 * (math.sqrt(kappa2) + kappa2 * tan)


def fit_close(got, want, rep, check_rsq=True, TOL=TOL):
    """gradient/intercept within TOL in the column-scaled norm of the design matrix, r² within TOL"""
    if "raises" in got or got["gradient"] is None or got["intercept"] is None:
        return False
    g, c = want["gradient"], want["intercept"]
    xr = math.sqrt(float(unrat(rep["xr2"])))
    if xr == 0.0:
        return False
    if abs(got["gradient"] - g) > TOL * max(abs(g), abs(c) / xr):
        return False
    if abs(got["intercept"] - c) > TOL * max(abs(c), abs(g) * xr):
        return False
    if check_rsq:
        if not isinstance(got["rsq"], float) or not isinstance(want["rsq"], float):
            return False
        if abs(got["rsq"] - want["rsq"]) > TOL * want["rsq"] + 1e-10:
            return False
        if not (0.0 <= got["rsq"] <= 1.0):
            return False
    return True


def is_identity(got):
    return ("raises" not in got and got["gradient"] == 1.0 and got["intercept"] == 0.0
            and got["rsq"] is None and got["error"] is None)


def judge_calibrate(impl, model, spec, shape, resp, g, c):
    """the array returned by calibrate for the responses `resp` = fl(g*x + c) against the mechanism's value on those
    responses and against the concentrations x; an identity calibration: unchanged means bit for bit"""
    eps = 2.0 ** -52
    tiny = 2.0 ** -1074  # one rounding in the subnormal range (an exactly cancelling difference divided by g)
    shape_ok = impl["shape"] == list(shape)

    def cmp(want, tolf):
        if len(want) != len(impl["data"]):
            return False
        for a, b, x in zip(impl["data"], want, spec["data"]):
            if (a is None) != (b is None):
                return False
            if a is not None and abs(a - b) > tolf(b, x):
                return False
        return True

    if g == 1.0 and c == 0.0:
        ok = shape_ok and [core.tok(nan(v)) for v in impl["data"]] == [core.tok(float(v)) for v in resp.ravel()]
        return ok, ok
    m_ok = shape_ok and cmp(model["data"], lambda b, x: 4 * eps * abs(b) + tiny)
    # resp = fl(g*x + c) carries up to 2 roundings relative to |g x| + |c|
    s_ok = shape_ok and cmp(spec["data"], lambda b, x: 8 * eps * (abs(x) + abs(c / g)) + tiny)
    return m_ok, s_ok


# ---------------------------------------------------------------------------------------------- data arrays of any dtype
# `calibrate` is handed whatever array an image comes in: raw detector counts (signed / unsigned integers of every
# width), binary32 and binary64, either byte order, any number of dimensions, any memory layout.  A data case gives the
# array's elements directly ("data": integers for the integer dtypes, floats / None = NaN for the float dtypes); every
# element lies on the line at exactly one concentration, (r - c) / g (`calibrate_eq_iff_on_line`), which the driver
# computes over Rat from the exact value the dtype holds ("c06.calibrate_data").
INT_DTYPES = ["i1", "i2", "i4", "i8", "u1", "u2", "u4", "u8"]
DATA_DTYPES = INT_DTYPES + ["f4", "f8"]
LAYOUTS = ["c", "f", "strided", "reversed", "transposed", "field", "readonly", "offset", "scalar", "pyscalar"]
F4_MAX = 1e30   # binary32 arithmetic is judged only where nothing can overflow: |g|, |c|, |r|, |x| <= 1e30, |g| >= 1e-30


def parse_dtype(name):
    """'<i4', '>f8', 'u1' ... -> np.dtype, or None for anything that is not one of the image dtypes"""
    if not isinstance(name, str) or len(name) < 2:
        return None
    order, base = (name[0], name[1:]) if name[0] in "<>=|" else ("=", name)
    if base not in DATA_DTYPES:
        return None
    return np.dtype(base).newbyteorder(order if order in "<>" else "=")


def dtype_values(data, dt):
    """the case's elements as the dtype holds them: integers clamped to the dtype's range (None -> 0), floats rounded to
    the dtype (None -> NaN); a plain Python list of ints / floats"""
    out = []
    if dt.kind in "iu":
        info = np.iinfo(dt)
        for v in data:
            k = 0 if v is None or v != v or v in (math.inf, -math.inf) else int(round(v))
            out.append(min(max(k, int(info.min)), int(info.max)))
    else:
        for v in data:
            out.append(math.nan if v is None else float(v))
    return out


def lay_out(a, layout):
    """the same logical array (shape, dtype, values) in another memory layout"""
    dt, shape = a.dtype, a.shape
    if layout == "f":
        return a.copy(order="F")
    if layout == "strided":  # every other element of a wider buffer
        if a.ndim == 0:
            base = np.zeros(3, dt)
            base[1] = a
            return base[1:2].reshape(())
        base = np.zeros(shape[:-1] + (2 * shape[-1] + 1,), dt)
        base[..., 1::2] = a
        return base[..., 1::2]
    if layout == "reversed" and a.ndim >= 1:  # negative stride
        return a[::-1].copy()[::-1]
    if layout == "transposed" and a.ndim >= 2:
        return a.T.copy(order="C").T
    if layout == "field":  # a field of a packed structured array (unaligned for every dtype wider than a byte)
        st = np.dtype({"names": ["pad", "v"], "formats": ["u1", dt], "offsets": [0, 1], "itemsize": 1 + dt.itemsize})
        base = np.zeros(shape, st)
        base["v"] = a
        return base["v"]
    if layout == "readonly":
        b = a.copy()
        b.flags.writeable = False
        return b
    if layout == "offset":  # a view into a byte buffer, one byte off alignment
        buf = np.zeros(a.size * dt.itemsize + 1, "u1")
        v = buf[1:].view(dt).reshape(shape)
        v[...] = a
        return v
    if layout == "scalar" and a.ndim == 0:  # what indexing an image returns: a NumPy scalar, not an array
        return a[()]
    if layout == "pyscalar" and a.ndim == 0:  # ... and what `.item()` / `float()` of it returns: a Python number
        return a.item()
    return a.copy(order="C")


def build_data(case):
    """-> (dtype, argument for calibrate, its elements as exact Python numbers in C order) or None (malformed case)"""
    dt = parse_dtype(case.get("dtype"))
    shape, data, layout = case.get("shape"), case.get("data"), case.get("layout", "c")
    if dt is None or not isinstance(data, list) or not isinstance(shape, list) or layout not in LAYOUTS:
        return None
    if any(not (v is None or isinstance(v, (int, float))) or isinstance(v, bool) for v in data):
        return None
    if any(not isinstance(k, int) or k < 0 for k in shape) or (int(np.prod(shape)) if shape else 1) != len(data):
        return None
    vals = dtype_values(data, dt)
    a = np.array(vals, dtype=dt).reshape(shape)
    arg = lay_out(a, layout)
    same_dtype = np.asarray(arg).dtype == dt or (layout == "scalar" and np.asarray(arg).dtype == dt.newbyteorder("=")) \
        or (layout == "pyscalar" and not shape)
    if np.shape(arg) != tuple(shape) or not same_dtype or not np.array_equal(np.asarray(arg), a, equal_nan=True):
        raise core.InternalError(f"layout {layout} changed the array")
    exact = vals if dt.kind in "iu" else a.ravel().astype(np.float64).tolist()
    return dt, arg, exact


def same_value(a, b):
    """exact equality of two array elements (Python int / float): NaN with NaN, zeros with their sign between floats"""
    fa, fb = isinstance(a, float), isinstance(b, float)
    if (fa and a != a) or (fb and b != b):
        return fa and fb and a != a and b != b
    if fa and fb and a == 0.0 and b == 0.0:
        return math.copysign(1.0, a) == math.copysign(1.0, b)
    if (fa and math.isinf(a)) or (fb and math.isinf(b)):
        return fa and fb and a == b
    return Fraction(a) == Fraction(b)


def exact_elements(out):
    """elements of a returned array as exact Python numbers (ints, or floats through binary64); None: not a real array"""
    out = np.asarray(out)
    if out.dtype.kind in "iub":
        return [int(v) for v in out.ravel().tolist()]
    if out.dtype.kind == "f" and out.dtype.itemsize <= 8:
        return [float(v) for v in out.ravel().astype(np.float64).tolist()]
    return None


def observe_data(arg_exact, out):
    """what calibrate returned for a data array: shape, dtype (recorded, never compared), the elements as floats, and
    whether they are the argument's elements unchanged (exactly: value for value)"""
    o = np.asarray(out)
    el = exact_elements(o)
    if el is None:
        return {"shape": list(o.shape), "dtype": str(o.dtype), "unsupported-result-dtype": True}
    return {"shape": list(o.shape), "dtype": o.dtype.str, "data": [fnum(float(v)) if not (isinstance(v, float) and math.isinf(v))
                                                               else ("inf" if v > 0 else "-inf") for v in el],
            "unchanged": len(el) == len(arg_exact) and all(same_value(a, b) for a, b in zip(arg_exact, el))}


def judge_data(impl, model, spec, shape, g, c, dt, identity):
    """a data array of dtype `dt`: the identity returns the elements unchanged (exactly); any other line returns (r - c)/g
    at the precision of the result pewlib computes - binary64 for integer and binary64 data, binary32 for binary32 data
    (NumPy keeps binary32 under a Python-float line): 4 eps (|x| + |c/g|) covers the conversion of wide integers, the
    rounding of the line's parameters to the dtype, the subtraction and the division"""
    if "data" not in impl or impl["shape"] != list(shape):
        return False, False
    if identity:
        return impl["unchanged"], impl["unchanged"]
    eps, tiny = (2.0 ** -23, 2.0 ** -149) if (dt.kind == "f" and dt.itemsize == 4) else (2.0 ** -52, 2.0 ** -1074)

    def cmp(want):
        if len(want) != len(impl["data"]):
            return False
        for a, b in zip(impl["data"], want):
            if (a is None) != (b is None):
                return False
            if a is not None and (isinstance(a, str) or abs(a - b) > 4 * eps * (abs(b) + abs(c / g)) + tiny):
                return False
        return True

    return cmp(model["data"]), cmp(spec["data"])


def data_features(dt, layout, shape, exact):
    if (layout in ("scalar", "pyscalar") and shape) or (layout == "reversed" and not shape) or \
            (layout in ("transposed", "f") and len(shape) < 2):
        layout = "c"  # what `lay_out` falls back to
    f = {"data-dtype:" + dt.base.str[1:], "data-layout:" + layout, f"ndim{len(shape)}",
         "data-byteorder:" + ("single-byte" if dt.itemsize == 1 else "big" if dt.str[0] == ">" else "little")}
    f.add("data:integer-counts" if dt.kind in "iu" else "data:binary32" if dt.itemsize == 4 else "data:binary64")
    if not exact:
        f.add("empty-array")
    if len(exact) >= 1000:
        f.add("data:image(>=1000 elements)")
    if dt.kind in "iu" and exact:
        info = np.iinfo(dt)
        if int(info.max) in exact or (dt.kind == "i" and int(info.min) in exact):
            f.add("data:at-dtype-limit")
        if any(abs(v) > 2 ** 53 for v in exact):
            f.add("data:integer-beyond-2^53")
        if any(v < 0 for v in exact):
            f.add("data:negative-counts")
    if dt.kind == "f" and any(v != v for v in exact):
        f.add("nan-data")
    return f


class C06(Prop):
    id = "C06"
    anchored = ["src/pewlib/calibration.py"]
    cases = {"quick": 350, "thorough": 9000}
    rule = ("fit cases: 0..12 rows from concentration ladders containing 0 (scaled by 10^-3..10^3, replicated levels), "
            "positive responses (line + noise over 8 decades of gradient, exact lines, log-uniform scatter, constant), "
            "0..3 NaN rows (x, y or both NaN; the finite cell chosen below the smallest level, at 0, or random) at any "
            "position, the seven built-in weightings and custom positive weights, all permutations of sets <= 5 rows "
            "(sampled above); every fit case is also reached through histories on one object (prior object with custom "
            "weights of the same / another length, another built-in weighting, other points, built-in -> custom -> "
            "built-in; the case's points and weighting assigned by the setters in both orders, or only the differing "
            "one, then update_linreg()); 8% of the fit cases are same-unit ladders (gradient at / next to 1, blank offset "
            "zero or small, noise 0..1e-3) at scales 1e3..1e-12 (trace levels); calibrate cases: arrays of 0..3 dimensions "
            "incl. empty and NaN, gradients over decades, identity and fitted calibrations, lines at / next to the identity "
            "(gradient 1, 1 +- ulps, 1 +- 1e-15..1e-2; intercept 0, +-5e-324..1e-30, 1e-12..1e-1 of the data scale, "
            "1e-20..1e-3; data at scales 1e3..1e-12; given to the constructor as float / int / np.float64, or fitted from a "
            "same-unit ladder; a 7x8 grid of them on every run); sessions (6%): one object, 2..4 operations that set its "
            "line (attributes assigned: any line / next to the identity / the identity; refitted on an ordinary ladder, a "
            "same-unit ladder, fewer than two usable rows, no rows) with calibrate called before, between (once or twice) "
            "and after; 35% of the sessions calibrate one image of some dtype / layout at every call. Ladders are written in "
            "units from 1e-12 to 1e12 (a quarter of the fit cases beyond 1e-3..1e3), responses from 1e-9 to 1e12; levels that "
            "differ by 1e-3..1e-9 of their mean; exactly two levels with up to 12 replicates; 12% tables of whole numbers. "
            "Every fit case is also handed over as two or three other kinds of table (nested lists / tuples of Python "
            "floats and ints, integer arrays i1..u8 of either byte order where the values are whole numbers, binary32 where "
            "exact, big-endian, Fortran-ordered, strided, reversed, read-only), and through 16-17 histories incl. the points "
            "or the custom vector edited in place, the public attribute `weighting` assigned directly, extra refits in "
            "between and at the end, and an object that came back from to_array / from_array. Data cases (10%): calibrate on "
            "arrays of every image dtype (i1 i2 i4 i8 u1 u2 u4 u8 f4 f8), either byte order, 0..3 dimensions incl. empty, "
            "nine memory layouts (C, Fortran, every other element, reversed, transposed, field of a packed structured array, "
            "read-only, unaligned offset, NumPy scalar), elements given directly (raw counts up to the dtype's limits, "
            "responses between the blank and twice the top standard, NaN for the float dtypes) under the identity, lines "
            "given as float / np.float64 / int, fitted lines (ladders measured in counts), lines next to the identity; a "
            "deterministic grid dtype x byte order x {identity, float line, np.float64 line, fitted, fewer than two points} "
            "on every run. non-trivial = carries a NaN row, a zero level, a permutation, custom weights, a history, a "
            "non-1-D array, a line at or next to the identity, a data array of a given dtype, or is a session; distinct by "
            "canonical case hash")
    trusted = [
        "np.polynomial.polynomial.polyfit(x, y, 1, w=sqrt(w)) returns the minimiser of the weighted residual sum of a "
        "full-rank system and np.cov(aweights=w) the weighted covariance matrix; the correspondence measures both "
        "against the closed forms at relative 1e-9 (column-scaled norm), loosened to the first-order perturbation bound "
        "1e-9 + 32*2^-52*(kappa + kappa^2*tan(theta)), kappa^2 = 4/rho, rho = D/(Sw*Swxx), when that is larger; cases with "
        "rho < 1e-6 or with that bound above 1e-5 are undetermined (counted, never a verdict)",
        "float evaluation of 1/x, 1/x**2 and of (data - intercept)/gradient is within 1e-15 relative of the exact value "
        "(plus one rounding of 2^-1074 in the subnormal range)",
        "a data array holds each response exactly (integers of any width, binary32, binary64); its concentration is "
        "(r - c)/g over Rat (`specCalibrate`, `calibrate_eq_iff_on_line`).  pewlib's result is compared at the precision of "
        "the type NumPy computes in on the unchanged tree: binary64 for integer and binary64 data under any line, "
        "binary32 for binary32 data (NumPy keeps binary32 under a Python-float line): 4 eps (|x| + |c/g|) + one subnormal "
        "rounding; binary32 cases with any of |g|, |c|, |r|, |x| above 1e30 or |g| below 1e-30 are undetermined",
        "in a session a refit on two or more usable rows stores polyfit's line: the line observed on the object is "
        "adopted as the model's state for the following calibrate calls (the fit itself is judged by the fit cases); "
        "assigned lines and the identity after fewer than two usable rows are compared exactly",
    ]
    assumptions = [
        "r² is compared only where the responses are not (nearly) constant: Dy/(Sw*Swyy) >= 1e-10 (DESIGN 6a)",
        "r² is not compared when one weight carries all but 1e-12 of the total (1 - Σw²/(Σw)² < 1e-12): np.cov's "
        "normalisation Σw − Σw²/Σw then cancels in floating point and pewlib returns NaN (observed: points "
        "[[0, 0.0233], [1000, 8832044]] with 1/(y^2): weights 1839.7 and 1.28e-14, rsq = NaN, exact value 1)",
        "point sets whose usable rows do not have two distinct concentrations, or whose weights are not all positive, "
        "are outside the property's hypothesis; only the weights and 'does not change' are not demanded there",
        "'an identity calibration returns data unchanged' is demanded value for value (NaN for NaN, zeros with their "
        "sign, integers as integers or as the equal float); the dtype of the returned array and whether it is the same "
        "object are recorded (`result-dtype:*`), never compared: the text speaks of the data",
        "a line whose gradient or intercept is a Python int, applied to an integer array, is subtracted by NumPy in the "
        "array's own integer type (wraps around below the blank for unsigned counts, OverflowError for an intercept "
        "outside the dtype's range).  Lines out of a fit are np.float64 and the constructor's parameters are typed float: "
        "outside the quantifier, such cases are recorded (`int-line-on-int-data:...(recorded only)`), not judged, when "
        "a difference r - c leaves the dtype's range (notes/EC06.md)",
        "to_array / from_array are not anchored by the property: an object that came back from them is used as a prior "
        "state only (a round trip that fails or drops rows is a prefix that is not judged)",
        "`error` is not part of the property statement; it is compared (under impl-vs-model) with the mechanism's value and "
        "with its own specification - the residual variance about the textbook line written with raw sums "
        "(`specErr2`, equal to the mechanism by `err2_is_residual_variance`)",
        "the observed `weights` are compared with the entry-by-entry specification `specWeights`; the clause 'a zero "
        "concentration never produces an infinite or NaN weight' is demanded of pewlib wherever the Lean specification "
        "says it binds: two usable rows with distinct concentrations, hence (`two_levels_hasNonzero`; for the y-based "
        "weightings: positive responses) some entry of the column the weights are derived from is finite and not zero "
        "(`hasNonzero`).  With nothing but zeros and NaNs the weights of the zeros are NaN "
        "(`zero_weight_nan_iff`): outside the quantifier, compared with the specification only",
    ]

    # ------------------------------------------------------------------ generation
    def gen_fit(self, rng, tier, unit=None):
        """unit: the responses are read in the unit of the concentrations (gradient at or next to 1, blank offset
        zero or small against the ladder), on ladders from ordinary units down to trace levels (scale 1e-12)"""
        big = tier == "thorough"
        if unit is None:
            unit = rng.random() < 0.08
        ladder = rng.choice(LADDERS)
        # ordinary units, and now and then the same ladders written in SI / mass-fraction / count units (1e-12 .. 1e12)
        scale = 10.0 ** rng.choice([0, 0, 0, -3, -2, -1, 1, 2, 3, 0, -3, -2, -1, 1, 2, 3, -12, -9, -6, 6, 9, 12])
        mode = rng.choice(["ladder"] * 8 + ["few", "same", "zeros", "close", "close", "two-level"])
        n = rng.choice([2, 2, 3, 3, 4, 4, 5, 5, 6, 7, 8] + ([10, 12] if big else []))
        if rng.random() < 0.03:  # a long table (replicates of every level, a whole plate of standards)
            n = rng.choice([20, 30, 50] + ([100] if big else []))  # exact sums over 1/y^2 weights: ~1 s per evaluation at 100 rows
        if unit:
            scale, mode = rng.choice(TRACE_SCALES), "ladder"
        if mode == "few":
            n = rng.choice([0, 1, 1])
        levels = list(ladder)
        if rng.random() < 0.2:
            levels = levels[1:]  # no zero level
        if mode == "same":
            xs = [rng.choice(levels[1:]) * scale] * n
        elif mode == "zeros":
            xs = [0.0] * n
        elif mode == "close":
            # levels that differ by a small fraction of their mean (spread 1e-3 .. 1e-9 relative)
            b = rng.choice(levels[1:]) * scale
            sp = 10.0 ** rng.choice([-3, -4, -5, -6, -7, -9])
            xs = [b * (1 + rng.choice([0, 1, 2, 3, 3 * rng.random()]) * sp) for _ in range(n)]
        elif mode == "two-level":
            # exactly two distinct concentrations (the blank and one standard, or two standards), many replicates
            n = rng.choice([2, 3, 4, 6, 8, 12])
            lo, hi = sorted(rng.sample(levels, 2))
            xs = [lo * scale, hi * scale] + [rng.choice([lo, hi]) * scale for _ in range(n - 2)]
        else:
            if rng.random() < 0.6 and n <= len(levels):
                k = rng.randint(0, len(levels) - n)
                xs = levels[k:k + n] if rng.random() < 0.5 else sorted(rng.sample(levels, n))
                if levels[0] == 0 and rng.random() < 0.7 and n >= 1:
                    xs[0] = 0
            else:
                xs = [rng.choice(levels) for _ in range(n)]  # replicates
            xs = [float(x) * scale for x in xs]
        g = 10.0 ** (rng.uniform(-2, 6) if rng.random() < 0.85 else rng.uniform(-9, 12))  # counts, cps, volts, amperes ...
        c = rng.choice([0.0, 0.0, 10.0 ** rng.uniform(-1, 4), g * scale * rng.uniform(0, 2)])
        ymode = rng.choice(["noise", "noise", "noise", "exact", "scatter", "const"] if mode != "few" else ["noise"])
        if unit:
            ymode = "unit"
            g = rng.choice([1.0, near_one(rng), 1.0 + rng.choice([-1.0, 1.0]) * 10.0 ** rng.uniform(-9, -2)])
            c = rng.choice([0.0, scale * 10.0 ** rng.uniform(-6, 0), scale * rng.uniform(0, 2), 10.0 ** rng.uniform(-14, -6)])
            sigma = rng.choice([0.0, 1e-12, 1e-8, 1e-5, 1e-3])
        ys = []
        for x in xs:
            if ymode == "unit":
                y = (g * x + c) * (1 + rng.gauss(0, sigma))
                if y <= 0:  # a blank without offset still reads something
                    y = scale * 10.0 ** rng.uniform(-6, -3)
            elif ymode == "noise":
                y = (g * x + c) * (1 + rng.gauss(0, rng.choice([0.001, 0.02, 0.1]))) + abs(rng.gauss(0, 0.01 * g * scale))
            elif ymode == "exact":
                y = float(round(g)) * x + float(round(c))
            elif ymode == "scatter":
                y = 10.0 ** rng.uniform(-2, 8)
            else:
                y = float(round(c)) + 1.0
            ys.append(abs(y) if y != 0 else (0.0 if rng.random() < 0.3 else 1.0))
        if not unit and mode != "close" and rng.random() < 0.12:
            # a table of whole numbers: levels in whole units, responses in raw counts (what an integer table holds)
            k = rng.choice([1.0, 1.0, 10.0, 100.0]) if scale < 1 else 1.0
            xs = [float(round(x / scale * k)) if scale < 1 else float(round(x)) for x in xs]
            ys = [float(min(round(y), 2 ** 62)) for y in ys]
        rows = [[x, y] for x, y in zip(xs, ys)]
        rng.shuffle(rows) if rng.random() < 0.5 else None
        # NaN rows
        k = rng.choice([0, 0, 1, 1, 2, 3])
        fx = [x for x, _ in rows if x != 0]
        fy = [y for _, y in rows if y != 0]
        for _ in range(k):
            typ = rng.choice(["y", "y", "x", "both"])
            lowx = (min(fx) if fx else scale) * rng.choice([0.5, 0.1, 0.25])
            lowy = (min(fy) if fy else 1.0) * rng.choice([0.5, 0.1])
            if typ == "y":
                row = [rng.choice([lowx, lowx, 0.0, rng.choice(ladder) * scale]), None]
            elif typ == "x":
                row = [None, rng.choice([lowy, lowy, 0.0, 10.0 ** rng.uniform(-2, 8)])]
            else:
                row = [None, None]
            pos = rng.choice([0, len(rows), rng.randint(0, len(rows))])
            rows.insert(pos, row)
        weighting = rng.choice(BUILTIN + ["custom", "custom", "1/x", "1/(x^2)"])
        cw = None
        if weighting == "custom":
            weighting = rng.choice(CUSTOM_LABELS)
            cw = [10.0 ** rng.uniform(-3, 3) if rng.random() < 0.8 else float(rng.choice([1, 2, 5])) for _ in rows]
            for i, r in enumerate(rows):
                if is_nan_row(r) and rng.random() < 0.4:
                    cw[i] = None
        m = len(rows)
        if m <= 1:
            perms = []
        elif m <= (5 if big else 4):
            perms = [list(p) for p in itertools.permutations(range(m))][1:]
        else:
            perms = [list(reversed(range(m)))] + [rng.sample(range(m), m) for _ in range(1 if m >= 20 else 3 if not big else 5)]
        return {"kind": "fit", "rows": rows, "weighting": weighting, "cw": cw, "perms": perms,
                "hists": make_histories(rng, rows, weighting, cw),
                "tables": rng.sample(TABLE_FORMS, 2) + [rng.choice(TABLE_INT_FORMS)]}

    def gen_cal(self, rng, tier):
        shape = rng.choice([[], [0], [1], [5], [2, 3], [3, 1], [0, 3], [2, 2, 2], [7], [4, 4]])
        size = int(np.prod(shape)) if shape else 1
        kind = rng.choice(["line", "line", "line", "identity", "fitted", "few", "near", "near", "fitted-unit"])
        case = {"kind": "calibrate", "mode": kind, "shape": shape, "conc": gen_conc(rng, size)}
        if kind == "line":
            case["g"] = rng.choice([10.0 ** rng.uniform(-3, 7), float(rng.choice([1, 2, 3, 1000])), 1.0, -2.5])
            case["c"] = rng.choice([0.0, 10.0 ** rng.uniform(-2, 5), -10.0 ** rng.uniform(-2, 3), float(rng.randint(1, 50))])
            if case["g"] == 1.0 and rng.random() < 0.5:
                case["c"] = 0.0
            if case["g"] == float(round(case["g"])) and case["c"] == float(round(case["c"])) and rng.random() < 0.5:
                case["ptype"] = "int"
        elif kind == "near":
            # a line at, next to or close to the identity: gradient 1 (+- ulps .. 1e-2), intercept 0 (+- the smallest
            # float .. 1e-3 of the data scale), data from ordinary units down to trace levels
            scale = rng.choice(TRACE_SCALES)
            case.update(mode="line", g=near_one(rng), c=near_zero(rng, scale), conc=gen_conc(rng, size, scale))
            if rng.random() < 0.3:
                case["ptype"] = "np.float64"
        elif kind == "fitted":
            f = self.gen_fit(rng, tier, unit=False)
            case["fit"] = {"rows": f["rows"], "weighting": f["weighting"], "cw": f["cw"]}
        elif kind == "fitted-unit":
            f = self.gen_fit(rng, tier, unit=True)
            xs = [r[0] for r in f["rows"] if r[0]]
            case.update(mode="fitted", conc=gen_conc(rng, size, max(xs) if xs else 1.0),
                        fit={"rows": f["rows"], "weighting": f["weighting"], "cw": f["cw"]})
        elif kind == "few":
            case["fit"] = {"rows": rng.choice([[], [[1.0, 2.0]], [[1.0, 2.0], [2.0, None]], [[None, None], [None, 1.0]]]),
                           "weighting": rng.choice(BUILTIN), "cw": None}
        return case

    def gen_dtype(self, rng):
        base = rng.choice(DATA_DTYPES + ["i2", "i4", "u2", "f4"])  # the common image dtypes a little more often
        return (rng.choice("<>") if np.dtype(base).itemsize > 1 else "|") + base

    def gen_data(self, rng, dtype, size, anchors, lo, hi):
        """`size` elements for a data array of the given dtype: responses between `lo` and `hi` (log-uniform), the
        anchors themselves (responses of the standards, the blank), 0, the dtype's limits; NaN for the float dtypes"""
        dt = parse_dtype(dtype)
        out = []
        lo = max(lo, 1e-6)
        hi = max(hi, 2 * lo)
        for _ in range(size):
            r = rng.random()
            if r < 0.25 and anchors:
                v = rng.choice(anchors)
            elif r < 0.33:
                v = 0.0
            elif r < 0.4 and dt.kind in "iu":
                info = np.iinfo(dt)
                v = rng.choice([int(info.max), int(info.min), int(info.max) - 1, 1, -1 if dt.kind == "i" else 2])
            elif r < 0.45 and dt.kind == "f":
                v = None
            else:
                v = math.exp(rng.uniform(math.log(lo), math.log(hi)))
                if dt.kind == "i" and rng.random() < 0.1:
                    v = -v
            if dt.kind in "iu":
                v = dtype_values([v], dt)[0]
            elif v is not None and dt.itemsize == 4:
                v = float(np.float32(v)) if abs(v) < 3e38 else None
            out.append(v)
        return out

    def gen_cal_data(self, rng, tier):
        """calibrate on an array as images come: every dtype, byte order, dimension count and memory layout"""
        dtype = self.gen_dtype(rng)
        dt = parse_dtype(dtype)
        shape = rng.choice([[], [], [0], [1], [4], [6], [2, 3], [3, 1], [0, 3], [2, 2, 2], [1, 3, 2], [3, 4]])
        if rng.random() < 0.04:  # an image rather than a handful of pixels
            shape = rng.choice([[40, 50], [1500], [8, 16, 12]])
        size = int(np.prod(shape)) if shape else 1
        layout = rng.choice(LAYOUTS if shape else ["c", "scalar", "scalar", "pyscalar", "strided", "field", "readonly", "offset"])
        kind = rng.choice(["line", "line", "line-f64", "identity", "fitted", "fitted", "few", "near", "counts-fit"])
        top = float(np.iinfo(dt).max) if dt.kind in "iu" else 10.0 ** rng.uniform(2, 9)
        case = {"kind": "calibrate", "mode": "line", "shape": shape, "dtype": dtype, "layout": layout}
        if kind in ("line", "line-f64"):
            # counts per unit and blank suited to the range of the dtype
            g = 10.0 ** rng.uniform(-1, max(0.0, min(6.0, math.log10(top) - 1.5)))
            c = rng.choice([0.0, rng.uniform(0, top / 16), float(rng.randint(1, 100)), -rng.uniform(0, top / 64)])
            if rng.random() < 0.3:
                g, c = float(max(1, round(g))), float(round(c))
                if rng.random() < 0.4:
                    case["ptype"] = "int"
            if kind == "line-f64":
                case["ptype"] = "np.float64"
            if rng.random() < 0.08:
                g = -g
            case.update(g=g, c=c, data=self.gen_data(rng, dtype, size, [c, g + c, 10 * g + c], max(abs(c) / 4, abs(g) / 100), top))
        elif kind == "near":
            case.update(g=near_one(rng), c=near_zero(rng, 1.0), data=self.gen_data(rng, dtype, size, [1.0, 2.0], 0.5, top))
            if rng.random() < 0.3:
                case["ptype"] = "np.float64"
        elif kind == "identity":
            case.update(mode="identity", data=self.gen_data(rng, dtype, size, [1.0], 0.5, top))
        elif kind == "few":
            case.update(mode="few", data=self.gen_data(rng, dtype, size, [1.0], 0.5, top),
                        fit={"rows": rng.choice([[], [[1.0, 2.0]], [[1.0, 2.0], [2.0, None]], [[None, None], [None, 1.0]]]),
                             "weighting": rng.choice(BUILTIN), "cw": None})
        else:
            # a fitted calibration applied to an image whose pixels lie between the blank and the top standard
            f = self.gen_counts_fit(rng, top) if kind == "counts-fit" or dt.kind in "iu" else self.gen_fit(rng, tier, unit=False)
            ys = [r[1] for r in f["rows"] if r[0] is not None and r[1] is not None]
            lo, hi = (min(ys), max(ys)) if ys else (1.0, 100.0)
            case.update(mode="fitted", fit={"rows": f["rows"], "weighting": f["weighting"], "cw": f["cw"]},
                        data=self.gen_data(rng, dtype, size, ys, lo / 2, min(2 * hi, top)))
        return case

    def gen_counts_fit(self, rng, top):
        """standards measured in raw counts: integer responses below `top`, round concentration levels"""
        ladder = rng.choice(LADDERS)
        n = rng.randint(2, len(ladder))
        xs = sorted(rng.sample(ladder, n))
        if rng.random() < 0.7:
            xs[0] = ladder[0]
        if len(set(xs)) < 2:
            xs = ladder[:2]
        blank = float(rng.choice([0, rng.randint(1, 50), rng.randint(50, 2000)]))
        blank = min(blank, top / 8)
        g = (top * rng.uniform(0.05, 0.6) - blank) / max(xs)
        rows = [[float(x), float(max(0, round((g * x + blank) * (1 + rng.gauss(0, rng.choice([0.0, 0.001, 0.03]))))))] for x in xs]
        if len(rows) >= 3 and rng.random() < 0.3:
            rows.insert(rng.randint(0, len(rows)), rng.choice([[None, 5.0], [xs[1] / 2, None], [None, None]]))
        return {"rows": rows, "weighting": rng.choice(BUILTIN), "cw": None}

    def gen_session(self, rng, tier):
        """several operations on ONE object, `calibrate` called in between: the line is assigned to the public
        attributes (any line, next to the identity, the identity), refitted on other points (an ordinary ladder, a
        same-unit ladder, fewer than two usable rows, no rows) - every calibrate call answers for the line the object
        holds at that moment"""
        shape = rng.choice([[], [1], [3], [5], [2, 3], [0], [2, 2, 2]])
        size = int(np.prod(shape)) if shape else 1
        scale = rng.choice(TRACE_SCALES)
        line = lambda: {"g": rng.choice([10.0 ** rng.uniform(-3, 7), float(rng.choice([2, 3, 1000])), 1.0, -2.5]),
                        "c": rng.choice([0.0, 10.0 ** rng.uniform(-2, 5), -10.0 ** rng.uniform(-2, 3), float(rng.randint(1, 50))])}
        near = lambda: {"g": near_one(rng), "c": near_zero(rng, scale)}
        few = lambda: rng.choice([[[1.0, 2.0]], [[1.0 * scale, 2.0], [2.0 * scale, None]], [[None, None], [None, 1.0]],
                                  [[scale, None], [None, 3.0], [2 * scale, 5.0]]])
        start = rng.choice([None, None, line(), near()])
        steps = [{"op": "calibrate"}] if rng.random() < 0.5 else []
        for _ in range(rng.randint(2, 4)):
            k = rng.choice(["assign-line", "assign-near", "assign-near", "assign-identity", "fit", "fit-unit", "few", "few", "empty"])
            if k.startswith("assign"):
                steps.append({"op": "assign", **({"g": 1.0, "c": 0.0} if k == "assign-identity" else near() if k == "assign-near" else line())})
            else:
                if k in ("fit", "fit-unit"):
                    f = self.gen_fit(rng, tier, unit=(k == "fit-unit"))
                    f = {"rows": f["rows"], "weighting": f["weighting"], "cw": f["cw"]}
                else:
                    f = {"rows": few() if k == "few" else [], "weighting": rng.choice(BUILTIN), "cw": None}
                steps.append({"op": "refit", **f})
            if rng.random() < 0.85:
                steps.append({"op": "calibrate"})
                if rng.random() < 0.15:
                    steps.append({"op": "calibrate"})
        if steps[-1]["op"] != "calibrate":
            steps.append({"op": "calibrate"})
        if rng.random() < 0.35:  # the same image of some dtype / layout calibrated at every call
            dtype = self.gen_dtype(rng)
            dt = parse_dtype(dtype)
            top = float(np.iinfo(dt).max) if dt.kind in "iu" else 10.0 ** rng.uniform(2, 9)
            return {"kind": "session", "shape": shape, "dtype": dtype, "start": start, "steps": steps,
                    "layout": rng.choice(LAYOUTS if shape else ["c", "scalar", "pyscalar", "strided", "field", "offset"]),
                    "data": self.gen_data(rng, dtype, size, [1.0, 10.0, 100.0], 0.5, top)}
        return {"kind": "session", "shape": shape, "conc": gen_conc(rng, size, scale), "start": start, "steps": steps}

    def generate(self, rng, tier):
        r = rng.random()
        if r < 0.06:
            return self.gen_session(rng, tier)
        if r < 0.16:
            return self.gen_cal_data(rng, tier)
        return self.gen_cal(rng, tier) if r < 0.30 else self.gen_fit(rng, tier)

    def targeted(self, tier):
        for i, c in enumerate(self.targeted_plain(tier)):
            if c["kind"] == "fit":
                c["hists"] = make_histories(core.case_rng(0, self.id, "targeted-hists", i), c["rows"], c["weighting"], c["cw"])
            yield c
        # the history classes spelled out on one small set: custom vector of the same length -> every built-in
        base = [[0.0, 1.0], [1.0, 2.0], [2.0, 4.5], [5.0, 9.0]]
        for w in BUILTIN:
            for final in ("w", "pw", "wp"):
                yield {"kind": "fit", "rows": base, "weighting": w, "cw": None, "perms": [], "hists": [
                    {"ops": [{"op": "new", "rows": "case", "weighting": "Custom", "cw": [5.0, 0.25, 3.0, 0.5], "fit": True}],
                     "final": final},
                    {"ops": [{"op": "new", "rows": "case", "weighting": "Equal" if w != "Equal" else "x", "cw": None, "fit": True},
                             {"op": "weights", "weighting": "Custom", "cw": [5.0, 0.25, 3.0, 0.5]}, {"op": "fit"}],
                     "final": final}]}

        # result attributes assigned by the caller between two fits of unchanged points and weights: every attribute
        # alone, several, all; then update_linreg() alone / points or weights of equal content / twice; also on point
        # sets with fewer than two usable rows (the refit must reset the hand-set line to the identity)
        fitted = {"op": "new", "rows": "case", "weighting": "case", "cw": None, "fit": True}
        vals = {"g": 2.0, "i": 5.0, "r": 0.25, "e": 3.0, "u": "ppb"}
        finals = ["g", "i", "r", "e", "u", "gi", "gire", "gireu", "gp", "iw", "gif", "rp", "ew"]
        for k, w in enumerate(BUILTIN + ["Custom"]):
            cwk = [5.0, 0.25, 3.0, 0.5] if w == "Custom" else None
            yield {"kind": "fit", "rows": base, "weighting": w, "cw": cwk, "perms": [],
                   "hists": [{"ops": [fitted], "final": f, "vals": vals} for f in finals]}
            few = [[[1.0, 2.0]], [[1.0, 2.0], [None, 3.0]], [], [[0.0, 1.0], [2.0, None], [None, None]]][k % 4]
            yield {"kind": "fit", "rows": few, "weighting": w, "cw": [1.0, 2.0, 3.0][:len(few)] if w == "Custom" else None, "perms": [],
                   "hists": [{"ops": [fitted], "final": f, "vals": {**vals, "g": 1.0 if f == "i" else 2.0}} for f in ("gi", "g", "i", "gire", "gp")]}

        # labels of custom weight vectors: every label on a ladder with a zero level and a NaN row
        for k, lab in enumerate(CUSTOM_LABELS):
            yield {"kind": "fit", "rows": [[0.0, 1.0], [1.0, 2.0 + k % 3], [None, 7.0], [2.0, 4.5], [5.0, 9.0]], "weighting": lab,
                   "cw": [5.0, 0.25, None, 3.0, 0.5], "perms": [[4, 3, 2, 1, 0]], "tables": ["list"]}

    def targeted_plain(self, tier):
        base = [[0.0, 1.0], [1.0, 2.0], [2.0, 4.0]]
        allp = lambda m: [list(p) for p in itertools.permutations(range(m))][1:]
        for w in BUILTIN:
            # the DESIGN witness: a NaN row whose finite x lies below the smallest non-zero level
            yield {"kind": "fit", "rows": [base[0], [0.5, None]] + base[1:], "weighting": w, "cw": None, "perms": allp(4)}
            yield {"kind": "fit", "rows": [base[0], [None, 0.5]] + base[1:], "weighting": w, "cw": None, "perms": allp(4)}
            yield {"kind": "fit", "rows": [[None, None]] + base + [[0.0, None]], "weighting": w, "cw": None, "perms": allp(5)}
            yield {"kind": "fit", "rows": [[0.0, 3.0], [0.0, 5.0], [10.0, 100.0], [5.0, 60.0], [5.0, 55.0]], "weighting": w,
                   "cw": None, "perms": allp(5)}
            for rows in ([], [[1.0, 2.0]], [[1.0, 2.0], [None, 3.0]], [[None, None]], [[1.0, None], [2.0, None], [None, 1.0]]):
                yield {"kind": "fit", "rows": rows, "weighting": w, "cw": None, "perms": allp(len(rows)) if len(rows) > 1 else []}
            yield {"kind": "fit", "rows": [[0.0, 1.0], [2.0, 3.0]], "weighting": w, "cw": None, "perms": allp(2)}
            # nothing but zeros and NaNs in the column the weights are derived from: the weights of the zeros are NaN
            # (zero_weight_nan_iff) - outside the quantifier, compared with the specification
            yield {"kind": "fit", "rows": [[0.0, 1.0], [None, 2.0]] if "y" not in w else [[1.0, 0.0], [2.0, None]],
                   "weighting": w, "cw": None, "perms": allp(2)}
            yield {"kind": "fit", "rows": [[0.0, 1.0], [0.0, 2.0], [None, 3.0]] if "y" not in w else
                   [[1.0, 0.0], [2.0, 0.0], [3.0, None]], "weighting": w, "cw": None, "perms": allp(3)}
        yield {"kind": "fit", "rows": [base[0], [0.5, None]] + base[1:], "weighting": "Custom", "cw": [1.0, None, 2.0, 0.5],
               "perms": allp(4)}
        yield {"kind": "fit", "rows": base + [[3.0, 5.0]], "weighting": "Custom", "cw": [3.0, 1.0, 2.0, 0.5], "perms": allp(4)}
        for shape in ([], [0], [1], [2, 3], [2, 2, 2]):
            size = int(np.prod(shape)) if shape else 1
            conc = [None if i == 1 else float(i) for i in range(size)]
            yield {"kind": "calibrate", "mode": "identity", "shape": shape, "conc": conc}
            yield {"kind": "calibrate", "mode": "line", "shape": shape, "conc": conc, "g": 2.0, "c": 3.0}
            yield {"kind": "calibrate", "mode": "line", "shape": shape, "conc": conc, "g": 1.0, "c": 0.0}
            yield {"kind": "calibrate", "mode": "line", "shape": shape, "conc": conc, "g": 1.0, "c": 5.0}
            yield {"kind": "calibrate", "mode": "few", "shape": shape, "conc": conc,
                   "fit": {"rows": [[1.0, 2.0]], "weighting": "1/x", "cw": None}}
            yield {"kind": "calibrate", "mode": "fitted", "shape": shape, "conc": conc,
                   "fit": {"rows": base, "weighting": "1/x", "cw": None}}

        # lines at / next to / close to the identity, decade by decade, on data at the scale of the intercept
        for i, dg in enumerate([0.0, 2.0 ** -52, -2.0 ** -53, 1e-12, -1e-9, 1e-6, -1e-3]):
            for j, c in enumerate([0.0, 5e-324, -1e-300, 1e-20, -1e-12, 1e-9, -1e-6, 1e-3]):
                d = abs(c) if abs(c) >= 1e-20 else 1.0
                yield {"kind": "calibrate", "mode": "line", "shape": [4], "conc": [0.0, d, None, 1.0], "g": 1.0 + dg, "c": c,
                       **({"ptype": "np.float64"} if (i + j) % 3 == 0 else {})}
        yield {"kind": "calibrate", "mode": "line", "shape": [2], "conc": [0.0, 3.0], "g": 1, "c": 0, "ptype": "int"}
        yield {"kind": "calibrate", "mode": "line", "shape": [2], "conc": [0.0, 3.0], "g": 2, "c": 3, "ptype": "int"}
        # same-unit ladders (gradient next to 1) from ordinary units down to trace levels, fitted and applied
        for k, sc in enumerate([1.0, 1e-3, 1e-6, 1e-9, 1e-12]):
            for off in (0.0, 0.4 * sc):
                rows = [[x * sc, x * sc * (1 + 3e-6) + off + (1e-3 * sc if x == 0 and off == 0 else 0.0)] for x in (0.0, 1.0, 2.0, 5.0, 10.0)]
                yield {"kind": "calibrate", "mode": "fitted", "shape": [3], "conc": [0.0, 2.5 * sc, 7.0 * sc],
                       "fit": {"rows": rows, "weighting": BUILTIN[k % len(BUILTIN)], "cw": None}}
                yield {"kind": "fit", "rows": rows, "weighting": BUILTIN[(k + 3) % len(BUILTIN)], "cw": None, "perms": []}
        # the same five-level ladder written in units from 1e-12 (mass fractions, mol/L) to 1e12, responses from
        # 1e-9 (amperes) to 1e12 (counts); levels that differ by 1e-6 of their mean; two levels with replicates
        for i, sc in enumerate([1e-12, 1e-9, 1e-6, 1e6, 1e9, 1e12]):
            for j, rs in enumerate([1.0, 1e-9, 1e9]):
                w = (BUILTIN + ["Custom"])[(3 * i + j) % 8]
                yield {"kind": "fit", "rows": [[x * sc, (50.0 + 2000.0 * x + (x * x) % 7) * rs] for x in (0.0, 1.0, 2.0, 5.0, 10.0)],
                       "weighting": w, "cw": [1.0, 2.0, 0.5, 4.0, 1.0] if w == "Custom" else None, "perms": [], "tables": [">f8"]}
        for i, sp in enumerate([1e-3, 1e-5, 1e-6, 1e-8]):
            for j, b in enumerate([100.0, 2.5e-9, 4e7]):
                yield {"kind": "fit", "rows": [[b * (1 + k * sp), 50.0 + 2000.0 * k + (k * k) % 3] for k in (0, 1, 2, 3)],
                       "weighting": BUILTIN[(2 * i + j) % 7], "cw": None, "perms": []}
        for i, w in enumerate(BUILTIN + ["Custom"]):
            lo, hi = [(0.0, 5.0), (1.0, 10.0), (0.0, 1e-9)][i % 3]
            rows = [[lo, 3.0], [hi, 500.0], [lo, 5.0], [hi, 520.0], [hi, 480.0], [lo, 4.0], [lo, 3.5], [hi, 505.0]]
            yield {"kind": "fit", "rows": rows, "weighting": w, "cw": [1.0, 2.0, 0.5, 4.0, 1.0, 3.0, 1.0, 2.0] if w == "Custom" else None,
                   "perms": [list(reversed(range(8)))]}
        # tables of whole numbers (levels in whole units, responses in raw counts) handed over as integer arrays of every
        # width and byte order, nested lists of Python ints, binary32; custom weights as integers too
        counts = [[0.0, 12.0], [1.0, 52.0], [2.0, 93.0], [5.0, 212.0], [10.0, 410.0], [10.0, 415.0]]
        for i, form in enumerate(TABLE_INT_FORMS):
            w = (BUILTIN + ["Custom"])[i % 8]
            yield {"kind": "fit", "rows": counts[:6 if form[1:] != "i1" else 3], "weighting": w,
                   "cw": [1.0, 2.0, 2.0, 4.0, 1.0, 3.0][:6 if form[1:] != "i1" else 3] if w == "Custom" else None,
                   "perms": [], "tables": [form, "int-list", "f4", TABLE_FORMS[i % len(TABLE_FORMS)]]}
        # data arrays of every image dtype, both byte orders: raw counts on a line of 40 counts per unit over a blank of
        # 12, under the identity, the line given as Python floats / np.float64, and the line fitted from standards
        levels = [0.0, 0.25, 0.5, 1.25, 2.5, 5.0]
        std = {"rows": [[x, 12.0 + 40.0 * x] for x in levels], "weighting": "1/x", "cw": None}
        k = 0
        for base in DATA_DTYPES:
            for order in ("<>" if np.dtype(base).itemsize > 1 else "|"):
                counts = [12, 17, 27, 40, 0, 127, int(np.iinfo(base).max), int(np.iinfo(base).min)] if base[0] in "iu" \
                    else [12.0, 17.0, 27.0, 40.0, None, 0.5, -3.0, 2.0 ** 24 + 2.0]
                for mode in ("identity", "float", "np.float64", "fitted", "few"):
                    shape = [[8], [2, 4], [4, 2, 1], [8], [1, 8]][k % 5]
                    lay = LAYOUTS[:8][k % 8]
                    k += 1
                    c = {"kind": "calibrate", "shape": shape, "dtype": order + base, "layout": lay, "data": counts}
                    if mode == "identity":
                        yield {**c, "mode": "identity"}
                    elif mode == "fitted":
                        yield {**c, "mode": "fitted", "fit": std}
                    elif mode == "few":
                        yield {**c, "mode": "few", "fit": {"rows": [[1.0, 52.0], [None, 3.0]], "weighting": "1/x", "cw": None}}
                    else:
                        yield {**c, "mode": "line", "g": 40.0, "c": 12.0, "ptype": mode}
                yield {"kind": "calibrate", "mode": "line", "g": 40.0, "c": 12.0, "shape": [], "dtype": order + base,
                       "layout": ["c", "scalar", "strided", "field", "pyscalar"][(k // 5) % 5], "data": counts[1:2]}
        # sessions on one object
        few = {"op": "refit", "rows": [[1.0, 2.0], [2.0, None]], "weighting": "1/x", "cw": None}
        fit = {"op": "refit", "rows": base, "weighting": "1/x", "cw": None}
        cal = {"op": "calibrate"}
        for j, dtype in enumerate(["<u2", ">i4", "<f4", ">u8", "|u1", "<i8"]):
            yield {"kind": "session", "shape": [2, 2], "dtype": dtype, "layout": LAYOUTS[j], "data": [12, 17, 27, 40],
                   "start": [None, {"g": 40.0, "c": 12.0}][j % 2], "steps": [
                       cal, {"op": "refit", **std}, cal, few, cal, {"op": "assign", "g": 40.0, "c": 12.0}, cal, cal,
                       {"op": "assign", "g": 1.0, "c": 0.0}, cal]}
        for shape in ([], [3]):
            conc = [0.0, 2.0, None][:int(np.prod(shape)) if shape else 1]
            for start in (None, {"g": 2.0, "c": 3.0}, {"g": 1.0 + 1e-7, "c": 1e-9}):
                yield {"kind": "session", "shape": shape, "conc": conc, "start": start, "steps": [
                    cal, fit, cal, few, cal, {"op": "assign", "g": 1.0 - 1e-9, "c": -1e-12}, cal, cal,
                    {"op": "assign", "g": 1.0, "c": 0.0}, cal, {"op": "assign", "g": 4.0, "c": 0.5}, cal,
                    {"op": "refit", "rows": [], "weighting": "Equal", "cw": None}, cal]}

    def search_extra(self, tier):
        rng = core.case_rng(0, self.id, "extra", 0)
        for i in range(400):
            c = self.gen_fit(rng, "thorough")
            if any(is_nan_row(r) for r in c["rows"]):
                yield c
        for i in range(300):
            yield self.gen_cal_data(rng, "thorough")

    # ------------------------------------------------------------------ evaluation
    def evaluate(self, case, ctx):
        if case["kind"] == "fit":
            return self.eval_fit(case, ctx)
        if case["kind"] == "session":
            return self.eval_session(case, ctx)
        return self.eval_cal(case, ctx)

    def eval_fit(self, case, ctx):
        rows, weighting, cw = case["rows"], case["weighting"], case["cw"]
        keep = [i for i, r in enumerate(rows) if not is_nan_row(r)]
        clean_rows = [rows[i] for i in keep]
        clean_cw = None if cw is None else [cw[i] for i in keep]
        variants = [("clean", clean_rows, clean_cw), ("given", rows, cw)]
        for p in case["perms"]:
            variants.append(("perm", [rows[i] for i in p], None if cw is None else [cw[i] for i in p]))
        base = drv_fit(ctx, clean_rows, weighting, clean_cw)
        spec_fit = fit_view(base, "spec")
        fitted, hyp = base["fitted"], base["hyp"]
        rho = float(unrat(base["rho"])) if fitted and hyp else None
        # np.cov's factor Σw − Σw²/Σw cancels to 0 (or below) in floating point when one weight exceeds the
        # sum of the others by ~1e16: r² is then rounding-determined (NaN), see assumptions
        dominant = bool(fitted and hyp and float(unrat(base["cov_margin"])) < COV_MARGIN_MIN)
        check_rsq = bool(fitted and hyp and base["dy_pos"] and float(unrat(base["rho_y"])) >= 1e-10 and not dominant)
        undet = bool(fitted and hyp and rho < RHO_MIN)
        tol_fit = TOL
        if fitted and hyp and not undet:
            mw = fit_view(base, "model")["weights"]
            wf = [float(w) for w in mw if w is not None and not (isinstance(w, float) and math.isnan(w))]
            if len(wf) == len(clean_rows):
                tol_fit = lsq_tolerance([(float(x), float(y)) for x, y in clean_rows], wf, spec_fit["gradient"],
                                        spec_fit["intercept"], rho)
            if tol_fit > 1e-5:  # too ill-conditioned for the float computation to be judged at all
                undet = True
        impl, model, spec = [], [], []
        spec_ok = model_ok = True
        variants.append(("refit", rows, cw))
        table_feats = set()
        for form in case.get("tables", []):
            t = table_as(rows, cw, form) if isinstance(form, str) else None
            if t is not None:
                variants.append(("table", t, form))
        hist_feats, nhist = set(), 0
        n_finite_required = 0
        for h in case.get("hists", []):
            r = resolve_history(h, rows, weighting, cw)
            if r is not None:
                variants.append(("hist", r, None))
        given_rep = None
        for name, vrows, vcw in variants:
            if name == "hist":
                got = run_history(vrows[0], vrows[1], rows, weighting, cw)
                if got is None:  # the prefix (not judged) could not be built
                    continue
                nhist += 1
                hist_feats |= history_features(vrows[0], vrows[1], rows, weighting, cw)
            elif name == "table":
                call = CALL_FORMS[(len(impl) + len(rows)) % len(CALL_FORMS)]
                got = run_fit(rows, weighting, cw, table=vrows, call=call)
                table_feats.add("call:" + call)
                d = parse_dtype(vcw)
                d = d if d is not None and d.kind in "iu" else None
                table_feats.add("table:" + (vcw if d is None else "int-array:" + d.base.str[1:]))
                if d is not None and d.str[0] == ">":
                    table_feats.add("table:int-array:big-endian")
                if d is not None and cw is not None and np.asarray(vrows[1]).dtype.kind in "iu":
                    table_feats.add("table:int-weights")
            else:
                got = run_fit(vrows, weighting, vcw, prior=(name == "refit"))
            if name == "clean":
                rep = base
            elif name in ("given", "refit", "hist", "table"):  # the current points and weighting are the case's own
                if given_rep is None:
                    given_rep = drv_fit(ctx, rows, weighting, cw)
                rep = given_rep
            else:
                rep = drv_fit(ctx, vrows, weighting, vcw)
            mv = fit_view(rep, "model")
            impl.append(got)
            model.append(mv)
            if "raises" in got:
                # failing is a violation where the property speaks: fewer than two usable rows
                # ("reset to the identity instead of failing") and inside the hypothesis
                if not fitted or hyp:
                    spec_ok = model_ok = False
                spec.append(spec_fit)
                continue
            model_ok = model_ok and weights_equal(got["weights"], mv["weights"])
            # the weights against their own (entry-by-entry) specification, and the clause "a zero concentration never
            # produces an infinite or NaN weight" wherever the Lean specification says it binds (some entry of the
            # column is finite and not zero - implied by two distinct concentrations)
            sw = fit_view(rep, "spec")["weights"]
            spec_ok = spec_ok and weights_equal(got["weights"], sw)
            if rep["weights_finite_required"]:
                if not rep["spec_weights_finite"]:
                    raise core.InternalError("driver: specification weights not finite under hasNonzero (contradicts weights_finite_of_nonzero)")
                spec_ok = spec_ok and weights_finite_where_finite(rows if name in ("hist", "table") else vrows, weighting, got["weights"])
                n_finite_required += 1
            if not fitted:
                spec.append({"gradient": 1.0, "intercept": 0.0, "rsq": None, "error": None})
                ok = is_identity(got)
                spec_ok, model_ok = spec_ok and ok, model_ok and ok
                continue
            spec.append(spec_fit)
            if not hyp or undet:
                continue
            spec_ok = spec_ok and fit_close(got, spec_fit, base, check_rsq, TOL=tol_fit)
            m_ok = fit_close(got, mv, base, check_rsq, TOL=tol_fit)
            if m_ok and isinstance(got["error"], float) and mv["error"] is not None and spec_fit["error"] is not None:
                # `error` against the mechanism's value and against its own specification (residual variance with
                # raw sums about the textbook line; equal by `err2_is_residual_variance`)
                scale = max([abs(y) for _, y in clean_rows] + [0.0]) + abs(mv["intercept"]) \
                    + abs(mv["gradient"]) * max([abs(x) for x, _ in clean_rows] + [0.0])
                # the fitted values (hence the residuals) of a least-squares problem solved in floating point are good
                # to eps * kappa relative to the data, kappa = 2/sqrt(rho)
                etol = max(1e-9, 64 * 2.0 ** -52 * 2.0 / math.sqrt(rho))
                m_ok = abs(got["error"] - mv["error"]) <= 1e-7 * mv["error"] + etol * scale \
                    and abs(got["error"] - spec_fit["error"]) <= 1e-7 * spec_fit["error"] + etol * scale
            elif m_ok:
                m_ok = False
            model_ok = model_ok and m_ok
        feats = self.fit_features(case, clean_rows, fitted, hyp, check_rsq, hist_feats | table_feats)
        if dominant:  # always counted in the evidence; only r² is skipped, gradient/intercept are still compared
            feats = set(feats) | {"dominant-weight(1-Σw²/(Σw)²<1e-12: r2 not compared)"}
        if feats and fitted and hyp:
            if abs(spec_fit["gradient"] - 1.0) <= 1e-3:
                feats = set(feats) | {"same-unit-response(|gradient-1|<=1e-3)"}
            if max(x for x, _ in clean_rows) <= 1e-6:
                feats = set(feats) | {"trace-level-ladder(max x<=1e-6)"}
        if feats and n_finite_required:
            feats = set(feats) | {"weights:finite-clause-binds"}
        if feats and weighting in BUILTIN and weighting != "Equal" and not n_finite_required and rows:
            feats = set(feats) | {"weights:only-zeros-and-NaN(clause does not bind)"}
        return outcome({"variants": impl}, {"variants": model}, {"variants": spec}, spec_ok=spec_ok, model_ok=model_ok,
                       undetermined=undet, hyp=(hyp or not fitted), features=feats,
                       note=f"variants: clean, given, {len(case['perms'])} permutations, refit, {nhist} histories")

    def fit_features(self, case, clean, fitted, hyp, check_rsq, hist_feats=()):
        rows, w = case["rows"], case["weighting"]
        f = {"w:" + (w if case["cw"] is None else "custom"), f"usable{min(len(clean), 6)}{'+' if len(clean) > 6 else ''}"}
        nanrows = [r for r in rows if is_nan_row(r)]
        nontrivial = False
        if hist_feats:  # the fit was also reached through at least one history on one object
            f |= set(hist_feats)
            nontrivial = True
        if nanrows:
            nontrivial = True
            for r in nanrows:
                f.add("nan-row:" + ("both" if r[0] is None and r[1] is None else "x" if r[0] is None else "y"))
            if is_nan_row(rows[0]):
                f.add("nan-row-first")
            if is_nan_row(rows[-1]):
                f.add("nan-row-last")
            col = 1 if (case["cw"] is None and "y" in w) else 0
            vals = [r[col] for r in clean if r[col] != 0]
            zeros = [r for r in clean if r[col] == 0]
            stray = [r[col] for r in nanrows if r[col] is not None]
            if zeros and vals and any(0 < s < min(vals) for s in stray) and w != "Equal" and case["cw"] is None:
                f.add("nan-row-below-smallest-level-with-zero-level")
            if zeros and not vals and any(s != 0 for s in stray):
                f.add("nan-row-only-nonzero-level")
        if any(x == 0 for x, _ in clean):
            f.add("zero-level")
            nontrivial = True
        if len(set(x for x, _ in clean)) < len(clean):
            f.add("replicate-levels")
        if case["perms"]:
            nontrivial = True
            m = len(rows)
            f.add("perms:all" if len(case["perms"]) == math.factorial(m) - 1 else "perms:sampled")
        if case["cw"] is not None:
            f.add("custom-weights")
            f |= label_features(w)
            nontrivial = True
        if not fitted:
            f.add("few-points->identity")
            nontrivial = True
            if not rows:
                f.add("no-rows")
        elif not hyp:
            f.add("outside-hypothesis(same x / weights)")
        else:
            xs = [x for x, _ in clean if x > 0]
            ys = [y for _, y in clean if y > 0]
            if xs and max(xs) / min(xs) >= 1000:
                f.add("x-over-3-decades")
            if ys and max(ys) / min(ys) >= 1000:
                f.add("y-over-3-decades")
            if not check_rsq:
                f.add("constant-y(r2 not compared)")
            if len(clean) == 2:
                f.add("two-usable-rows")
            if len(clean) >= 20:
                f.add("long-table(>=20 usable rows)")
            lv = sorted(set(x for x, _ in clean))
            if len(lv) == 2 and len(clean) > 2:
                f.add("two-levels-with-replicates")
            mx = max(abs(x) for x in lv)
            if mx > 0 and (lv[-1] - lv[0]) <= 1e-5 * mx:
                f.add("level-spread<=1e-5-of-mean")
            if mx <= 1e-6 or mx >= 1e6:
                f.add("ladder-scale:" + ("<=1e-6" if mx <= 1e-6 else ">=1e6"))
            if ys and (max(ys) >= 1e12 or max(ys) <= 1e-6):
                f.add("response-scale:" + (">=1e12" if max(ys) >= 1e12 else "<=1e-6"))
        return f if nontrivial else []

    def build_cal(self, case, ctx, feats):
        """the Calibration object of a calibrate case -> (cal, g, c, None) or (None, None, None, outcome)"""
        from pewlib.calibration import Calibration

        mode = case["mode"]
        with warnings.catch_warnings():
            warnings.simplefilter("ignore")
            if mode == "line":
                conv = {"float": float, "int": int, "np.float64": np.float64}[case.get("ptype", "float")]
                if conv is int and (case["g"] != round(case["g"]) or case["c"] != round(case["c"])):
                    conv = float
                cal = Calibration(intercept=conv(case["c"]), gradient=conv(case["g"]))
                feats.add("line-as:" + conv.__name__)
            elif mode == "identity":
                cal = Calibration()
            else:
                f = case["fit"]
                pts = np.array([[nan(x), nan(y)] for x, y in f["rows"]], dtype=np.float64).reshape(-1, 2)
                wts = f["weighting"] if f["cw"] is None else (f["weighting"], np.array([nan(w) for w in f["cw"]]))
                try:
                    with np.errstate(all="ignore"):
                        cal = Calibration.from_points(pts, weights=wts)
                except Exception:
                    # the fit itself failed: judge it as a fit case (hypothesis logic lives there)
                    return None, None, None, self.eval_fit({"kind": "fit", "rows": f["rows"], "weighting": f["weighting"],
                                                            "cw": f["cw"], "perms": []}, ctx)
        g, c = float(cal.gradient), float(cal.intercept)
        if not (math.isfinite(g) and math.isfinite(c)) or g == 0.0:
            return None, None, None, outcome({}, {}, {}, hyp=False, features=[],
                                             note="degenerate fitted calibration (outside hypothesis)")
        if mode in ("identity", "few"):
            feats.add("identity-calibration")
            if not (g == 1.0 and c == 0.0):
                return None, None, None, outcome({"gradient": g, "intercept": c}, {"gradient": 1.0, "intercept": 0.0},
                                                 {"gradient": 1.0, "intercept": 0.0}, features=feats)
        if g == 1.0 and c == 0.0:
            feats.add("identity-shortcut")
        return cal, g, c, None

    def eval_cal_data(self, case, ctx):
        """calibrate on a data array of any image dtype / byte order / memory layout (see `build_data`)"""
        built = build_data(case)
        if built is None or case.get("mode") not in ("line", "identity", "fitted", "few"):
            return outcome({}, {}, {}, hyp=False, features=[], note="malformed data case (not judged)")
        dt, arg, exact = built
        shape, mode, layout = case["shape"], case["mode"], case.get("layout", "c")
        feats = {f"cal:{mode}"} | data_features(dt, layout, shape, exact)
        cal, g, c, early = self.build_cal(case, ctx, feats)
        if early is not None:
            return early
        identity = g == 1.0 and c == 0.0
        int_line = isinstance(cal.gradient, int) or isinstance(cal.intercept, int)
        if any(isinstance(v, float) and math.isinf(v) for v in exact):
            return outcome({}, {}, {}, hyp=False, features=[], note="infinite data (outside the quantifier): not judged")
        rep = ctx.driver.call("c06.calibrate_data", gradient=core.rat(g), intercept=core.rat(c),
                              responses=[None if (isinstance(v, float) and v != v) else core.rat(v) for v in exact])
        if not rep["on_line"] or rep["identity"] != identity:
            raise core.InternalError("driver: the specified concentrations do not lie on the line (contradicts calibrate_eq_iff_on_line)")
        model = {"shape": list(shape), "data": [qf(v) for v in rep["model"]]}
        spec = {"shape": list(shape), "data": [qf(v) for v in rep["spec"]]}
        if not identity:
            big = [abs(v) for v in [g, c, c / g] + [x for x in exact if x == x] + [x for x in spec["data"] if x is not None]]
            if dt.kind == "f" and dt.itemsize == 4 and (max(big) > F4_MAX or abs(g) < 1.0 / F4_MAX):
                return outcome({}, {}, {}, undetermined=True, features=feats | {"data:binary32-range-not-judged"},
                               note="binary32 arithmetic may overflow / underflow: not judged")
            if int_line and dt.kind in "iu":
                # a line given as Python ints on integer data: NumPy subtracts in the data's own integer type (wraps
                # around, or refuses an intercept outside the dtype's range).  Lines from a fit are np.float64 and the
                # constructor's parameters are typed float: outside the quantifier, recorded only (notes/EC06.md)
                info = np.iinfo(dt)
                ci = int(cal.intercept)
                if not (info.min <= ci <= info.max) or any(not (info.min <= v - ci <= info.max) for v in exact):
                    return outcome({}, {}, {}, hyp=False,
                                   features=feats | {"int-line-on-int-data:wraps-in-the-data-dtype(recorded only)"},
                                   note="Python-int line on integer data outside the dtype's range: not judged")
        try:
            with np.errstate(all="ignore"), warnings.catch_warnings():
                warnings.simplefilter("ignore")
                out = cal.calibrate(arg)
            impl = observe_data(exact, out)
        except Exception as e:
            impl = {"raises": type(e).__name__, "msg": str(e)[:200]}
        if "raises" in impl:
            return outcome(impl, model, spec, spec_ok=False, model_ok=False, features=feats)
        m_ok, s_ok = judge_data(impl, model, spec, shape, g, c, dt, identity)
        if impl.get("dtype") is not None:
            feats.add("result-dtype:" + ("same-as-data" if impl["dtype"] == dt.str else impl["dtype"][1:]))
        return outcome(impl, model, spec, spec_ok=s_ok, model_ok=m_ok, features=feats)

    def eval_cal(self, case, ctx):
        if "dtype" in case or "data" in case:
            return self.eval_cal_data(case, ctx)
        shape, mode = case["shape"], case["mode"]
        conc = np.array([nan(v) for v in case["conc"]], dtype=np.float64).reshape(shape)
        feats = {f"cal:{mode}", f"ndim{len(shape)}"}
        if conc.size == 0:
            feats.add("empty-array")
        if np.isnan(conc).any():
            feats.add("nan-data")
        cal, g, c, early = self.build_cal(case, ctx, feats)
        if early is not None:
            return early
        near = line_class(g, c) == "near-identity"
        if near:
            feats |= {"near-identity", "near-identity:|g-1|" + near_bin(g - 1.0), "near-identity:|c|" + near_bin(c),
                      "near-identity:" + ("fitted" if mode == "fitted" else "given")}
            finite = conc[np.isfinite(conc)]
            if finite.size and np.max(np.abs(finite)) <= 1e-6:
                feats.add("near-identity:trace-level-data(<=1e-6)")
        with np.errstate(all="ignore"):
            resp = np.asarray(g * conc + c, dtype=np.float64)
        if not np.all(np.isfinite(resp) | np.isnan(resp)):
            return outcome({}, {}, {}, hyp=False, features=[], note="overflow while building the inputs")
        arg = resp.copy()
        try:
            with np.errstate(all="ignore"):
                out = cal.calibrate(arg)
            out = np.asarray(out)
            impl = {"shape": list(out.shape), "data": [fnum(v) for v in out.ravel().astype(np.float64)]}
        except Exception as e:
            impl = {"raises": type(e).__name__, "msg": str(e)[:200]}
        rep = ctx.driver.call("c06.calibrate", gradient=core.rat(g), intercept=core.rat(c),
                              responses=[orat(float(v)) for v in resp.ravel()],
                              concentrations=[orat(float(v)) for v in conc.ravel()])
        if not rep["on_line"]:
            raise core.InternalError("driver: calibrate on the exact line does not return the concentrations (contradicts calibrate_inverts)")
        model = {"shape": list(shape), "data": [qf(v) for v in rep["model"]]}
        spec = {"shape": list(shape), "data": [qf(v) for v in rep["spec"]]}
        if "raises" in impl:
            return outcome(impl, model, spec, spec_ok=False, model_ok=False, features=feats)
        m_ok, s_ok = judge_calibrate(impl, model, spec, shape, resp, g, c)
        nontrivial = len(shape) != 1 or (g == 1.0 and c == 0.0) or near or "nan-data" in feats
        return outcome(impl, model, spec, spec_ok=s_ok, model_ok=m_ok, features=feats if nontrivial else [])

    def eval_session(self, case, ctx):
        """one object, several operations; judged: the line the object holds after every operation that sets it
        (exactly, against the state of `Pew.Calib.finalState`; a refit on two or more usable rows stores polyfit's
        line, which is adopted - fits are judged by the fit cases) and every array returned by calibrate
        (`Pew.Calib.run`), as in a calibrate case"""
        from pewlib.calibration import Calibration

        shape, start = case["shape"], case["start"]
        if "data" in case or "dtype" in case:
            conc, concs = None, None
        else:
            conc = np.array([nan(v) for v in case["conc"]], dtype=np.float64).reshape(shape)
            concs = [orat(float(v)) for v in conc.ravel()]
        trivial = outcome({}, {}, {}, hyp=False, features=[], note="session not judged (degenerate line / malformed)")
        ok_num = lambda v: isinstance(v, (int, float)) and math.isfinite(v)
        if start is not None and not (ok_num(start["g"]) and ok_num(start["c"]) and start["g"] != 0):
            return trivial
        impl_steps, drv_steps, resps, via = [], [], [], []
        # a session on a data array of some image dtype: the same image is calibrated at every call (the calibration
        # changes, the image does not); specified by the formula on the image's own elements (see `build_data`)
        data_mode = "data" in case or "dtype" in case
        dt = exact = None
        if data_mode:
            built = build_data(case)
            if built is None or any(isinstance(v, float) and math.isinf(v) for v in built[2]):
                return trivial
            dt, _, exact = built
            exact_r = [None if (isinstance(v, float) and v != v) else core.rat(v) for v in exact]
            if start is not None:
                start = {"g": float(start["g"]), "c": float(start["c"])}
        with warnings.catch_warnings():
            warnings.simplefilter("ignore")
            cal = Calibration() if start is None else Calibration(intercept=start["c"], gradient=start["g"])
            how = "constructor"
            for st in case["steps"]:
                if st["op"] == "assign":
                    if not (ok_num(st["g"]) and ok_num(st["c"])) or st["g"] == 0:
                        break
                    cal.gradient, cal.intercept = (float(st["g"]), float(st["c"])) if data_mode else (st["g"], st["c"])
                    how = "assign"
                    drv_steps.append({"op": "assign", "g": core.rat(st["g"]), "c": core.rat(st["c"])})
                    impl_steps.append({"line": [float(cal.gradient), float(cal.intercept)]})
                elif st["op"] == "refit":
                    rows, w, cw = st["rows"], st["weighting"], st["cw"]
                    if any(len(r) != 2 for r in rows) or (cw is None) != (w in BUILTIN) or \
                            (cw is not None and (len(cw) != len(rows) or
                                                 any(cw[i] is None and not is_nan_row(r) for i, r in enumerate(rows)))):
                        break
                    try:
                        with np.errstate(all="ignore"):
                            cal.points = np_points(rows)
                            cal.weights = np_weights(w, cw)
                            cal.update_linreg()
                    except Exception:
                        # the fit itself failed: judge it as a fit case (hypothesis logic lives there)
                        return self.eval_fit({"kind": "fit", "rows": rows, "weighting": w, "cw": cw, "perms": []}, ctx)
                    how = "refit"
                    g, c = cal.gradient, cal.intercept
                    obs = [core.rat(float(g)), core.rat(float(c))] if ok_num(float(g)) and ok_num(float(c)) else None
                    drv_steps.append({"op": "refit", "weighting": w, "custom": cw is not None, "observed": obs, "rows": [
                        [orat(nan(x)), orat(nan(y)), None if cw is None else orat(nan(cw[i]))] for i, (x, y) in enumerate(rows)]})
                    impl_steps.append({"line": None if obs is None else [float(g), float(c)]})
                    if obs is None or float(g) == 0.0:  # not a usable line (inside the hypothesis the fit cases report it)
                        break
                elif st["op"] == "calibrate" and data_mode:
                    g, c = float(cal.gradient), float(cal.intercept)
                    if dt.kind == "f" and dt.itemsize == 4 and not (g == 1.0 and c == 0.0):
                        mags = [abs(g), abs(c), abs(c / g)] + [abs(v) for v in exact if v == v] + \
                               [abs((v - c) / g) for v in exact if v == v]
                        if max(mags) > F4_MAX or abs(g) < 1.0 / F4_MAX:
                            break  # binary32 arithmetic may overflow: what was judged before stays judged
                    try:
                        with np.errstate(all="ignore"):
                            out = cal.calibrate(build_data(case)[1])
                        impl_steps.append(observe_data(exact, out))
                    except Exception as e:
                        impl_steps.append({"raises": type(e).__name__, "msg": str(e)[:200]})
                    drv_steps.append({"op": "calibrate", "responses": exact_r, "concentrations": None})
                    resps.append(None)
                    via.append(how)
                    how = "same-line"
                elif st["op"] == "calibrate":
                    g, c = float(cal.gradient), float(cal.intercept)
                    with np.errstate(all="ignore"):
                        resp = np.asarray(g * conc + c, dtype=np.float64)
                    if not np.all(np.isfinite(resp) | np.isnan(resp)):
                        break
                    try:
                        with np.errstate(all="ignore"):
                            out = np.asarray(cal.calibrate(resp.copy()))
                        impl_steps.append({"shape": list(out.shape), "data": [fnum(v) for v in out.ravel().astype(np.float64)]})
                    except Exception as e:
                        impl_steps.append({"raises": type(e).__name__, "msg": str(e)[:200]})
                    drv_steps.append({"op": "calibrate", "responses": [orat(float(v)) for v in resp.ravel()], "concentrations": concs})
                    resps.append(resp)
                    via.append(how)
                    how = "same-line"
                else:
                    return trivial
        if not resps:
            return trivial
        rep = ctx.driver.call("c06.session", gradient=core.rat(1.0 if start is None else start["g"]),
                              intercept=core.rat(0.0 if start is None else start["c"]), steps=drv_steps)["steps"]
        model_steps, spec_steps = [], []
        m_ok = s_ok = True
        feats, k, prev = {"session", f"ndim{len(shape)}"}, 0, None
        if data_mode:
            feats |= {"session:data-array"} | data_features(dt, case.get("layout", "c"), shape, exact)
        for got, r in zip(impl_steps, rep):
            g, c = unrat(r["gradient"]), unrat(r["intercept"])
            if r["op"] != "calibrate":
                if r["op"] == "refit" and r["fitted"] and not r["adopted"]:
                    break  # cannot happen: a fitted line that is not usable ends the session above
                line = {"line": [float(g), float(c)]}
                model_steps.append(line)
                spec_steps.append(line)
                if got["line"] is None or Fraction(got["line"][0]) != g or Fraction(got["line"][1]) != c:
                    m_ok = s_ok = False  # e.g. fewer than two usable rows did not reset the line to the identity
                if r["op"] == "refit":
                    feats.add("session:refit-" + ("fitted" if r["fitted"] else "few-points->identity"))
                continue
            if not r["on_line"]:
                raise core.InternalError("driver: calibrate on the exact line does not return the concentrations (contradicts calibrate_inverts)")
            model = {"shape": list(shape), "data": [qf(v) for v in r["model"]]}
            spec = {"shape": list(shape), "data": [qf(v) for v in r["spec"]]}
            model_steps.append(model)
            spec_steps.append(spec)
            if "raises" in got:
                m_ok = s_ok = False
            elif data_mode:
                a, b = judge_data(got, model, spec, shape, float(g), float(c), dt, g == 1 and c == 0)
                m_ok, s_ok = m_ok and a, s_ok and b
            else:
                a, b = judge_calibrate(got, model, spec, shape, resps[k], float(g), float(c))
                m_ok, s_ok = m_ok and a, s_ok and b
            cls = line_class(float(g), float(c))
            feats |= {"session:calibrate-on-" + cls, f"session:{cls}-via-{via[k]}"}
            if prev is not None:
                feats.add(f"session:{prev}->{cls}" if via[k] != "same-line" else "session:calibrate-twice")
            prev = cls
            k += 1
        return outcome({"steps": impl_steps}, {"steps": model_steps}, {"steps": spec_steps}, spec_ok=s_ok, model_ok=m_ok,
                       features=feats, note=f"session: {len(drv_steps)} operations, {len(resps)} calibrate calls")

    # ------------------------------------------------------------------ shrinking
    def shrink(self, case):
        if case["kind"] != "fit":
            if case["kind"] == "session":
                steps = case["steps"]
                for k in range(len(steps)):
                    yield {**case, "steps": steps[:k] + steps[k + 1:]}
                if case["start"] is not None:
                    yield {**case, "start": None}
            if "data" in case and isinstance(case.get("shape"), list):
                if len(case["shape"]) > 1 or (case["shape"] and case["shape"][0] > 1):
                    for i in range(len(case["data"])):
                        yield {**case, "shape": [1], "data": case["data"][i:i + 1]}
                if case.get("layout", "c") != "c":
                    yield {**case, "layout": "c"}
                if isinstance(case.get("dtype"), str) and case["dtype"][0] == ">":
                    yield {**case, "dtype": "<" + case["dtype"][1:]}
                return
            if len(case["shape"]) > 1 or (case["shape"] and case["shape"][0] > 1):
                for i in range(len(case["conc"])):
                    yield {**case, "shape": [1], "conc": case["conc"][i:i + 1]}
            return
        rows, cw, perms = case["rows"], case["cw"], case["perms"]
        hists = case.get("hists", [])
        if len(hists) > 1:
            for h in hists:
                yield {**case, "hists": [h]}
        if hists and perms:
            yield {**case, "perms": []}
        if len(hists) == 1:
            h = hists[0]
            for k in range(1, len(h["ops"])):
                yield {**case, "hists": [{**h, "ops": h["ops"][:k] + h["ops"][k + 1:]}]}
            yield {**case, "hists": []}
        if len(perms) > 1:
            for p in perms:
                yield {**case, "perms": [p]}
            yield {**case, "perms": []}
        elif perms:
            yield {**case, "perms": []}
        for i in range(len(rows)):
            keep = [j for j in range(len(rows)) if j != i]
            newp = []
            for p in perms:
                q = [j - (j > i) for j in p if j != i]
                if q != list(range(len(q))):
                    newp.append(q)
            yield {**case, "rows": [rows[j] for j in keep], "cw": None if cw is None else [cw[j] for j in keep], "perms": newp,
                   "hists": [drop_row(h, i, len(rows)) for h in hists]}
        for i, r in enumerate(rows):
            for k in (0, 1):
                if r[k] is not None and r[k] != float(round(r[k])) and abs(r[k]) >= 1:
                    nr = list(r)
                    nr[k] = float(round(r[k]))
                    yield {**case, "rows": rows[:i] + [nr] + rows[i + 1:]}


PROP = C06()

if __name__ == "__main__":
    sys.exit(core.main(PROP, "harness.c06"))
