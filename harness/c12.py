"""C12 — FFT registration: pewlib.process.register.fft_register_offset / anchor_offset (and
overlap_arrays at the estimated offset) against PewModel/Register.lean.

A case cuts two windows A, B out of one generated scene; the true translation is offB - offA.
The driver evaluates the mechanism model (zero padding, circular correlation, first maximum,
decode) and the specification (exact linear cross-correlation over the lag box: its maximum, the
lag of the maximum and the largest value among the other lags).  A part of a case is compared whenever
the exact maximum is well separated (relative margin >= 5 %): the implementation's estimate against the
lag of the specification's maximum (theorems peak_margin_unique / peak_margin_register make the margin
imply that the mechanism returns that lag) and against the mechanism model, wherever that maximum sits.
Whether it sits at the true translation is a feature of the case ("peak-at-truth"); the driver also
evaluates the decidable scene hypothesis `truthHyp` of theorem register_truth ("estimate = true
translation"): where it holds the driver itself checks that the peak lag is the true translation.
The merge clause is compared when the maximum is well separated and at the true translation, in replace
and mean modes with fills NaN, 0 and 2.5 (theorem merge_whole: the driver's `spec` is `mergeSpec`).

Scale classes: a case may carry `scale` = {"pow2": k} (scene * 2**k, exact) or {"dec": "1e-9"} (scene * float("1e-9"),
rounded once per pixel); the driver always receives the exact rational value of every float64 pixel that pewlib
receives, whatever the scale.

Histories (`kind: hist`): 2-3 steps on ONE pair of array objects (frame buffers) that are refreshed IN PLACE between the
calls (windows moved over a feature on an empty background: both sums stay the same while the true translation
changes; the pixels under a window shuffled / flipped / rolled: that buffer's sum stays the same; ordinary edits; the
very same contents again; sometimes a buffer is replaced by a new array object after the old one was released), 1-2
calls per step in the orders ab / ba / aa / bb.  Every call is compared with the specification and the mechanism
model OF THE CONTENTS AT THE TIME OF THAT CALL (the Lean model is a function of the two images: an implementation that
keeps anything from an earlier call differs from it).

Presentations (`pres`): the same pixel values handed to pewlib in another dtype (float32 / float16 / big-endian /
long double / signed and unsigned integers of 1-8 bytes / bool) and memory layout (Fortran order, every second element
of a larger buffer, negative strides, read-only).  A dtype is used only if it holds every value exactly (else float64);
images whose transform numpy computes in single precision must keep their non-zero magnitudes inside [2^-30, 2^30]
and are compared only when the maximum leads by 1e-4 of the product of the 1-norms.

Merging at the estimate: `c12.merge` merges the two images themselves (`placed`), the second at the estimate the
mechanism model returned, against `mergeSpec` of the scene with the windows at the true translation (theorem
merge_at_estimate and its corollaries); the implementation merges at its own estimate.

Long and medium axes: a pair whose model evaluation would cost more than LONG_COST products
goes through `c12.registerLong`: the exact correlation over the WHOLE lag box comes from the integer array twin of
PewModel/RegisterFast.lean, which is PROVED equal to the model (PewTheorems.C12: fastLin_eq_xcorr, fastCirc_eq_xcorrCirc,
peakOfTable_fast_eq_peak, registerOf_fast_eq_register; every dimension, shape, data list, lag).  As a cheap sanity check of
the compiled code the model's own `xcorr` / `xcorrCirc` are still evaluated at the decisive lags (maximum, runner-up, true
translation, the implementation's answer, the mechanism's answer, corners, zero lag, a spread of others) and must equal the
twin there; on every pair below the limit the driver evaluates model and twin over the whole lag box and refuses to answer
if they differ."""
import itertools
import math
import sys
from fractions import Fraction

import numpy as np

from harness import core
from harness.core import Prop, outcome, unrat

ANCHORS = ["top left", "top right", "bottom left", "bottom right", "center"]
MARGIN = Fraction(1, 20)
MASK = "premise-fails"
MERGE_VARIANTS = [(m, f) for m in ("replace", "mean") for f in (None, 0.0, 2.5)]
LONG_COST = 200_000  # products of the model (|s|^2 + |s| |b|) above which the array twin route is used
POW2 = [-150, -40, -30, 30, 60, 150]
DEC = ["1e-12", "1e-9", "1e-6", "1e9"]
SAFE_LO, SAFE_HI = 2.0 ** -200, 2.0 ** 200  # pixel magnitudes for which no product under/overflows in float64
TINY_HI = 2.0 ** -900  # pixels below this magnitude (subnormal / smallest normal numbers) beside ordinary ones: their products
#                        with ordinary pixels (<= 2**200) underflow at worst, far below every margin demanded
TINY_SINGLE_HI = 2.0 ** -100  # the same for images transformed in single precision (ordinary pixels <= 2**30)
SINGLE_LO, SINGLE_HI = 2.0 ** -30, 2.0 ** 30  # the same for images whose transform numpy computes in single precision
SINGLE = ("f4", "f2")  # np.fft keeps float32 (and computes float16 in float32): complex64 transforms
MARGIN_ABS = Fraction(1, 10 ** 9)  # of the product of the 1-norms, double precision transforms
MARGIN_ABS_SINGLE = Fraction(1, 10 ** 4)  # the same for single precision transforms (eps 6e-8, log2 N <= 12)
DTYPES = ("f8", "f4", "f2", ">f8", "g", "i8", "i4", "i2", "i1", "u1", "u2", "u4", "u8", ">i4", "?")
LAYOUTS = ("C", "F", "strided", "rev", "ro")
ORDERS = ("ab", "ba", "aa", "bb")


def fhex(v) -> str:
    v = float(v)
    if math.isnan(v):
        return "nan"
    if v == 0.0:
        return "0"
    return v.hex()


def qhex(j) -> str:
    q = unrat(j)
    return "nan" if q is None else fhex(float(q))


def scale_factor(scale):
    """the float64 factor of a scale description (None: 1.0)"""
    if scale is None:
        return 1.0
    if "pow2" in scale:
        return math.ldexp(1.0, int(scale["pow2"]))
    return float(scale["dec"])


def scale_name(scale):
    return "2^%d" % scale["pow2"] if "pow2" in scale else str(scale["dec"])


def scene_array(sc, scale=None, tiny=None):
    """float64 array: (data / 2**q, exact) * factor (one rounding per pixel unless the factor is a power of two);
    `tiny`: pixels overwritten with k * 2**e (subnormal / smallest normal numbers, exact)"""
    arr = (np.array(sc["data"], dtype=np.float64) / float(2 ** sc["q"])).reshape(sc["shape"])
    f = scale_factor(scale)
    arr = arr if f == 1.0 else arr * np.float64(f)
    if tiny:
        arr = arr.copy()
        for tp in tiny:
            arr.flat[int(tp["idx"])] = math.ldexp(float(int(tp["k"])), int(tp["e"]))
    return arr


def tiny_valid(tiny, size):
    """every entry names a pixel of the scene and a value k * 2**e that float64 holds exactly, below 2**-100 (float32
    subnormals are ordinary float64 numbers; float64 subnormals are below 2**-900; what lies between is left to float_safe)"""
    try:
        for tp in tiny:
            i, k, e = int(tp["idx"]), int(tp["k"]), int(tp["e"])
            if not (0 <= i < size and k != 0 and abs(k) < 2 ** 53 and -1074 <= e <= -100):
                return False
            v = math.ldexp(float(k), e)
            if v == 0.0 or Fraction(v) != Fraction(k) * Fraction(2) ** e or abs(v) >= TINY_SINGLE_HI:
                return False
        return True
    except (KeyError, ValueError, OverflowError, TypeError):
        return False


def cut(arr, w):
    return arr[tuple(slice(o, o + s) for o, s in zip(w["off"], w["shape"]))].copy()


def img_json(arr):
    """the exact rational value of every (finite) float64 entry"""
    data = []
    for v in arr.ravel().tolist():
        n, d = v.as_integer_ratio()
        data.append(n if d == 1 and abs(n) < 2 ** 50 else [str(n), str(d)])
    return {"shape": list(arr.shape), "data": data}


def float_safe(arr):
    """finite, and every non-zero magnitude inside [2**-200, 2**200] or tiny (below 2**-900)"""
    if not np.isfinite(arr).all():
        return False
    nz = np.abs(arr[arr != 0])
    nz = nz[nz >= TINY_HI]
    return nz.size == 0 or (float(nz.min()) >= SAFE_LO and float(nz.max()) <= SAFE_HI)


def only_tiny(arr):
    """an image whose non-zero pixels are all tiny: its correlation is below float resolution, not judged"""
    nz = np.abs(arr[arr != 0])
    return bool(nz.size) and float(nz.max()) < TINY_HI


def alloc(shape, pres):
    """a writable ndarray of the given shape whose dtype / memory layout follow the presentation `pres`
    ({"dtype": one of DTYPES, "layout": one of LAYOUTS}; None: float64, C order).  `strided`: every second element of a
    larger buffer that holds a sentinel between the pixels; `rev`: a view with negative strides"""
    pres = pres or {}
    dt = np.dtype(pres.get("dtype", "f8"))
    layout = pres.get("layout", "C")
    shape = tuple(int(n) for n in shape)
    if layout == "F":
        return np.zeros(shape, dtype=dt, order="F")
    if layout == "strided":
        base = np.full(tuple(2 * n + 1 for n in shape), 1 if dt.kind == "b" else 77, dtype=dt)
        return base[tuple(slice(1, None, 2) for _ in shape)]
    if layout == "rev":
        return np.zeros(shape, dtype=dt)[tuple(slice(None, None, -1) for _ in shape)]
    return np.zeros(shape, dtype=dt)


def pres_ok(content, pres):
    """can the float64 `content` be held exactly in the dtype of the presentation (and, for a dtype whose transform is
    computed in single precision, without products leaving the float32 range)"""
    pres = pres or {}
    dts = pres.get("dtype", "f8")
    if dts not in DTYPES or pres.get("layout", "C") not in LAYOUTS:
        return False
    dt = np.dtype(dts)
    with np.errstate(all="ignore"):
        back = content.astype(dt).astype(np.float64)
    if not np.array_equal(back, content):
        return False
    if dts in SINGLE:
        nz_all = np.abs(content[content != 0])
        nz = nz_all[nz_all >= TINY_SINGLE_HI]
        if nz_all.size and not nz.size:
            return False  # only tiny pixels: the single precision correlation is below resolution
        if nz.size and not (float(nz.min()) >= SINGLE_LO and float(nz.max()) <= SINGLE_HI):
            return False
    return True


def fill_buffer(buf, content):
    """in-place refresh of a buffer (the array object stays the same)"""
    ro = not buf.flags.writeable
    if ro:
        buf.flags.writeable = True
    buf[...] = content
    if ro:
        buf.flags.writeable = False


def present(content, pres):
    """the ndarray handed to pewlib for the float64 `content`: same values, dtype / layout of the presentation; falls
    back to a plain float64 copy when the dtype cannot hold the values exactly.  Returns (array, effective presentation)"""
    if not pres or not pres_ok(content, pres):
        return content.copy(), None
    x = alloc(content.shape, pres)
    x[...] = content
    if pres.get("layout") == "ro":
        x.flags.writeable = False
    return x, pres


def twin_cost(sa, sb):
    """integer products of the array twin over the whole lag box"""
    return int(np.prod([x + y - 1 for x, y in zip(sa, sb)], dtype=object)) * int(np.prod(sb, dtype=object))


SELF_COST = 1_500_000  # a self-registration part above this many twin products is left out (one image with a very long axis)


def model_cost(sa, sb):
    s = int(np.prod([x + y - 1 for x, y in zip(sa, sb)], dtype=object))
    return s * s + s * int(np.prod(sb, dtype=object))


def valid_hist(case):
    """a history case: fixed window shapes, per step the scene data, the two window origins, the calls to make"""
    try:
        shape, sa, sb, steps = case["shape"], case["sa"], case["sb"], case["steps"]
        d = len(shape)
        if not (1 <= d <= 3 and len(sa) == d and len(sb) == d and 1 <= len(steps) <= 6):
            return False
        if any(int(n) < 1 for n in list(shape) + list(sa) + list(sb)):
            return False
        size = int(np.prod(shape))
        if case.get("scale") is not None:
            f = scale_factor(case["scale"])
            if not (math.isfinite(f) and f > 0):
                return False
        for st in steps:
            if len(st["data"]) != size or not st["calls"] or len(st["calls"]) > 4:
                return False
            if any(c not in ORDERS for c in st["calls"]) or any(ch not in "ab" for ch in st.get("fresh", "")):
                return False
            for off, sh in ((st["offA"], sa), (st["offB"], sb)):
                if len(off) != d or any(o < 0 or o + w > n for o, w, n in zip(off, sh, shape)):
                    return False
        return True
    except (KeyError, ValueError, OverflowError, TypeError):
        return False


def valid(case):
    if case["kind"] == "hist":
        return valid_hist(case)
    if case["kind"] != "reg":
        return True
    A, B, sc = case["A"], case["B"], case["scene"]
    d = len(sc["shape"])
    if len(sc["data"]) != int(np.prod(sc["shape"])):
        return False
    scale = case.get("scale")
    if scale is not None:
        try:
            f = scale_factor(scale)
        except (KeyError, ValueError, OverflowError, TypeError):
            return False
        if not (math.isfinite(f) and f > 0):
            return False
    if case.get("tiny") is not None and (scale is not None or not tiny_valid(case["tiny"], len(sc["data"]))):
        return False
    for w in (A, B):
        if len(w["off"]) != d or len(w["shape"]) != d:
            return False
        if any(s < 1 or o < 0 or o + s > n for o, s, n in zip(w["off"], w["shape"], sc["shape"])):
            return False
    t = [ob - oa for oa, ob in zip(A["off"], B["off"])]
    return all(-(b - 1) <= l <= a - 1 for l, a, b in zip(t, A["shape"], B["shape"]))


class C12(Prop):
    id = "C12"
    anchored = ["src/pewlib/process/register.py"]
    cases = {"quick": 700, "thorough": 12000}
    rule = ("two windows (sub-window, super-window, partially overlapping, or equally shaped at a non-zero translation; "
            "1-3 D; every side drawn independently, "
            "odd and even, incl. 1 and 2; translations of either sign inside the lag box) of one generated scene "
            "(signed / sparse / blob / positive / real-valued dyadic texture); a fifth of the pairs at another scale "
            "(integer textures * 2^k, k in -40 -30 +30 +60, exact; real texture * 1e-9 / 1e9), half of those equally shaped "
            "and displaced; long axes (transform length a+b-1 in 1100..1900 or 2100..2700, 1-D, or 2-D with a short second "
            "axis; both signs; equal and very unequal sizes): 10 fixed pairs on every run plus ~0.4 % (quick) / 0.8 % + 24 "
            "(thorough) of the generated pairs; medium sizes (transform lengths 30..1000 1-D, 12..40 2-D, 8..12 3-D; 8 fixed pairs "
            "plus ~4 %); a seventh of the pairs with the scene set to zero outside the overlap of the two windows (the scene "
            "hypotheses of theorems register_truth and register_zero_background then hold); textures also all <= 0, 0/1 masks, "
            "a single non-zero pixel; scales 2^-150 .. 2^150 and 1e-12 .. 1e9; a third of the pairs handed over in another dtype "
            "(f4 f2 >f8 longdouble i1..i8 u1 u2 >i4 bool, only if exact) and memory layout (F order, strided view, negative "
            "strides, read-only); ~16 % histories: 2-3 steps of 1-2 calls on one pair of array objects refreshed in place "
            "between the calls (windows moved over a feature on an empty background, pixels permuted, ordinary edits, unchanged "
            "contents, buffers replaced; orders ab/ba/aa/bb), 11 fixed ones on every run, each call judged on the contents at "
            "the time of the call; non-trivial = the exact cross-correlation "
            "has a maximum >= 5 % above every other lag, so that the pair is compared (whether or not the maximum is at the "
            "true translation: that is a feature); "
            "anchors: every shape pair <= 12 x 12 with the five anchors on every run, plus random larger shapes and extents "
            "beyond 2^31 / 2^32 (zero-stride arrays); "
            "distinct by canonical case hash")
    trusted = ["np.fft.rfftn/irfftn(s=...) compute the circular cross-correlation of the zero padded arrays "
               "(correlation theorem) with an error far below the 5 % margin demanded of compared cases",
               "np.pad / np.argmax (first maximum) / np.unravel_index / np.where as documented",
               "pairs whose model evaluation would need more than 2e5 products (medium and long axes): the exact correlation over the "
               "whole lag box (maximum, runner-up, first maximum of the circular array) is computed by the integer array twin "
               "PewModel/RegisterFast.lean (toFImg / fastLin / fastCirc / peakOfTable / registerOf), which is no longer trusted: "
               "it is proved equal to the model for every number of dimensions, shape, data list and lag (theorems "
               "fastLin_eq_xcorr, fastCirc_eq_xcorrCirc, fastLin_table_eq, fastCirc_table_eq, peakOfTable_fast_eq_peak, "
               "peakOf_fast_eq_peak, registerOf_fast_eq_register; sole hypothesis: both shapes have the same number of axes, "
               "which the driver checks). What remains trusted on that route is what is trusted everywhere: the Lean compiler "
               "producing code that agrees with the kernel's reading of the definitions (Array/Int/Rat runtime). The run-time "
               "comparison of the twin with the model's xcorr and xcorrCirc (decisive lags of each long pair: maximum, runner-up, "
               "true translation, the implementation's answer, the mechanism's answer, corners, zero lag, 12 spread lags; the "
               "whole model output on every pair below the limit, several thousand calls per run) is kept as a sanity check of "
               "exactly that; any difference stops the run (exit 2)"]
    assumptions = ["a pair whose exact cross-correlation maximum leads the runner-up by < 5 % (or by < 1e-9 of the "
                   "product of the 1-norms) is outside the property's premise ('unique, well-separated maximum') and is masked, "
                   "never a violation; a well-separated maximum that is not at the true translation is compared all the same "
                   "(estimate = lag of the maximum), only the merge clause is masked there",
                   "a scaled scene with a non-zero pixel magnitude outside [2^-200, 2^200] (products could under/overflow in "
                   "float64) is not compared (undetermined)",
                   "an image is handed over in a dtype other than float64 only if that dtype holds every pixel exactly; float32 / "
                   "float16 images (numpy transforms them in single precision) only with non-zero magnitudes inside [2^-30, 2^30], not on "
                   "the array twin route, and a part with such an image is compared only if the maximum leads by >= 1e-4 of the product "
                   "of the 1-norms (single precision round-off of the transform stays far below that)",
                   "a self-registration part whose exact evaluation would need more than 1.5e6 integer products (an image with "
                   "an axis above ~870) is left out; the pair itself (ab, ba) is always evaluated"]

    # ------------------------------------------------------------------ generation
    def gen_scene(self, rng, shape, kind):
        size = int(np.prod(shape))
        q = 0
        if kind == "signed":
            data = [rng.randint(-9, 9) for _ in range(size)]
        elif kind == "positive":
            data = [rng.randint(0, 9) for _ in range(size)]
        elif kind == "negative":  # every pixel below zero
            data = [-rng.randint(1, 9) for _ in range(size)]
        elif kind == "clipped":  # nothing above zero and the maximum is exactly zero (background subtracted, positive part clipped)
            data = [-max(0, rng.randint(-5, 9)) for _ in range(size)]
        elif kind == "binary":  # a mask: zeros and ones
            data = [1 if rng.random() < 0.35 else 0 for _ in range(size)]
        elif kind == "single":  # one pixel that is not zero (assemble moves it into the overlap of the two windows)
            data = [0] * size
            data[rng.randrange(size)] = rng.choice([-1, 1]) * rng.randint(1, 40)
        elif kind == "sparse":
            data = [0] * size
            for _ in range(max(1, size // 4)):
                data[rng.randrange(size)] = rng.randint(1, 40)
        elif kind == "blobs":
            arr = np.zeros(shape, dtype=int)
            for _ in range(rng.randint(1, 4)):
                lo = [rng.randrange(n) for n in shape]
                hi = [min(n, l + rng.randint(1, max(1, n // 2))) for l, n in zip(lo, shape)]
                arr[tuple(slice(l, h) for l, h in zip(lo, hi))] += rng.randint(1, 9)
            data = [int(v) for v in arr.ravel()]
        else:  # real: signed multiples of 2**-10
            q = 10
            data = [rng.randint(-8000, 8000) for _ in range(size)]
        return {"shape": list(shape), "data": data, "q": q}

    def pick_scale(self, rng, kind):
        """integer textures: * 2**k (exact); real texture: * 1e-9 / 1e9 (rounded), sometimes * 2**k"""
        if kind == "real" and rng.random() < 0.75:
            return {"dec": rng.choice(DEC)}
        return {"pow2": rng.choice(POW2)}

    def assemble(self, rng, sa, sb, t, kind, rel, scale=None, extra=None):
        """scene around the union of A (origin) and B (displaced by t), windows cut from it"""
        d = len(sa)
        org = [min(0, l) for l in t]
        end = [max(a, l + b) for a, b, l in zip(sa, sb, t)]
        # some margin of scene around the union, so that windows are not the whole scene
        pad_lo = [rng.randint(0, 1) for _ in range(d)]
        pad_hi = [rng.randint(0, 1) for _ in range(d)]
        shape = [e - o + p + r for o, e, p, r in zip(org, end, pad_lo, pad_hi)]
        scene = self.gen_scene(rng, shape, kind)
        offA = [-o + p for o, p in zip(org, pad_lo)]
        offB = [oa + l for oa, l in zip(offA, t)]
        if extra and extra.get("bg") == "zero":
            # texture only inside the overlap of the two windows: each window is then the window of the other (zero-extended)
            # at the true translation and carries all of its energy there
            lo = [max(x, y) for x, y in zip(offA, offB)]
            hi = [min(x + p, y + q) for x, p, y, q in zip(offA, sa, offB, sb)]
            arr = np.array(scene["data"], dtype=object).reshape(shape)
            keep = np.zeros(shape, dtype=bool)
            keep[tuple(slice(l, h) for l, h in zip(lo, hi))] = True
            arr[~keep] = 0
            scene["data"] = [int(v) for v in arr.ravel()]
        if kind == "single":
            # the only non-zero pixel lies in the overlap of the two windows (both images see it)
            lo = [max(x, y) for x, y in zip(offA, offB)]
            hi = [min(x + p, y + q) for x, p, y, q in zip(offA, sa, offB, sb)]
            v = rng.choice([-1, 1]) * rng.randint(1, 40)
            arr = np.zeros(shape, dtype=object)
            arr[tuple(rng.randrange(l, h) for l, h in zip(lo, hi))] = v
            scene["data"] = [int(x) for x in arr.ravel()]
        extra = dict(extra) if extra else None
        if extra and extra.get("zero_only"):
            # an all-negative texture with one pixel that is exactly zero, seen by only one of the two windows
            key = extra.pop("zero_only")
            (o1, s1), (o2, s2) = ((offA, sa), (offB, sb)) if key == "a" else ((offB, sb), (offA, sa))
            arr = np.array(scene["data"], dtype=object).reshape(shape)
            own = np.zeros(shape, dtype=bool)
            own[tuple(slice(o, o + n) for o, n in zip(o1, s1))] = True
            own[tuple(slice(o, o + n) for o, n in zip(o2, s2))] = False
            idx = np.flatnonzero(own.ravel())
            if idx.size:
                arr.flat[int(idx[rng.randrange(idx.size)])] = 0
                scene["data"] = [int(v) for v in arr.ravel()]
        tiny = None
        if extra and extra.get("tinyspec"):
            # a few pixels inside the overlap of the two windows hold odd multiples of the smallest subnormal number of the
            # format, or numbers just above the smallest normal one with an odd last mantissa bit; the rest stays ordinary
            spec = extra.pop("tinyspec")
            lo = [max(x, y) for x, y in zip(offA, offB)]
            hi = [min(x + p, y + q) for x, p, y, q in zip(offA, sa, offB, sb)]
            e, mant = (-1074, 52) if spec["fmt"] == "f8" else (-149, 23)
            tiny, seen = [], set()
            for _ in range(spec["n"]):
                pos = tuple(rng.randrange(l, h) for l, h in zip(lo, hi))
                flat = int(np.ravel_multi_index(pos, shape))
                if flat in seen:
                    continue
                seen.add(flat)
                k = (2 * rng.randint(0, 40) + 1) if rng.random() < 0.6 else (2 ** mant + 2 * rng.randint(0, 2 ** (mant - 1) - 1) + 1)
                tiny.append({"idx": flat, "k": rng.choice([-1, 1]) * k, "e": e})
        case = {"kind": "reg", "texture": kind, "rel": rel, "scene": scene,
                "A": {"off": offA, "shape": list(sa)}, "B": {"off": offB, "shape": list(sb)}}
        if tiny:
            case["tiny"] = tiny
        if scale is not None:
            case["scale"] = scale
        if extra:
            case.update(extra)
        return case

    def axis(self, rng, rel, a, b):
        """sizes and translation of one axis for a relation; a, b are the proposed sides"""
        if rel == "sub":  # B inside A
            b = min(a, b)
            l = rng.randint(0, a - b)
        elif rel == "far":  # a small B near the far end of A: lags beyond ceil(s/2)
            b = max(1, min(b, a // 3))
            l = rng.randint(max(0, a - b - 1), a - b)
        elif rel == "super":  # A inside B
            a = min(a, b)
            l = -rng.randint(0, b - a)
        else:
            if rel == "equal":  # two equally shaped windows
                b = a
            # keep a substantial overlap most of the time
            if rng.random() < 0.7:
                lo, up = -((b - 1) // 2), (a - 1) // 2
            else:
                lo, up = -(b - 1), a - 1
            l = rng.randint(lo, up)
        return a, b, l

    def gen_long(self, rng, tier):
        """one axis whose transform length a+b-1 is far above 1024 (or above 2048); 1-D, or 2-D with a short other axis"""
        d = 1 if rng.random() < 0.7 else 2
        if d == 1:
            S = rng.randint(1100, 1900) if rng.random() < 0.55 else rng.randint(2100, 2700)
        else:
            S = rng.randint(1100, 1300) if rng.random() < 0.85 else rng.randint(2100, 2200)
        rel = rng.choice(["overlap", "overlap", "equal", "sub", "super", "far"])
        if rel in ("overlap", "equal"):
            a = (S + 1) // 2 + (0 if rel == "equal" else rng.randint(-S // 6, S // 6))
            b = S + 1 - a
        elif rel == "super":
            a = rng.randint(16, 200)
            b = S + 1 - a
        else:
            b = rng.randint(16, 200)
            a = S + 1 - b
        a, b, l = self.axis(rng, rel, a, b)
        if rel == "equal" and l == 0:
            l = rng.choice([-1, 1]) * rng.randint(1, (a - 1) // 2)
        sa, sb, t = [a], [b], [l]
        if d == 2:
            x, y, m = self.axis(rng, rel, rng.randint(1, 2), rng.randint(1, 2))
            pos = rng.randrange(2)
            sa.insert(pos, x)
            sb.insert(pos, y)
            t.insert(pos, m)
        kind = rng.choice(["signed", "signed", "sparse", "positive", "real"])
        scale = None
        if rng.random() < 0.25 and (d == 1 or kind != "real"):
            scale = self.pick_scale(rng, kind)
            if d == 2 and "dec" in scale:
                scale = {"pow2": rng.choice(POW2)}
        return self.assemble(rng, sa, sb, t, kind, rel, scale, {"cls": "long"})

    def pick_pres(self, rng, integer, nonneg, binary):
        """a dtype / layout for one image; the dtype is drawn among those that can hold the texture"""
        dts = ["f8", "f8", "f4", "f4", ">f8", "g"]
        if integer:
            dts += ["i8", "i8", "i4", "i2", ">i4", "f2"] + (["u1", "u2"] if nonneg else ["i1"]) + (["?", "?"] if binary else [])
        return {"dtype": rng.choice(dts), "layout": rng.choice(["C", "C", "F", "strided", "rev", "ro"])}

    def gen_hist(self, rng, tier, mode=None, d=None):
        """2-3 registrations in a row on the SAME two array objects (frame buffers), refreshed in place between the
        calls; every call is judged on the contents at the time of the call.
        frame-move: one textured feature on an empty background, both windows keep the feature inside while they move
                    (the sums of both buffers stay the same, the true translation changes);
        permute   : the pixels of the scene under window A (or B, or of the whole scene) are shuffled / flipped / rolled
                    (the sum of that buffer stays the same), the other window is re-cut;
        edit      : ordinary edits (some pixels get new values; or nothing changes at all);
        mixed     : one of the above per step."""
        mode = mode or rng.choice(["frame-move", "frame-move", "permute", "permute", "edit", "mixed"])
        d = d or rng.choice([1, 1, 2, 2, 2, 3])
        hi = {1: 20, 2: 8, 3: 4}[d]
        nsteps = rng.choice([2, 2, 3])
        kind = rng.choice(["signed", "positive", "real", "negative"])
        sa, sb, feat = [], [], []
        for _ in range(d):
            a, b = rng.randint(2, hi), rng.randint(1, hi)
            if rng.random() < 0.6:
                a, b = max(a, b), min(a, b)  # mostly a frame and a smaller tile, sometimes the other way round
            sa.append(a)
            sb.append(b)
            feat.append(rng.randint(1, max(1, min(a, b) - (1 if rng.random() < 0.7 else 0))))
        zero_bg = mode == "frame-move" or (mode == "mixed" and rng.random() < 0.5)
        slack = [rng.randint(1, 4) for _ in range(d)]
        shape = [max(a, b) + k for a, b, k in zip(sa, sb, slack)]
        size = int(np.prod(shape))
        if zero_bg:
            # the feature box somewhere in the scene such that windows of both shapes can hold it in several positions
            fpos = [rng.randint(0, n - f) for n, f in zip(shape, feat)]
            tex = np.array(self.gen_scene(rng, feat, kind)["data"], dtype=object).reshape(feat)
            if not tex.any():
                tex.flat[0] = 3
            arr = np.zeros(shape, dtype=object)
            arr[tuple(slice(o, o + f) for o, f in zip(fpos, feat))] = tex
        else:
            fpos = None
            arr = np.array(self.gen_scene(rng, shape, kind)["data"], dtype=object).reshape(shape)

        def place(w):
            """origin of a window of shape w: anywhere, or (feature scenes) anywhere that keeps the feature inside"""
            if fpos is None:
                return [rng.randint(0, n - x) for n, x in zip(shape, w)]
            return [rng.randint(max(0, o + f - x), min(o, n - x)) for n, x, o, f in zip(shape, w, fpos, feat)]

        def near(offA):
            """origin of B that overlaps A (so that the translation lies in the lag box)"""
            if fpos is not None:
                return place(sb)
            return [rng.randint(max(0, o - (b - 1)), min(n - b, o + a - 1)) for o, a, b, n in zip(offA, sa, sb, shape)]

        offA = place(sa)
        offB = near(offA)
        steps = []
        for k in range(nsteps):
            label = "first"
            if k > 0:
                m = mode if mode != "mixed" else rng.choice(["frame-move", "permute", "edit"])
                if m == "frame-move" or (fpos is not None and m == "permute"):
                    # the windows move (the scene stays); on an empty background the sums stay the same
                    which = rng.choice(["a", "a", "b", "ab"])
                    for _ in range(8):
                        nA = place(sa) if "a" in which else offA
                        nB = near(nA) if ("b" in which or fpos is None) else offB
                        if [y - x for x, y in zip(nA, nB)] != [y - x for x, y in zip(offA, offB)]:
                            break
                    offA, offB = nA, nB
                    label = "move-" + which
                elif m == "permute":
                    target = rng.choice(["a", "a", "b", "scene"])
                    if target == "scene":
                        sl = tuple(slice(0, n) for n in shape)
                    else:
                        off, w = (offA, sa) if target == "a" else (offB, sb)
                        sl = tuple(slice(o, o + x) for o, x in zip(off, w))
                    sub = arr[sl].copy()
                    how = rng.choice(["shuffle", "shuffle", "flip", "roll"])
                    if how == "shuffle":
                        flat = list(sub.ravel())
                        rng.shuffle(flat)
                        sub = np.array(flat, dtype=object).reshape(sub.shape)
                    elif how == "flip":
                        ax = rng.randrange(d)
                        sub = np.flip(sub, axis=ax)
                    else:
                        ax = rng.randrange(d)
                        sub = np.roll(sub, rng.randint(1, max(1, sub.shape[ax] - 1)), axis=ax)
                    arr = arr.copy()
                    arr[sl] = sub
                    if rng.random() < 0.5:
                        if target == "a":
                            offB = near(offA)
                        elif target == "b":
                            offA = [rng.randint(max(0, o - (a - 1)), min(n - a, o + b - 1))
                                    for o, a, b, n in zip(offB, sa, sb, shape)]
                    label = "permute-" + target + ":" + how
                else:
                    r = rng.random()
                    if r < 0.2:
                        label = "edit:none"  # the very same contents again
                    else:
                        arr = arr.copy()
                        nz = [i for i in range(size) if arr.flat[i] != 0] or [0]
                        for _ in range(rng.randint(1, max(1, size // 5))):
                            i = rng.choice(nz) if (fpos is not None and rng.random() < 0.8) else rng.randrange(size)
                            arr.flat[i] = arr.flat[i] + rng.choice([-5, -1, 1, 2, 5]) * (1 if kind != "real" else 512)
                        label = "edit:values"
                        if rng.random() < 0.4:
                            offA = place(sa)
                            offB = near(offA)
                            label = "edit:values+move"
            r = rng.random()
            calls = (["ab"] if r < 0.45 else ["ba"] if r < 0.65 else ["ab", "ba"] if r < 0.8 else ["ab", "ab"] if r < 0.85
                     else ["aa"] if r < 0.9 else ["bb"] if r < 0.95 else ["ba", "ab"])
            fresh = "" if (k == 0 or rng.random() < 0.8) else rng.choice(["a", "b", "ab"])
            steps.append({"data": [int(v) for v in arr.ravel()], "offA": list(offA), "offB": list(offB), "calls": calls,
                          "fresh": fresh, "label": label})
        case = {"kind": "hist", "mode": mode, "texture": kind, "q": 10 if kind == "real" else 0, "shape": shape,
                "sa": sa, "sb": sb, "steps": steps}
        if rng.random() < 0.3:
            integer = kind != "real"
            case["presA"] = self.pick_pres(rng, integer, kind == "positive", False)
            case["presB"] = self.pick_pres(rng, integer, kind == "positive", False)
        if rng.random() < 0.12:
            case["scale"] = self.pick_scale(rng, kind)
        return case

    def gen_counts(self, rng, d=None, dts=None, kind=None):
        """integer images with large counts (pixels up to ~1e9 .. 1e10, both images of an integer dtype): the correlation
        peak exceeds 2**63 while float64 still separates the maximum"""
        d = d or rng.choice([1, 2, 2, 3])
        hi = {1: 24, 2: 9, 3: 5}[d]
        kind = kind or rng.choice(["signed", "positive", "sparse", "clipped", "binary"])
        rel = rng.choice(["sub", "super", "overlap", "overlap", "equal", "far"])
        sa, sb, t = [], [], []
        for _ in range(d):
            a, b, l = self.axis(rng, rel, rng.randint(2, hi), rng.randint(2, hi))
            sa.append(a)
            sb.append(b)
            t.append(l)
        if rel == "equal" and not any(t):
            t[0] = rng.choice([-1, 1]) * rng.randint(1, max(1, (sa[0] - 1) // 2))
        scale = rng.choice([{"dec": "1e9"}, {"dec": "3e9"} if kind == "binary" else {"dec": "7e8"}, {"pow2": 30}, {"pow2": 31}])
        nonneg = kind in ("positive", "sparse", "binary")
        dts = dts or rng.choice([("i8", "i8"), ("i8", "i8"), ("u8", "u8"), ("i8", "u8"), ("u4", "u4")] if nonneg else [("i8", "i8")])
        lay = lambda: rng.choice(["C", "C", "F", "strided", "rev", "ro"])
        extra = {"cls": "counts", "pres": {"a": {"dtype": dts[0], "layout": lay()}, "b": {"dtype": dts[1], "layout": lay()}}}
        if rng.random() < 0.3:
            extra["bg"] = "zero"
        return self.assemble(rng, sa, sb, t, kind, rel, scale, extra)

    def gen_medium(self, rng, tier):
        """sizes between the small pairs and the long axes: transform lengths 30..1000 (1-D), 12..40 per axis (2-D),
        8..12 (3-D) - around 32, 64, 128, 256, 512 and well between them; any relation, both signs"""
        d = rng.choice([1, 1, 1, 2, 2, 3])
        rel = rng.choice(["sub", "super", "overlap", "overlap", "far", "equal"])
        sa, sb, t = [], [], []
        for i in range(d):
            if d == 1:
                S = rng.choice([rng.randint(30, 1000), rng.choice([32, 64, 128, 256, 512]) + rng.randint(-2, 3)])
            elif d == 2:
                S = rng.randint(12, 40)
            else:
                S = rng.randint(8, 12)
            if rel in ("overlap", "equal"):
                a = (S + 1) // 2 + (0 if rel == "equal" else rng.randint(-(S // 6), S // 6))
                b = S + 1 - a
            elif rel == "super":
                a = rng.randint(1, max(1, S // 3))
                b = S + 1 - a
            else:
                b = rng.randint(1, max(1, S // 3))
                a = S + 1 - b
            a, b, l = self.axis(rng, rel, max(1, a), max(1, b))
            sa.append(a)
            sb.append(b)
            t.append(l)
        if rel == "equal" and not any(t):
            i = rng.randrange(d)
            if sa[i] > 1:
                t[i] = rng.choice([-1, 1]) * rng.randint(1, max(1, (sa[i] - 1) // 2))
        kind = rng.choice(["signed", "signed", "sparse", "positive", "real", "negative"])
        scale = self.pick_scale(rng, kind) if rng.random() < 0.15 else None
        return self.assemble(rng, sa, sb, t, kind, rel, scale, {"cls": "medium"})

    def generate(self, rng, tier):
        if rng.random() < 0.04:
            if rng.random() < 0.25:
                # extents beyond 2**31 / 2**32 on one axis (anchor_offset reads shapes only: zero-stride arrays)
                big = lambda: rng.choice([2 ** 31 - 1, 2 ** 31, 2 ** 32 + 1, 2 ** 33 + rng.randint(0, 9), 10 ** 12 + rng.randint(0, 9)])
                ax = rng.randrange(2)
                side = lambda i: big() if i == ax and rng.random() < 0.8 else rng.randint(1, 60)
                a = [side(0), side(1)]
                bs = [[side(0), side(1)] for _ in range(12)]
                return {"kind": "anchors", "a": a, "bs": bs}
            a = [rng.randint(1, 60), rng.randint(1, 60)]
            bs = [[rng.randint(1, 60), rng.randint(1, 60)] for _ in range(40)]
            return {"kind": "anchors", "a": a, "bs": bs}
        if rng.random() < (0.004 if tier == "quick" else 0.008):
            return self.gen_long(rng, tier)
        if rng.random() < 0.03:
            return self.gen_counts(rng)
        if rng.random() < 0.16:
            return self.gen_hist(rng, tier)
        if rng.random() < 0.04:
            return self.gen_medium(rng, tier)
        d = rng.choice([1, 1, 2, 2, 2, 3])
        hi = {1: 24, 2: 9, 3: 5}[d]
        kind = rng.choice(["signed", "signed", "signed", "sparse", "sparse", "blobs", "positive", "positive", "real", "real",
                           "real", "negative", "negative", "clipped", "clipped", "binary", "single"])
        scale = self.pick_scale(rng, kind) if rng.random() < 0.2 else None
        if scale is not None and rng.random() < 0.5:
            rel = "equal"  # equal shapes, non-zero translation, at every scale
        else:
            rel = rng.choice(["sub", "sub", "super", "overlap", "overlap", "far", "equal"])
        sa, sb, t = [], [], []
        for _ in range(d):
            a = rng.choice([1, 2, 3]) if rng.random() < 0.15 else rng.randint(1, hi)
            b = rng.choice([1, 2, 3]) if rng.random() < 0.15 else rng.randint(1, hi)
            a, b, l = self.axis(rng, rel, a, b)
            sa.append(a)
            sb.append(b)
            t.append(l)
        if rel == "equal" and not any(t):
            # equal shapes are about a non-zero translation (zero translation is the self-registration part)
            ax = [i for i in range(d) if sa[i] > 1]
            if ax:
                i = rng.choice(ax)
                t[i] = rng.choice([-1, 1]) * rng.randint(1, max(1, (sa[i] - 1) // 2))
        extra = {"bg": "zero"} if rng.random() < 0.15 else {}
        if kind == "negative" and rng.random() < 0.5:
            extra["zero_only"] = rng.choice(["a", "b"])
        tiny_fmt = None
        if scale is None and kind in ("signed", "positive", "real", "sparse") and rng.random() < 0.08:
            tiny_fmt = rng.choice(["f8", "f4"])
            extra["tinyspec"] = {"fmt": tiny_fmt, "n": rng.randint(1, 3)}
        if tiny_fmt == "f4":
            lay = lambda: rng.choice(["C", "C", "F", "strided", "rev", "ro"])
            extra["pres"] = {"a": {"dtype": "f4", "layout": lay()}, "b": {"dtype": "f4", "layout": lay()}}
        elif kind in ("negative", "clipped") and rng.random() < 0.7:
            # non-positive textures in single precision, double precision and integer dtypes (also mixed)
            dts = rng.choice([("f4", "f4"), ("f4", "f4"), ("f8", "f8"), ("i8", "i8"), ("i2", "i2"), ("f4", "i2"), ("i1", "f4"), ("f4", "f8")])
            lay = lambda: rng.choice(["C", "C", "F", "strided", "rev", "ro"])
            extra["pres"] = {"a": {"dtype": dts[0], "layout": lay()}, "b": {"dtype": dts[1], "layout": lay()}}
        elif rng.random() < 0.35:
            # the same values in another dtype / memory layout (drawn among the dtypes that can hold the texture)
            integer = kind != "real" and (scale is None or "pow2" in scale and scale["pow2"] >= 0)
            nonneg = kind in ("sparse", "blobs", "positive", "binary")
            binary = kind == "binary" and scale is None
            extra["pres"] = {"a": self.pick_pres(rng, integer, nonneg, binary), "b": self.pick_pres(rng, integer, nonneg, binary)}
        return self.assemble(rng, sa, sb, t, kind, rel, scale, extra or None)

    def targeted(self, tier):
        # anchors: every shape pair <= 12 x 12, the five anchors
        bs = [[b0, b1] for b0 in range(1, 13) for b1 in range(1, 13)]
        for a0 in range(1, 13):
            for a1 in range(1, 13):
                yield {"kind": "anchors", "a": [a0, a1], "bs": bs}
        # the regression inputs of DESIGN 5.12: a = scene[0:100], b = scene[80:100]; equal sizes (odd s)
        rng = core.case_rng(0, self.id, "targeted", 0)
        sc = self.gen_scene(rng, [100], "signed")
        yield {"kind": "reg", "texture": "signed", "rel": "far", "scene": sc,
               "A": {"off": [0], "shape": [100]}, "B": {"off": [80], "shape": [20]}}
        for n, t in ((8, 3), (9, 4), (8, -5), (2, 1), (1, 0), (2, -1)):
            sc = self.gen_scene(rng, [n + abs(t)], "signed")
            yield {"kind": "reg", "texture": "signed", "rel": "overlap", "scene": sc,
                   "A": {"off": [max(0, -t)], "shape": [n]}, "B": {"off": [max(0, t)], "shape": [n]}}
        # every 1-D size pair <= 5 with every translation of the lag box, two textures
        for a in range(1, 6):
            for b in range(1, 6):
                for t in range(-(b - 1), a):
                    lo, hi = min(0, t), max(a, t + b)
                    for kind in ("signed", "sparse"):
                        sc = self.gen_scene(rng, [hi - lo], kind)
                        yield {"kind": "reg", "texture": kind, "rel": "enum", "scene": sc,
                               "A": {"off": [-lo], "shape": [a]}, "B": {"off": [-lo + t], "shape": [b]}}
        # 2-D sub-windows touching each corner of an odd x even image
        sc = self.gen_scene(rng, [7, 10], "signed")
        for o in ([0, 0], [0, 6], [4, 0], [4, 6], [2, 3]):
            yield {"kind": "reg", "texture": "signed", "rel": "sub", "scene": sc,
                   "A": {"off": [0, 0], "shape": [7, 10]}, "B": {"off": o, "shape": [3, 4]}}
        # every scale: equally shaped windows at a non-zero translation (1-3 D), and a sub-window
        rng = core.case_rng(0, self.id, "targeted-scale", 0)
        for scale, kind in ([({"pow2": k}, "signed") for k in POW2] + [({"pow2": k}, "sparse") for k in (POW2[0], POW2[-1])]
                            + [({"dec": x}, "real") for x in DEC]):
            for sa, t in (([16], [-5]), ([5, 6], [2, -3]), ([3, 4, 3], [1, -2, 0])):
                yield self.assemble(rng, sa, sa, t, kind, "equal", scale)
            yield self.assemble(rng, [9, 6], [3, 4], [5, 1], kind, "sub", scale)
        # anchors with extents beyond 2**31 and 2**32 (both orders of the larger image)
        yield {"kind": "anchors", "a": [2 ** 31 + 3, 5], "bs": [[4, 2 ** 32 + 2], [2 ** 33, 5], [7, 3], [2 ** 31, 8]]}
        yield {"kind": "anchors", "a": [6, 9], "bs": [[2 ** 32 + 1, 4], [3, 2 ** 31 + 6]]}
        # long axes: transform length far above 1024 / above 2048, both signs, equal and unequal sizes, 1-D first
        rng = core.case_rng(0, self.id, "targeted-long", 0)
        for sa, sb, t, kind, rel in (
                ([700], [700], [-400], "signed", "equal"),
                ([640], [600], [250], "real", "overlap"),
                ([1200], [1100], [-500], "signed", "overlap"),
                ([1500], [40], [1400], "sparse", "far"),
                ([40], [1500], [-1300], "signed", "super"),
                ([1024], [1025], [-1], "signed", "overlap"),   # s = 2048 exactly
                ([513], [513], [100], "signed", "equal"),      # s = 1025, the first length above 1024
                ([560, 2], [560, 2], [-300, 1], "signed", "equal"),
                ([2, 600], [2, 500], [-1, -200], "signed", "overlap")):
            yield self.assemble(rng, sa, sb, t, kind, rel, None, {"cls": "long"})
        yield self.assemble(rng, [800], [800], [-350], "signed", "equal", {"pow2": -40}, {"cls": "long"})
        # medium sizes: transform lengths between the small pairs and 1024 (around 64, 128, 256, 512 and between), both signs
        rng = core.case_rng(0, self.id, "targeted-medium", 0)
        for sa, sb, t, kind, rel in (
                ([40], [30], [-17], "signed", "overlap"),        # s = 69
                ([100], [60], [-31], "real", "overlap"),         # s = 159
                ([150], [151], [-70], "signed", "overlap"),      # s = 300
                ([40], [500], [-333], "signed", "super"),        # s = 539
                ([450], [450], [-200], "sparse", "equal"),       # s = 899
                ([700], [90], [580], "signed", "far"),           # s = 789, positive and beyond s/2
                ([20, 18], [19, 21], [-9, 7], "signed", "overlap"),
                ([6, 7, 6], [6, 5, 7], [2, -3, -4], "signed", "overlap")):
            yield self.assemble(rng, sa, sb, t, kind, rel, None, {"cls": "medium"})
        if tier == "thorough":
            for i in range(24):
                yield self.gen_long(core.case_rng(0, self.id, "targeted-long", 1 + i), tier)
        # non-positive textures at a non-zero translation: maximum exactly zero in both images (clipped), in one of them only,
        # all pixels below zero; as float32, float64, integers and mixed
        rng = core.case_rng(0, self.id, "targeted-nonpositive", 0)
        for dts in (("f4", "f4"), ("f8", "f8"), ("i8", "i8"), ("f4", "i2"), ("i1", "f4")):
            for sa, sb, t, rel in (([9], [9], [3], "equal"), ([6, 7], [3, 4], [2, 1], "sub"), ([3, 4, 3], [3, 3, 3], [1, -1, 0], "overlap")):
                for kind, ex in (("clipped", {}), ("clipped", {"bg": "zero"}), ("negative", {}), ("negative", {"zero_only": "a"}),
                                 ("negative", {"zero_only": "b"})):
                    if rel == "sub" and ex.get("zero_only") == "b":
                        continue  # b lies inside a: no pixel of its own
                    yield self.assemble(rng, sa, sb, t, kind, rel, None,
                                        {**ex, "pres": {"a": {"dtype": dts[0], "layout": "C"}, "b": {"dtype": dts[1], "layout": "C"}}})
        # a few subnormal / smallest-normal pixels with an odd last mantissa bit inside the overlap, the rest ordinary
        # (registration is decided by the ordinary pixels; the merge clause is judged bit-exactly), float64 and float32
        rng = core.case_rng(0, self.id, "targeted-tiny", 0)
        for fmt in ("f8", "f4"):
            for sa, sb, t, rel in (([10], [10], [3], "equal"), ([6, 7], [4, 4], [1, 2], "sub")):
                for kind, ex in (("positive", {"bg": "zero"}), ("real", {}), ("signed", {"bg": "zero"})):
                    ex = {**ex, "tinyspec": {"fmt": fmt, "n": 3}}
                    if fmt == "f4":
                        ex["pres"] = {"a": {"dtype": "f4", "layout": "C"}, "b": {"dtype": "f4", "layout": "C"}}
                    yield self.assemble(rng, sa, sb, t, kind, rel, None, ex)
        # integer images with large counts (correlation peak above 2**63), 1-3 D, signed / unsigned 64 bit and unsigned 32 bit
        for i, (d, dts, kind) in enumerate(((1, ("i8", "i8"), "signed"), (2, ("i8", "i8"), "positive"), (2, ("u8", "u8"), "positive"),
                                            (3, ("i8", "i8"), "signed"), (2, ("u4", "u4"), "binary"), (1, ("i8", "u8"), "sparse"),
                                            (2, ("i8", "i8"), "clipped"), (2, ("i8", "i8"), "signed"))):
            yield self.gen_counts(core.case_rng(0, self.id, "targeted-counts", i), d, dts, kind)
        # histories on one pair of array objects, refreshed in place between the calls
        rng = core.case_rng(0, self.id, "targeted-hist", 0)
        # a frame buffer that follows a feature on an empty background, a tile that holds the feature (2-D), ab every time
        shape, sa, sb, fpos, feat = [16, 18], [10, 12], [6, 7], [6, 7], [4, 5]
        arr = np.zeros(shape, dtype=object)
        arr[6:10, 7:12] = np.array([rng.randint(1, 30) for _ in range(20)], dtype=object).reshape(4, 5)
        data = [int(v) for v in arr.ravel()]
        yield {"kind": "hist", "mode": "frame-move", "texture": "positive", "q": 0, "shape": shape, "sa": sa, "sb": sb,
               "steps": [{"data": data, "offA": oa, "offB": [5, 6], "calls": calls, "fresh": "", "label": lab}
                         for oa, calls, lab in (([2, 3], ["ab"], "first"), ([0, 1], ["ab"], "move-a"),
                                                ([4, 5], ["ab", "ba"], "move-a"))]}
        # a line whose pixels are shuffled in place, a piece of it re-cut (1-D); then the line flipped
        line = [rng.randint(-40, 40) for _ in range(30)]
        shuffled = list(line)
        rng.shuffle(shuffled)
        yield {"kind": "hist", "mode": "permute", "texture": "signed", "q": 0, "shape": [30], "sa": [30], "sb": [9],
               "steps": [{"data": line, "offA": [0], "offB": [12], "calls": ["ab"], "fresh": "", "label": "first"},
                         {"data": shuffled, "offA": [0], "offB": [5], "calls": ["ab"], "fresh": "", "label": "permute-a:shuffle"},
                         {"data": shuffled[::-1], "offA": [0], "offB": [17], "calls": ["ab", "aa"], "fresh": "",
                          "label": "permute-a:flip"}]}
        # the tile is the first argument and moves (the frame stays): second / first roles exchanged
        yield {"kind": "hist", "mode": "frame-move", "texture": "positive", "q": 0, "shape": shape, "sa": sa, "sb": sb,
               "steps": [{"data": data, "offA": [3, 4], "offB": ob, "calls": ["ba"], "fresh": "", "label": lab}
                         for ob, lab in (([5, 6], "first"), ([3, 5], "move-b"), ([6, 7], "move-b"))]}
        for i, (mode, d) in enumerate((("frame-move", 1), ("frame-move", 2), ("frame-move", 3), ("permute", 1),
                                       ("permute", 2), ("edit", 2), ("mixed", 2), ("mixed", 1))):
            yield self.gen_hist(core.case_rng(0, self.id, "targeted-hist", 1 + i), tier, mode, d)

    def search_extra(self, tier):
        rng = core.case_rng(1, self.id, "search", 0)
        for a in range(1, 13):
            for b in range(1, 13):
                for t in range(-(b - 1), a):
                    lo, hi = min(0, t), max(a, t + b)
                    sc = self.gen_scene(rng, [hi - lo], "signed")
                    yield {"kind": "reg", "texture": "signed", "rel": "enum", "scene": sc,
                           "A": {"off": [-lo], "shape": [a]}, "B": {"off": [-lo + t], "shape": [b]}}

    # ------------------------------------------------------------------ evaluation
    def reg_part(self, ctx, register, x, y, want, single=False):
        """one call of fft_register_offset(x, y) against the driver; returns (impl, model, spec, determined, reply).
        x, y are the very objects handed to pewlib (any dtype / layout; their values are exact in float64: `present`);
        `single`: numpy computes the transform of at least one of them in single precision"""
        long = model_cost(x.shape, y.shape) > LONG_COST
        xf, yf = np.asarray(x, dtype=np.float64), np.asarray(y, dtype=np.float64)
        jx, jy = img_json(xf), img_json(yf)
        n1 = Fraction(float(np.abs(xf).sum())) * Fraction(float(np.abs(yf).sum()))
        raw = None
        try:
            res = register.fft_register_offset(x, y)
            impl = [int(v) for v in res]
            raw = res  # the very object returned (handed on to overlap_arrays as it is)
        except Exception as e:
            impl = {"raises": type(e).__name__, "msg": str(e)[:200]}
        self._raw = raw
        if long:
            # whole lag box by the array twin; the model itself at the decisive lags, among them the true
            # translation and the implementation's answer
            probe = [list(want)] + ([impl] if isinstance(impl, list) and len(impl) == x.ndim and impl != list(want) else [])
            rep = ctx.driver.call("c12.registerLong", a=jx, b=jy, probe=probe, truth=list(want))
            if rep["lag"] == want and (rep["asked"][0] is None or unrat(rep["asked"][0]) != unrat(rep["max"])):
                raise core.InternalError("c12.registerLong: the model's xcorr at the true lag is not the reported maximum")
        else:
            rep = ctx.driver.call("c12.register", a=jx, b=jy, truth=list(want))
        mx = unrat(rep["max"])
        ru = unrat(rep["runner"])
        if ru is None:
            determined = True  # a single lag: nothing to separate
        else:
            determined = (mx > 0 and (mx - ru) >= MARGIN * mx
                          and (mx - ru) >= (MARGIN_ABS_SINGLE if single else MARGIN_ABS) * n1)
        rep["at_truth"] = rep["lag"] == want
        if not determined:
            return MASK, MASK, MASK, False, rep
        # estimate = lag of the unique, well-separated maximum of the specification (wherever it sits)
        return impl, rep["model"], rep["lag"], True, rep

    def evaluate(self, case, ctx):
        from pewlib.process import register

        if case["kind"] == "anchors":
            return self.eval_anchors(case, ctx, register)
        if not valid(case):
            return outcome("invalid", "invalid", "invalid", undetermined=True, hyp=False)
        if case["kind"] == "hist":
            return self.eval_hist(case, ctx, register)
        sc = case["scene"]
        scale = case.get("scale")
        scene = scene_array(sc, scale, case.get("tiny"))
        if not float_safe(scene):
            # a scale that leaves the range in which float64 products neither overflow nor underflow
            return outcome("float-range", "float-range", "float-range", undetermined=True, hyp=False)
        A, B = case["A"], case["B"]
        d = scene.ndim
        a, b = cut(scene, A), cut(scene, B)
        if only_tiny(a) or only_tiny(b):
            return outcome("float-range", "float-range", "float-range", undetermined=True, hyp=False)
        t = [ob - oa for oa, ob in zip(A["off"], B["off"])]
        zero = [0] * d
        impl, model, spec = {}, {}, {}
        feats = set()
        # the arrays handed to fft_register_offset: the same values, possibly in another dtype / memory layout
        pres = case.get("pres") or {}
        costly = model_cost(A["shape"], B["shape"]) > LONG_COST
        pa, pb = [None if (p is not None and costly and p.get("dtype") in SINGLE) else p for p in (pres.get("a"), pres.get("b"))]
        xa, pa = present(a, pa)
        xb, pb = present(b, pb)
        single = any(p is not None and p.get("dtype") in SINGLE for p in (pa, pb))
        parts = [("ab", xa, xb, t), ("ba", xb, xa, [-l for l in t])]
        if a.any() and twin_cost(a.shape, a.shape) <= SELF_COST:
            parts.append(("aa", xa, xa, zero))
        if b.any() and twin_cost(b.shape, b.shape) <= SELF_COST:
            parts.append(("bb", xb, xb, zero))
        det, reps = {}, {}
        for name, x, y, want in parts:
            impl[name], model[name], spec[name], det[name], reps[name] = self.reg_part(ctx, register, x, y, want, single=single)
            if name == "ab":
                raw_ab = self._raw
            if det[name]:
                feats.add(f"{name}:peak-at-truth" if reps[name]["at_truth"] else f"{name}:peak-not-at-truth(compared)")
                if reps[name].get("truthHyp"):
                    feats.add(f"{name}:truth-theorem-applies")
                if reps[name].get("zeroBg"):
                    feats.add(f"{name}:zero-background-theorem-applies")
                    if costly:
                        feats.add("route:array-twin:zero-background-theorem-applies")
        # register, then merge at the estimated offset: the clause presupposes that the estimate is the true translation
        merge_on = det["ab"] and reps["ab"]["at_truth"] and isinstance(impl["ab"], list)
        if merge_on:
            impl["merge"], model["merge"], spec["merge"] = [], [], []
            # the model side merges at the estimate the mechanism model returned (theorem merge_at_estimate), the
            # implementation at its own estimate, the specification is the scene with the windows at the true translation
            rep = ctx.driver.call("c12.merge", scene=img_json(scene), offA=A["off"], offB=B["off"],
                                  shapeA=A["shape"], shapeB=B["shape"], est=reps["ab"]["model"],
                                  variants=[{"mode": m, "fill": None if f is None else core.rat(Fraction(f))}
                                            for m, f in MERGE_VARIANTS])
            # the arrays merged: float64 copies, or the presented float32 arrays themselves (canvas dtype float32; the mean of
            # two equal values and every fill used are exact there too)
            f4 = pa is not None and pb is not None and pa.get("dtype") == "f4" and pb.get("dtype") == "f4"
            ma, mb = (xa, xb) if f4 else (a, b)
            if f4:
                feats.add("merge:float32-arrays")
            # the estimate is handed on AS RETURNED (the same object for all six merges in a row) and read again afterwards
            est_obj = raw_ab if raw_ab is not None else tuple(impl["ab"])
            for (m, f), r in zip(MERGE_VARIANTS, rep["results"]):
                try:
                    res = register.overlap_arrays([ma, mb], [tuple(zero), est_obj],
                                                  fill=math.nan if f is None else f, mode=m)
                    impl["merge"].append({"shape": list(res.shape), "data": [fhex(v) for v in np.asarray(res, dtype=np.float64).ravel()]})
                except Exception as e:
                    impl["merge"].append({"raises": type(e).__name__, "msg": str(e)[:200]})
                model["merge"].append({"shape": r["shape"], "data": [qhex(v) for v in r["model"]]})
                spec["merge"].append({"shape": r["specShape"], "data": [qhex(v) for v in r["spec"]]})
            try:
                impl["estimate-after-the-merges"] = [int(v) for v in est_obj]
            except Exception as e:
                impl["estimate-after-the-merges"] = {"raises": type(e).__name__}
            model["estimate-after-the-merges"] = reps["ab"]["model"]
            spec["estimate-after-the-merges"] = reps["ab"]["lag"]
            feats.add("merge:estimate-object-handed-on-for-six-merges")
            if any(l < 0 for l in t):
                feats.add("merge:estimate-object-handed-on:negative-component")
            if "nan" in spec["merge"][0]["data"]:
                feats.add("merge:uncovered-corner")
            for tp in case.get("tiny") or []:
                pos = np.unravel_index(int(tp["idx"]), scene.shape)
                if all(w["off"][i] <= pos[i] < w["off"][i] + w["shape"][i] for w in (A, B) for i in range(d)):
                    feats.add("merge:tiny-pixel-in-the-overlap:" + ("float32" if f4 else "float64"))
                    feats.add("merge:tiny-pixel-in-the-overlap:" + ("subnormal" if abs(int(tp["k"])) < 2 ** 23 else "smallest-normal"))
            feats.add("merge-at-the-estimate:replace+mean x fill nan/0/finite")
        else:
            impl["merge"] = model["merge"] = spec["merge"] = MASK
            impl["estimate-after-the-merges"] = model["estimate-after-the-merges"] = spec["estimate-after-the-merges"] = MASK
        if case.get("bg") == "zero":
            feats.add("zero-background")
        if det["ab"]:
            s = [x + y - 1 for x, y in zip(A["shape"], B["shape"])]
            feats |= {f"ndim{d}", "texture:" + case.get("texture", "?"), "rel:" + case.get("rel", "?")}
            ma_, mb_ = float(a.max()), float(b.max())
            if max(ma_, mb_) <= 0 and any(t):
                dtn = "+".join(sorted({(p or {}).get("dtype", "f8") for p in (pa, pb)}))
                cls = ("maximum-zero-in-both" if ma_ == 0 and mb_ == 0 else "all-negative" if max(ma_, mb_) < 0
                       else "maximum-zero-in-one")
                feats |= {"non-positive:" + cls, "non-positive:" + cls + ":" + dtn, "non-positive:moved"}
            inside = all(0 <= l <= x - y for l, x, y in zip(t, A["shape"], B["shape"]))
            outside = all(-(y - x) <= l <= 0 for l, x, y in zip(t, A["shape"], B["shape"]))
            feats.add("sub-window" if inside else "super-window" if outside else "overlapping-windows")
            for p in (pa, pb):
                if p is not None:
                    feats |= {"dtype:" + p.get("dtype", "f8"), "layout:" + p.get("layout", "C")}
            if (pa is not None and pb is not None and np.dtype(pa.get("dtype", "f8")).kind in "iu"
                    and np.dtype(pb.get("dtype", "f8")).kind in "iu"
                    and reps["ab"].get("max") is not None and unrat(reps["ab"]["max"]) >= 2 ** 63):
                feats.add("integer-images:correlation-peak>=2^63")
            if any(l < 0 for l in t):
                feats.add("negative-translation")
            if all(l == 0 for l in t):
                feats.add("zero-translation")
            if any(l >= n - n // 2 or l < -(n // 2) for l, n in zip(t, s)):
                feats.add("lag-outside-fftshift-range")
            feats.add("s-last-odd" if s[-1] % 2 else "s-last-even")
            for x, y in zip(A["shape"], B["shape"]):
                feats.add(f"parity:a-{'odd' if x % 2 else 'even'}/b-{'odd' if y % 2 else 'even'}")
                if x == 1 or y == 1:
                    feats.add("side=1")
                if x == 2 or y == 2:
                    feats.add("side=2")
            if any(l == x - 1 or l == -(y - 1) for l, x, y in zip(t, A["shape"], B["shape"])):
                feats.add("one-pixel-overlap-on-an-axis")
            if det.get("aa") or det.get("bb"):
                feats.add("self-registration-compared")
            equal_moved = A["shape"] == B["shape"] and any(t)
            if equal_moved:
                feats.add("equal-shapes:non-zero-translation")
            if scale is not None:
                feats.add("scale:" + scale_name(scale))
                feats.add("scale:tiny" if scale_factor(scale) < 1 else "scale:huge")
                if equal_moved:
                    feats.add("scale:%s:equal-shapes:non-zero-translation" % ("tiny" if scale_factor(scale) < 1 else "huge"))
            if max(s) > 1024:
                for l, n in zip(t, s):
                    if n > 1024:
                        feats.add("long-axis:s>2048" if n > 2048 else "long-axis:1024<s<=2048")
                        feats.add("long-axis:negative-translation" if l < 0 else
                                  "long-axis:positive-translation" if l > 0 else "long-axis:zero-translation")
                        if n & (n - 1):
                            feats.add("long-axis:s-not-a-power-of-two")
                feats.add(f"long-axis:ndim{d}")
                if scale is not None:
                    feats.add("long-axis:scaled")
            if model_cost(A["shape"], B["shape"]) > LONG_COST:
                feats.add("route:array-twin+model-at-decisive-lags")
        elif det.get("aa") or det.get("bb") or det["ba"]:
            feats.add("only-self-or-swapped-compared")
        none_det = not any(det.values())
        return outcome(impl, model, spec, undetermined=none_det, hyp=det["ab"], features=feats)

    def eval_hist(self, case, ctx, register):
        """consecutive calls on two persistent array objects that are refreshed in place between the calls; each call is
        compared with the specification (and the mechanism model) of the contents at the time of that call"""
        sa, sb, shape = case["sa"], case["sb"], case["shape"]
        d = len(shape)
        scale = case.get("scale")
        zero = [0] * d
        contents = []
        for st in case["steps"]:
            scene = scene_array({"data": st["data"], "q": case.get("q", 0), "shape": shape}, scale)
            if not float_safe(scene):
                return outcome("float-range", "float-range", "float-range", undetermined=True, hyp=False)
            contents.append({"a": cut(scene, {"off": st["offA"], "shape": sa}),
                             "b": cut(scene, {"off": st["offB"], "shape": sb})})
        long = model_cost(sa, sb) > LONG_COST
        pres = {}
        for key in "ab":
            p = case.get("pres" + key.upper())
            ok = p is not None and all(pres_ok(c[key], p) for c in contents) and not (long and p.get("dtype") in SINGLE)
            pres[key] = p if ok else None
        single = any(p is not None and p.get("dtype") in SINGLE for p in pres.values())
        bufs = {}
        gen = {"a": 0, "b": 0}  # how often the buffer was replaced by a new array object
        impl, model, spec = {}, {}, {}
        feats = set()
        any_det = False
        prev = None
        ncalls = 0
        for k, (st, cont) in enumerate(zip(case["steps"], contents)):
            for key in "ab":
                if key not in bufs or key in st.get("fresh", ""):
                    # a new array object; the old one is released first (its id / memory may be handed out again)
                    if bufs.pop(key, None) is not None:
                        gen[key] += 1
                        feats.add("history:buffer-replaced-by-a-new-array-object")
                    buf = alloc(cont[key].shape, pres[key])
                    buf[...] = cont[key]
                    if pres[key] is not None and pres[key].get("layout") == "ro":
                        buf.flags.writeable = False
                    bufs[key] = buf
                    del buf
                else:
                    fill_buffer(bufs[key], cont[key])  # the same object, new contents
            t = [ob - oa for oa, ob in zip(st["offA"], st["offB"])]
            for j, order in enumerate(st["calls"]):
                x, y = bufs[order[0]], bufs[order[1]]
                want = t if order == "ab" else [-l for l in t] if order == "ba" else zero
                name = "step%d.%d:%s" % (k, j, order)
                cx, cy = cont[order[0]], cont[order[1]]
                impl[name], model[name], spec[name], det, rep = self.reg_part(ctx, register, x, y, want, single=single)
                ncalls += 1
                if det:
                    any_det = True
                    feats.add("history:%s" % ("self" if order in ("aa", "bb") else order))
                    feats.add("history:peak-at-truth" if rep["at_truth"] else "history:peak-not-at-truth(compared)")
                    if rep.get("truthHyp"):
                        feats.add("history:truth-theorem-applies")
                    if rep.get("zeroBg"):
                        feats.add("history:zero-background-theorem-applies")
                    if prev is not None:
                        ox, oy = (order[0], gen[order[0]]), (order[1], gen[order[1]])
                        for pos, obj, now, was_obj, was in (("first", ox, cx, prev[0], prev[2]), ("second", oy, cy, prev[1], prev[3])):
                            if obj == was_obj:
                                same = np.array_equal(now, was)
                                tag = "history:%s-arg-same-object-as-in-previous-call" % pos
                                feats.add(tag)
                                if same:
                                    feats.add(tag + ":same-contents")
                                else:
                                    feats.add(tag + ":edited-in-place")
                                    if float(np.sum(now)) == float(np.sum(was)):
                                        feats.add(tag + ":edited-in-place:sum-preserved")
                                    if sorted(now.ravel().tolist()) == sorted(was.ravel().tolist()):
                                        feats.add(tag + ":edited-in-place:pixels-permuted")
                        if ox == prev[1] and oy == prev[0] and ox != oy:
                            feats.add("history:arguments-swapped-since-previous-call")
                        if rep["lag"] != prev[4]:
                            feats.add("history:answer-differs-from-previous-call")
                prev = ((order[0], gen[order[0]]), (order[1], gen[order[1]]), cx.copy(), cy.copy(), rep["lag"] if det else None)
                del x, y
            if k > 0:
                feats.add("history:edit:" + str(st.get("label", "?")).split(":")[0])
        if any_det:
            feats |= {"history", "history:ndim%d" % d, "history:mode:" + str(case.get("mode", "?")),
                      "history:calls=%d" % ncalls}
            for key in "ab":
                if pres[key] is not None:
                    feats |= {"dtype:" + pres[key].get("dtype", "f8"), "layout:" + pres[key].get("layout", "C")}
            if scale is not None:
                feats.add("history:scaled")
        else:
            feats = set()
        return outcome(impl, model, spec, undetermined=not any_det, hyp=any_det, features=feats)

    def eval_anchors(self, case, ctx, register):
        a = case["a"]

        def blank(shape):
            """an array of that shape (anchor_offset reads shapes only); large ones without memory behind them"""
            if int(np.prod(shape, dtype=object)) <= 10 ** 5:
                return np.zeros(shape)
            return np.broadcast_to(np.zeros(1), tuple(shape))

        if any(int(n) < 1 for n in a) or len(a) != 2 or int(np.prod(a, dtype=object)) >= 2 ** 62:
            return outcome("invalid", "invalid", "invalid", undetermined=True, hyp=False)
        xa = blank(a)
        impl = []
        feats = {"anchors"}
        for b in case["bs"]:
            if any(int(n) < 1 for n in b) or len(b) != 2 or int(np.prod(b, dtype=object)) >= 2 ** 62:
                return outcome("invalid", "invalid", "invalid", undetermined=True, hyp=False)
            xb = blank(b)
            if max(max(a), max(b)) >= 2 ** 31:
                feats.add("anchor:extent>=2^31")
            row = []
            for an in ANCHORS:
                try:
                    r = register.anchor_offset(xa, xb, an)
                    row.append([int(v) for v in r])
                except Exception as e:
                    row.append({"raises": type(e).__name__})
            impl.append(row)
            for x, y in zip(a, b):
                if x < y and (x - y) % 2:
                    feats.add("anchor:centre-negative-odd-difference")
                elif (x - y) % 2:
                    feats.add("anchor:centre-odd-difference")
                if x == y:
                    feats.add("anchor:equal-extent")
        rep = ctx.driver.call("c12.anchor", a=a, bs=case["bs"], anchors=ANCHORS)
        return outcome(impl, rep["model"], rep["spec"], features=feats)

    # ------------------------------------------------------------------ shrinking
    def shrink(self, case):
        if case["kind"] == "anchors":
            if len(case["bs"]) > 1:
                for b in case["bs"]:
                    yield {**case, "bs": [b]}
            return
        if case["kind"] == "hist":
            steps = case["steps"]
            for key in ("scale", "presA", "presB"):
                if case.get(key) is not None:
                    yield {k: v for k, v in case.items() if k != key}
            if len(steps) > 1:
                for i in range(len(steps)):
                    yield {**case, "steps": steps[:i] + steps[i + 1:]}
            for i, st in enumerate(steps):
                if len(st["calls"]) > 1:
                    for j in range(len(st["calls"])):
                        yield {**case, "steps": steps[:i] + [{**st, "calls": st["calls"][:j] + st["calls"][j + 1:]}] + steps[i + 1:]}
                if st.get("fresh"):
                    yield {**case, "steps": steps[:i] + [{**st, "fresh": ""}] + steps[i + 1:]}
            return
        d = len(case["scene"]["shape"])
        costly = model_cost(case["A"]["shape"], case["B"]["shape"]) > LONG_COST
        for key in ("scale", "pres", "tiny"):
            if case.get(key) is not None:
                yield {k: v for k, v in case.items() if k != key}
        # crop the scene to the bounding box of the two windows
        A, B, sc = case["A"], case["B"], case["scene"]
        lo = [min(x, y) for x, y in zip(A["off"], B["off"])]
        hi = [max(x + p, y + q) for x, p, y, q in zip(A["off"], A["shape"], B["off"], B["shape"])]
        if any(l > 0 for l in lo) or hi != sc["shape"]:
            arr = np.array(sc["data"], dtype=object).reshape(sc["shape"])
            sub = arr[tuple(slice(l, h) for l, h in zip(lo, hi))]
            yield {**case, "scene": {"shape": list(sub.shape), "data": [int(v) for v in sub.ravel()], "q": sc["q"]},
                   "A": {"off": [x - l for x, l in zip(A["off"], lo)], "shape": A["shape"]},
                   "B": {"off": [x - l for x, l in zip(B["off"], lo)], "shape": B["shape"]}}
        for key in ("A", "B"):
            w = case[key]
            for ax in range(d):
                # long sides lose a half, a quarter, an eighth, a sixteenth at either end; single pixels only where
                # an evaluation is cheap (a long pair costs ~0.5 s per candidate and stays long while it fails)
                n = w["shape"][ax]
                steps = [k for k in (n // 2, n // 4, n // 8, n // 16) if k > 1] + ([] if costly and n > 64 else [1])
                for k in steps:
                    if w["shape"][ax] > k:
                        sh = list(w["shape"])
                        sh[ax] -= k
                        c1 = {**case, key: {"off": w["off"], "shape": sh}}
                        off = list(w["off"])
                        off[ax] += k
                        c2 = {**case, key: {"off": off, "shape": sh}}
                        for c in (c1, c2):
                            if valid(c):
                                yield c
        data = case["scene"]["data"]
        if len(data) <= 400:
            for i, v in enumerate(data):
                if v != 0:
                    yield {**case, "scene": {**case["scene"], "data": data[:i] + [0] + data[i + 1:]}}


PROP = C12()

if __name__ == "__main__":
    sys.exit(core.main(PROP, "harness.c12"))
