"""C12 — FFT registration: pewlib.process.register.fft_register_offset / anchor_offset (and
overlap_arrays at the estimated offset) against PewModel/Register.lean.

A case cuts two windows A, B out of one generated scene; the true translation is offB - offA.
The driver evaluates the mechanism model (zero padding, circular correlation, first maximum,
decode) and the specification (exact linear cross-correlation over the lag box: its maximum, the
lag of the maximum and the largest value among the other lags).  A part of a case is compared only
when the exact maximum is well separated (relative margin >= 5 %) and sits at the true translation;
otherwise the premise of the property does not hold for that pair and the part is masked."""
import itertools
import math
import sys
from fractions import Fraction

import numpy as np

from harness import core
from harness.core import Prop, outcome, unrat

ANCHORS = ["top left", "top right", "bottom left", "bottom right", "center"]
MARGIN = Fraction(1, 20)
MASK = "premise-fails"


def fhex(v) -> str:
    v = float(v)
    if math.isnan(v):
        return "nan"
    if v == 0.0:
        return "0"
    return v.hex()


def qhex(j) -> str:
    q = unrat(j)
    return "nan" if q is None else fhex(float(q))


def scene_array(sc):
    """exact float64 array: data / 2**q"""
    return (np.array(sc["data"], dtype=np.float64) / float(2 ** sc["q"])).reshape(sc["shape"])


def cut(arr, w):
    return arr[tuple(slice(o, o + s) for o, s in zip(w["off"], w["shape"]))].copy()


def img_json(arr, q):
    """exact rationals of a float array whose entries are multiples of 2**-q"""
    flat = arr.ravel()
    den = 2 ** q
    data = []
    for v in flat:
        n = int(round(float(v) * den))
        assert n / den == float(v)
        data.append(n if q == 0 else [str(n), str(den)])
    return {"shape": list(arr.shape), "data": data}


def valid(case):
    if case["kind"] != "reg":
        return True
    A, B, sc = case["A"], case["B"], case["scene"]
    d = len(sc["shape"])
    if len(sc["data"]) != int(np.prod(sc["shape"])):
        return False
    for w in (A, B):
        if len(w["off"]) != d or len(w["shape"]) != d:
            return False
        if any(s < 1 or o < 0 or o + s > n for o, s, n in zip(w["off"], w["shape"], sc["shape"])):
            return False
    t = [ob - oa for oa, ob in zip(A["off"], B["off"])]
    return all(-(b - 1) <= l <= a - 1 for l, a, b in zip(t, A["shape"], B["shape"]))


class C12(Prop):
    id = "C12"
    anchored = ["src/pewlib/process/register.py"]
    cases = {"quick": 700, "thorough": 12000}
    rule = ("two windows (sub-window, super-window or partially overlapping; 1-3 D; every side drawn independently, "
            "odd and even, incl. 1 and 2; translations of either sign inside the lag box) of one generated scene "
            "(signed / sparse / blob / positive / real-valued dyadic texture); non-trivial = the exact cross-correlation "
            "has a maximum >= 5 % above every other lag at the true translation, so that the pair is compared; "
            "anchors: every shape pair <= 12 x 12 with the five anchors on every run, plus random larger shapes; "
            "distinct by canonical case hash")
    trusted = ["np.fft.rfftn/irfftn(s=...) compute the circular cross-correlation of the zero padded arrays "
               "(correlation theorem) with an error far below the 5 % margin demanded of compared cases",
               "np.pad / np.argmax (first maximum) / np.unravel_index / np.where as documented"]
    assumptions = ["a pair whose exact cross-correlation maximum leads the runner-up by < 5 % (or by < 1e-9 of the "
                   "product of the 1-norms), or whose maximum is not at the true translation, is outside the property's "
                   "premise ('unique, well-separated maximum') and is masked, never a violation"]

    # ------------------------------------------------------------------ generation
    def gen_scene(self, rng, shape, kind):
        size = int(np.prod(shape))
        q = 0
        if kind == "signed":
            data = [rng.randint(-9, 9) for _ in range(size)]
        elif kind == "positive":
            data = [rng.randint(0, 9) for _ in range(size)]
        elif kind == "sparse":
            data = [0] * size
            for _ in range(max(1, size // 4)):
                data[rng.randrange(size)] = rng.randint(1, 40)
        elif kind == "blobs":
            arr = np.zeros(shape, dtype=int)
            for _ in range(rng.randint(1, 4)):
                lo = [rng.randrange(n) for n in shape]
                hi = [min(n, l + rng.randint(1, max(1, n // 2))) for l, n in zip(lo, shape)]
                arr[tuple(slice(l, h) for l, h in zip(lo, hi))] += rng.randint(1, 9)
            data = [int(v) for v in arr.ravel()]
        else:  # real: signed multiples of 2**-10
            q = 10
            data = [rng.randint(-8000, 8000) for _ in range(size)]
        return {"shape": list(shape), "data": data, "q": q}

    def generate(self, rng, tier):
        if rng.random() < 0.04:
            a = [rng.randint(1, 60), rng.randint(1, 60)]
            bs = [[rng.randint(1, 60), rng.randint(1, 60)] for _ in range(40)]
            return {"kind": "anchors", "a": a, "bs": bs}
        d = rng.choice([1, 1, 2, 2, 2, 3])
        hi = {1: 24, 2: 9, 3: 5}[d]
        rel = rng.choice(["sub", "sub", "super", "overlap", "overlap", "far"])
        sa, sb, t = [], [], []
        for _ in range(d):
            a = rng.choice([1, 2, 3]) if rng.random() < 0.15 else rng.randint(1, hi)
            b = rng.choice([1, 2, 3]) if rng.random() < 0.15 else rng.randint(1, hi)
            if rel == "sub":  # B inside A
                b = min(a, b)
                l = rng.randint(0, a - b)
            elif rel == "far":  # a small B near the far end of A: lags beyond ceil(s/2)
                b = max(1, min(b, a // 3))
                l = rng.randint(max(0, a - b - 1), a - b)
            elif rel == "super":  # A inside B
                a = min(a, b)
                l = -rng.randint(0, b - a)
            else:
                # keep a substantial overlap most of the time
                if rng.random() < 0.7:
                    lo, up = -((b - 1) // 2), (a - 1) // 2
                else:
                    lo, up = -(b - 1), a - 1
                l = rng.randint(lo, up)
            sa.append(a)
            sb.append(b)
            t.append(l)
        org = [min(0, l) for l in t]
        end = [max(a, l + b) for a, b, l in zip(sa, sb, t)]
        # some margin of scene around the union, so that windows are not the whole scene
        pad_lo = [rng.randint(0, 1) for _ in range(d)]
        pad_hi = [rng.randint(0, 1) for _ in range(d)]
        shape = [e - o + p + r for o, e, p, r in zip(org, end, pad_lo, pad_hi)]
        kind = rng.choice(["signed", "signed", "sparse", "blobs", "positive", "real", "real"])
        scene = self.gen_scene(rng, shape, kind)
        offA = [-o + p for o, p in zip(org, pad_lo)]
        offB = [oa + l for oa, l in zip(offA, t)]
        return {"kind": "reg", "texture": kind, "rel": rel, "scene": scene,
                "A": {"off": offA, "shape": sa}, "B": {"off": offB, "shape": sb}}

    def targeted(self, tier):
        # anchors: every shape pair <= 12 x 12, the five anchors
        bs = [[b0, b1] for b0 in range(1, 13) for b1 in range(1, 13)]
        for a0 in range(1, 13):
            for a1 in range(1, 13):
                yield {"kind": "anchors", "a": [a0, a1], "bs": bs}
        # the regression inputs of DESIGN 5.12: a = scene[0:100], b = scene[80:100]; equal sizes (odd s)
        rng = core.case_rng(0, self.id, "targeted", 0)
        sc = self.gen_scene(rng, [100], "signed")
        yield {"kind": "reg", "texture": "signed", "rel": "far", "scene": sc,
               "A": {"off": [0], "shape": [100]}, "B": {"off": [80], "shape": [20]}}
        for n, t in ((8, 3), (9, 4), (8, -5), (2, 1), (1, 0), (2, -1)):
            sc = self.gen_scene(rng, [n + abs(t)], "signed")
            yield {"kind": "reg", "texture": "signed", "rel": "overlap", "scene": sc,
                   "A": {"off": [max(0, -t)], "shape": [n]}, "B": {"off": [max(0, t)], "shape": [n]}}
        # every 1-D size pair <= 5 with every translation of the lag box, two textures
        for a in range(1, 6):
            for b in range(1, 6):
                for t in range(-(b - 1), a):
                    lo, hi = min(0, t), max(a, t + b)
                    for kind in ("signed", "sparse"):
                        sc = self.gen_scene(rng, [hi - lo], kind)
                        yield {"kind": "reg", "texture": kind, "rel": "enum", "scene": sc,
                               "A": {"off": [-lo], "shape": [a]}, "B": {"off": [-lo + t], "shape": [b]}}
        # 2-D sub-windows touching each corner of an odd x even image
        sc = self.gen_scene(rng, [7, 10], "signed")
        for o in ([0, 0], [0, 6], [4, 0], [4, 6], [2, 3]):
            yield {"kind": "reg", "texture": "signed", "rel": "sub", "scene": sc,
                   "A": {"off": [0, 0], "shape": [7, 10]}, "B": {"off": o, "shape": [3, 4]}}

    def search_extra(self, tier):
        rng = core.case_rng(1, self.id, "search", 0)
        for a in range(1, 13):
            for b in range(1, 13):
                for t in range(-(b - 1), a):
                    lo, hi = min(0, t), max(a, t + b)
                    sc = self.gen_scene(rng, [hi - lo], "signed")
                    yield {"kind": "reg", "texture": "signed", "rel": "enum", "scene": sc,
                           "A": {"off": [-lo], "shape": [a]}, "B": {"off": [-lo + t], "shape": [b]}}

    # ------------------------------------------------------------------ evaluation
    def reg_part(self, ctx, register, x, y, q, want):
        """one call of fft_register_offset(x, y) against the driver; returns (impl, model, spec, determined)"""
        rep = ctx.driver.call("c12.register", a=img_json(x, q), b=img_json(y, q))
        mx = unrat(rep["max"])
        ru = unrat(rep["runner"])
        n1 = Fraction(float(np.abs(x).sum())) * Fraction(float(np.abs(y).sum()))
        if ru is None:
            determined = True  # a single lag: nothing to separate
        else:
            determined = mx > 0 and (mx - ru) >= MARGIN * mx and (mx - ru) >= Fraction(1, 10 ** 9) * n1
        at_truth = rep["lag"] == want
        if not (determined and at_truth):
            return MASK, MASK, MASK, False, rep
        try:
            res = register.fft_register_offset(x, y)
            impl = [int(v) for v in res]
        except Exception as e:
            impl = {"raises": type(e).__name__, "msg": str(e)[:200]}
        return impl, rep["model"], want, True, rep

    def evaluate(self, case, ctx):
        from pewlib.process import register

        if case["kind"] == "anchors":
            return self.eval_anchors(case, ctx, register)
        if not valid(case):
            return outcome("invalid", "invalid", "invalid", undetermined=True, hyp=False)
        sc = case["scene"]
        q = sc["q"]
        scene = scene_array(sc)
        A, B = case["A"], case["B"]
        d = scene.ndim
        a, b = cut(scene, A), cut(scene, B)
        t = [ob - oa for oa, ob in zip(A["off"], B["off"])]
        zero = [0] * d
        impl, model, spec = {}, {}, {}
        feats = set()
        parts = [("ab", a, b, t), ("ba", b, a, [-l for l in t])]
        if a.any():
            parts.append(("aa", a, a, zero))
        if b.any():
            parts.append(("bb", b, b, zero))
        det = {}
        for name, x, y, want in parts:
            impl[name], model[name], spec[name], det[name], _ = self.reg_part(ctx, register, x, y, q, want)
        # register, then merge at the estimated offset
        if det["ab"] and isinstance(impl["ab"], list):
            try:
                res = register.overlap_arrays([a, b], [tuple(zero), tuple(impl["ab"])])
                impl["merge"] = {"shape": list(res.shape), "data": [fhex(v) for v in res.ravel()]}
            except Exception as e:
                impl["merge"] = {"raises": type(e).__name__, "msg": str(e)[:200]}
            rep = ctx.driver.call("c12.merge", scene=img_json(scene, q), offA=A["off"], offB=B["off"],
                                  shapeA=A["shape"], shapeB=B["shape"])
            model["merge"] = {"shape": rep["shape"], "data": [qhex(v) for v in rep["model"]]}
            spec["merge"] = {"shape": rep["shape"], "data": [qhex(v) for v in rep["spec"]]}
            if "nan" in spec["merge"]["data"]:
                feats.add("merge:uncovered-corner")
        else:
            impl["merge"] = model["merge"] = spec["merge"] = MASK
        if det["ab"]:
            s = [x + y - 1 for x, y in zip(A["shape"], B["shape"])]
            feats |= {f"ndim{d}", "texture:" + case.get("texture", "?"), "rel:" + case.get("rel", "?")}
            inside = all(0 <= l <= x - y for l, x, y in zip(t, A["shape"], B["shape"]))
            outside = all(-(y - x) <= l <= 0 for l, x, y in zip(t, A["shape"], B["shape"]))
            feats.add("sub-window" if inside else "super-window" if outside else "overlapping-windows")
            if any(l < 0 for l in t):
                feats.add("negative-translation")
            if all(l == 0 for l in t):
                feats.add("zero-translation")
            if any(l >= n - n // 2 or l < -(n // 2) for l, n in zip(t, s)):
                feats.add("lag-outside-fftshift-range")
            feats.add("s-last-odd" if s[-1] % 2 else "s-last-even")
            for x, y in zip(A["shape"], B["shape"]):
                feats.add(f"parity:a-{'odd' if x % 2 else 'even'}/b-{'odd' if y % 2 else 'even'}")
                if x == 1 or y == 1:
                    feats.add("side=1")
                if x == 2 or y == 2:
                    feats.add("side=2")
            if any(l == x - 1 or l == -(y - 1) for l, x, y in zip(t, A["shape"], B["shape"])):
                feats.add("one-pixel-overlap-on-an-axis")
            if det.get("aa") or det.get("bb"):
                feats.add("self-registration-compared")
        elif det.get("aa") or det.get("bb") or det["ba"]:
            feats.add("only-self-or-swapped-compared")
        none_det = not any(det.values())
        return outcome(impl, model, spec, undetermined=none_det, hyp=det["ab"], features=feats)

    def eval_anchors(self, case, ctx, register):
        a = case["a"]
        xa = np.zeros(a)
        impl = []
        feats = {"anchors"}
        for b in case["bs"]:
            xb = np.zeros(b)
            row = []
            for an in ANCHORS:
                try:
                    r = register.anchor_offset(xa, xb, an)
                    row.append([int(v) for v in r])
                except Exception as e:
                    row.append({"raises": type(e).__name__})
            impl.append(row)
            for x, y in zip(a, b):
                if x < y and (x - y) % 2:
                    feats.add("anchor:centre-negative-odd-difference")
                elif (x - y) % 2:
                    feats.add("anchor:centre-odd-difference")
                if x == y:
                    feats.add("anchor:equal-extent")
        rep = ctx.driver.call("c12.anchor", a=a, bs=case["bs"], anchors=ANCHORS)
        return outcome(impl, rep["model"], rep["spec"], features=feats)

    # ------------------------------------------------------------------ shrinking
    def shrink(self, case):
        if case["kind"] == "anchors":
            if len(case["bs"]) > 1:
                for b in case["bs"]:
                    yield {**case, "bs": [b]}
            return
        d = len(case["scene"]["shape"])
        # crop the scene to the bounding box of the two windows
        A, B, sc = case["A"], case["B"], case["scene"]
        lo = [min(x, y) for x, y in zip(A["off"], B["off"])]
        hi = [max(x + p, y + q) for x, p, y, q in zip(A["off"], A["shape"], B["off"], B["shape"])]
        if any(l > 0 for l in lo) or hi != sc["shape"]:
            arr = np.array(sc["data"], dtype=object).reshape(sc["shape"])
            sub = arr[tuple(slice(l, h) for l, h in zip(lo, hi))]
            yield {**case, "scene": {"shape": list(sub.shape), "data": [int(v) for v in sub.ravel()], "q": sc["q"]},
                   "A": {"off": [x - l for x, l in zip(A["off"], lo)], "shape": A["shape"]},
                   "B": {"off": [x - l for x, l in zip(B["off"], lo)], "shape": B["shape"]}}
        for key in ("A", "B"):
            w = case[key]
            for ax in range(d):
                if w["shape"][ax] > 1:
                    sh = list(w["shape"])
                    sh[ax] -= 1
                    c1 = {**case, key: {"off": w["off"], "shape": sh}}
                    off = list(w["off"])
                    off[ax] += 1
                    c2 = {**case, key: {"off": off, "shape": sh}}
                    for c in (c1, c2):
                        if valid(c):
                            yield c
        data = case["scene"]["data"]
        for i, v in enumerate(data):
            if v != 0:
                yield {**case, "scene": {**case["scene"], "data": data[:i] + [0] + data[i + 1:]}}


PROP = C12()

if __name__ == "__main__":
    sys.exit(core.main(PROP, "harness.c12"))
