"""Writer of synthetic NWI (ESL / ActiveView) laser logs in the real CSV layout
(see /repo/tests/data/laser_nwi/LaserLog_test_rasters.csv): 19 header names, 14 columns per row,
millisecond time stamps, four-decimal stage coordinates, sequence / sub-point numbers only on the
first row of a pattern."""
import datetime

HEADER = ("Timestamp, Sequence Number, SubPoint Number, Vertex Number, Comment, X(um), Y(um), Intended X(um), "
          "Intended Y(um), Scan Velocity (um/s), Laser State, Laser Rep. Rate (Hz), Spot Type, Spot Size (um), "
          "Spot Angle (deg), MFC1 (ml/min), MFC2 (ml/min), Cell Pressure (kPa), Z(um)")


def fixed4(u: int) -> str:
    """integer in units of 1e-4 -> decimal text with exactly four decimals (exact, no float involved)"""
    sign = "-" if u < 0 else ""
    q, r = divmod(abs(u), 10000)
    return f"{sign}{q}.{r:04d}"


def stamp(base: datetime.datetime, ms: int) -> str:
    t = base + datetime.timedelta(milliseconds=ms)
    return t.strftime("%Y-%m-%d %H:%M:%S.") + f"{t.microsecond // 1000:03d}"


def format_lines(rows, base: datetime.datetime, rate=200, velocity=400):
    """header and data lines for rows: dicts {time (ms), seq (-1 = blank), x, y (1e-4 um), on, spot} as rendered by the
    Lean specification; `base` is the wall-clock time of laser clock 0 (the stamps carry the date, so an acquisition may
    run over midnight, a month's or a year's end)"""
    lines = [HEADER]
    prev_on = False
    for r in rows:
        hdr = r["seq"] != -1
        seq = str(r["seq"]) if hdr else ""
        sub = "1" if hdr else ""
        comment = f"Image Raster{r['seq']}" if hdr else ""
        x, y = fixed4(r["x"]), fixed4(r["y"])
        # stage-move rows (laser off, not the end of a line, no header) carry intended coordinates and a velocity
        move = (not r["on"]) and (not prev_on) and (not hdr)
        ix, iy, vel = (x, y, str(velocity)) if move else ("", "", "")
        state = "On" if r["on"] else "Off"
        lines.append(",".join([stamp(base, r["time"]), seq, sub, "", comment, x, y, ix, iy, vel, state,
                               str(rate) if r["on"] else "0", "", r["spot"]]))
        prev_on = r["on"]
    return lines


def write_lines(path, lines, eol="\n", bom=False, final_eol=True):
    """`eol` is the line terminator (the instrument's files have CRLF)"""
    with open(path, "w", newline="", encoding="utf-8-sig" if bom else "utf-8") as fp:
        fp.write(eol.join(lines) + (eol if final_eol else ""))


def write_log(path, rows, base: datetime.datetime, rate=200, velocity=400, eol="\n", bom=False, final_eol=True):
    write_lines(path, format_lines(rows, base, rate, velocity), eol, bom, final_eol)
