"""C08 — laser-log synchronisation: pewlib.io.laser.read_nwi_laser_log + sync_data_nwi_laser_log against
PewModel/Sync.lean.  The Lean specification `render` writes the abstract log rows, the sample times and the delay of a
rastered acquisition, `renderLog` writes those rows as the text of an NWI log (time stamps with the date, four-decimal
coordinates, comma-separated fields) and `truth` is the ground-truth image; the Lean mechanism reads the text back
(`parseLog`) and runs `sync` on it.  Python only puts the lines into a file (line terminator, BOM), builds the numpy
signal, runs pewlib and canonicalises.  Theorems `sync_render`, `sync_render_squeeze_keeps`, `sync_render_text`
(PewTheorems/C08.lean) prove model = spec on every acquisition with `truthHyp` and `textHyp` (reported here as `hyp`);
the comparison below ties the implementation to both.  A case may be a HISTORY of calls in one process (see `generate`)."""
import copy
import datetime
import logging
import math
import random
import sys
from fractions import Fraction

import numpy as np

from harness import core, gen_nwi
from harness.core import Prop, outcome, unrat

NAN_TOK = core.tok(float("nan"))
ELEMENTS = ["Ho165", "P31", "Eu153", "Gd157"]
DIRS = ["lr", "rl", "tb", "bt"]
# spot sizes in 1e-4 um: 0.1, 1.1, 12.5, 40, 1, 0.3333, 5.05, 100.25, 2.5
SPOTS = [1000, 11000, 125000, 400000, 10000, 3333, 50500, 1002500, 25000]


def dec_str(u):
    q, r = divmod(u, 10000)
    return str(q) if r == 0 else f"{q}.{r:04d}".rstrip("0")


def spot_len(sxu, syu, circular):
    return len(dec_str(sxu)) if circular else len(dec_str(sxu)) + 3 + len(dec_str(syu))


def segments(acq):
    """sample layout of the acquisition in order: (pattern index | None, line index | None, count)"""
    segs = []
    for pi, p in enumerate(acq["patterns"]):
        for li, ln in enumerate(p["lines"]):
            segs.append((None, None, ln["gap_samples"] if ln["gap"] > 0 else 0))
            segs.append((pi, li, p["npix"]))
    segs.append((None, None, acq["tail_samples"] if acq["tail_gap"] > 0 else 0))
    return segs


def total_samples(acq):
    return sum(s[2] for s in segments(acq))


def selected(acq, sel):
    if sel is None:
        return list(range(len(acq["patterns"])))
    s = sel if isinstance(sel, list) else [sel]
    return [i for i, p in enumerate(acq["patterns"]) if p["seq"] in s]


def valid_cuts(acq, sel):
    """positions 0..total at which the signal may begin or end without cutting through a selected line"""
    selp = set(selected(acq, sel))
    cuts, pos = [], 0
    for pi, li, n in segments(acq):
        if pi is not None and pi in selp:
            cuts.append(pos)
        else:
            cuts.extend(range(pos, pos + n))
        pos += n
    cuts.append(pos)
    return sorted(set(cuts))


def line_positions(acq):
    """(pattern index, line index, position of the line's first pixel sample in the acquisition, pattern)"""
    out, pos = [], 0
    for pi, li, n in segments(acq):
        if pi is not None:
            out.append((pi, li, pos, acq["patterns"][pi]))
        pos += n
    return out


def plan_samples(acq, entry):
    """acquisition sample indices named by one entry of a NaN plan.  `line`: every pixel of line idx (mod the number of
    lines) of pattern `pat` (None = of every pattern) - a whole image row (horizontal scans) or column; `along`: the
    pixel at position idx (mod the line length, counted in the pattern's own direction, so the same image column / row
    in the returning lines of a serpentine scan) of every line; `mod`: every sample k with k % mod == rem"""
    what, idx = entry["what"], entry.get("idx", 0)
    if what == "mod":
        m = max(1, entry.get("mod", 1))
        return {k for k in range(total_samples(acq)) if k % m == entry.get("rem", 0) % m}
    npat = len(acq["patterns"])
    pat = None if entry.get("pat") is None else entry["pat"] % npat
    out = set()
    for pi, li, pos, p in line_positions(acq):
        if pat is not None and pi != pat:
            continue
        if what == "line":
            if li == idx % len(p["lines"]):
                out.update(range(pos, pos + p["npix"]))
        elif what == "along":
            c = idx % p["npix"]
            out.add(pos + (p["npix"] - 1 - c if (p["serp"] and li % 2 == 1) else c))
        else:
            raise core.InternalError(f"bad nan plan entry {entry}")
    return out


def sample_values(case, n):
    """deterministic element values of the n samples (from the case's own value seed).  NaN samples: `nan_mod` (every
    element of every nan_mod-th sample), a sprinkle in single elements, and `nan_plan`: whole lines / pixel positions /
    strides that are NaN in the listed elements only (a detector that dropped out for one element)"""
    rng = random.Random(case["vseed"])
    names = ELEMENTS[: case["nelem"]]
    data = np.empty(n, dtype=[(nm, np.float64) for nm in names])
    mod, rem = case["nan_mod"], case["nan_rem"]
    for k in range(n):
        allnan = mod != 0 and k % mod == rem
        for nm in names:
            if allnan:
                v = math.nan
            else:
                r = rng.random()
                v = math.nan if (r < 0.03 and len(names) > 1 and nm != names[0]) else \
                    float(rng.randint(0, 10 ** 6)) / 8 if r < 0.6 else rng.random() * 1e4
                if case.get("special") and 0.6 <= r < 0.68:    # numbers that are not NaN: infinities, -0.0, tiny, huge
                    v = SPECIALS[int((r - 0.6) * 1000) % len(SPECIALS)]
            data[nm][k] = v
    skip = case["acq"]["skip"]
    for entry in case.get("nan_plan", []):
        elems = sorted({e % len(names) for e in entry["elems"]})
        for a in plan_samples(case["acq"], entry):
            if 0 <= a - skip < n:
                for e in elems:
                    data[names[e]][a - skip] = math.nan
    return data


CLOCKS = ["array", "array2d", "scalar", "npscalar"]
LAYOUTS = ["flat", "row", "rows", "col", "fortran", "strided"]
DTYPES = ["f8", "f4", "plain", "mixed", "be"]
SELFORMS = ["plain", "numpy", "tuple", "np32", "np0d"]
VIAS = ["path", "pathobj", "array", "arrayview"]
DEFAULTS = {"clock": "array", "layout": "flat", "layout_k": 0, "dtype": "f8", "selform": "plain", "precall": False,
            "delayform": "float"}
TEXT_DEFAULT = {"eol": "lf", "bom": False, "final_eol": True}

# wall-clock instants an acquisition may run across: the stamps of the log carry the date
BOUNDS = {"midnight": (2024, 7, 18), "month-end": (2024, 5, 1), "month-end-30": (2024, 7, 1), "year-end": (2025, 1, 1),
          "feb28-29-leap": (2024, 2, 29), "feb29-mar1": (2024, 3, 1), "feb28-mar1": (2025, 3, 1),
          "noon": (2024, 7, 17, 12), "hour": (2024, 7, 17, 14)}
DATE_MODES = ["in-line", "between-lines", "at-on", "at-off", "on-999", "off-999", "first-on-999"]
POISON = -12345.0
SPOT_WIDTH = 32                                                # characters of the Spot Size column the reader keeps (U32)
SPECIALS = [math.inf, -math.inf, -0.0, 0.0, 5e-324, 1e30, -1e30, 1.0]


MAX_CANVAS = 250000


def canvas_estimate(acq, sel):
    """upper bound of the number of pixels of the image: bounding box of the selected rasters in units of the first
    selected pattern's spot size"""
    ps = [acq["patterns"][i] for i in selected(acq, sel)]
    if not ps or ps[0]["sxu"] <= 0 or ps[0]["syu"] <= 0:
        return 0
    ext = [(p["X"], p["X"] + (max(p["npix"], len(p["lines"])) + 1) * p["sxu"],
            p["Y"], p["Y"] + (max(p["npix"], len(p["lines"])) + 1) * p["syu"]) for p in ps]
    w = (max(e[1] for e in ext) - min(e[0] for e in ext)) // ps[0]["sxu"] + 2
    h = (max(e[3] for e in ext) - min(e[2] for e in ext)) // ps[0]["syu"] + 2
    return w * h


def selected_lines(rows, selpat):
    """(pattern index, On time, Off time) in ms of laser clock for every line of the selected patterns, in log order"""
    out, pi = [], -1
    for i, r in enumerate(rows):
        if r["seq"] != -1:
            pi += 1
        if r["on"] and pi in selpat and i + 1 < len(rows):
            out.append((pi, r["time"], rows[i + 1]["time"]))
    return out


def base_time(case, rows, selpat):
    """wall-clock time of laser clock 0.  A `date` plan puts a boundary (midnight, a month's / year's end, the leap day,
    noon, a full hour) at a chosen place of the imported lines: inside line k, between lines k and k+1, exactly on an
    On / Off row (stamp 00:00:00.000), or one millisecond after it (stamp 23:59:59.999)"""
    plan = case.get("date")
    b = case["base"]
    plain = datetime.datetime(*b[:6], b[6] * 1000)
    lines = selected_lines(rows, selpat)
    if plan is None or not lines:
        return plain
    if plan["kind"] not in BOUNDS or plan["mode"] not in DATE_MODES:
        raise core.InternalError(f"bad date plan {plan}")
    k, frac, mode = plan["k"] % len(lines), Fraction(plan["frac"] % 8, 8), plan["mode"]
    _, on, off = lines[k]
    if mode == "between-lines" and k + 1 < len(lines):
        nxt = lines[k + 1][1]
        at = min(nxt, off + 1 + int(frac * (nxt - off))) if nxt > off else nxt
    elif mode in ("in-line", "between-lines"):
        at = on + 1 + int(frac * (off - on))
    elif mode == "first-on-999":
        at = lines[0][1] + 1
    else:
        at = {"at-on": on, "at-off": off, "on-999": on + 1, "off-999": off + 1}[mode]
    return datetime.datetime(*BOUNDS[plan["kind"]]) - datetime.timedelta(milliseconds=at)


def date_features(case, rows, selpat, base):
    """what the stamps of the imported lines really do (whether planned or by accident of the start time)"""
    f = set()
    lines = selected_lines(rows, selpat)
    if not lines:
        return f

    def at(ms):
        return base + datetime.timedelta(milliseconds=ms)

    for i, (pi, on, off) in enumerate(lines):
        if at(on).date() != at(off).date():
            f.add("date:crossed-inside-a-line")
        if i + 1 < len(lines) and at(off).date() != at(lines[i + 1][1]).date():
            f.add("date:crossed-between-" + ("lines" if lines[i + 1][0] == pi else "patterns"))
        for t in (at(on), at(off)):
            if (t.hour, t.minute, t.second) == (0, 0, 0) and t.microsecond == 0:
                f.add("date:stamp-00:00:00.000")
            if (t.hour, t.minute, t.second) == (23, 59, 59):
                f.add("date:stamp-23:59:59.9xx")
    first, last = at(lines[0][1]), at(lines[-1][2])
    if first.date() != last.date():
        f.add("date:import-spans-two-dates")
        f.add("date:" + ("year" if first.year != last.year else "month" if first.month != last.month else "day") + "-changes")
        if (last - first).total_seconds() >= 86400:
            f.add("date:import-longer-than-24h")
        if (first.month, first.day) == (2, 29) or (last.month, last.day) == (2, 29):
            f.add("date:leap-day")
    else:
        f.add("date:one-day")
    if case.get("date") is not None:
        f.add("boundary:" + case["date"]["kind"])
    return f


def opt(case, key):
    """fields added after the first corpus files were written default to the plain call"""
    return case.get(key, DEFAULTS[key])


def signal_count(acq):
    """number of samples of the signal: samples skip .. skip+take of the acquisition"""
    return max(0, min(acq["take"], total_samples(acq) - acq["skip"]))


def layout_shape(layout, k, n):
    """shape of the array that holds the n consecutive samples (C order)"""
    if layout in ("flat", "strided"):
        return [n]
    if layout == "row":
        return [1, n]
    if layout == "col":
        return [n, 1]
    divs = [d for d in range(2, n) if n % d == 0]              # rows of consecutive samples, as importers return
    r = divs[k % len(divs)] if divs else 1
    return [r, n // r]


def lay_out(flat, layout, shape, poison):
    """the same n values in the array the caller holds; `flat` is 1-d and C contiguous"""
    if layout == "flat":
        return flat
    if layout == "strided":                                    # every second entry of a larger buffer
        buf = np.empty(2 * flat.size, dtype=flat.dtype)
        buf[1::2] = poison
        buf[::2] = flat
        return buf[::2]
    arr = flat.reshape(shape)
    return np.asfortranarray(arr) if layout == "fortran" else arr


def edit_in_place(obj, undo, depth=0):
    """what a caller may do with the objects a call returned: arrays are overwritten / rescaled in place, lists likewise,
    containers are walked.  Every edit is recorded in `undo` (kind, object, previous content)"""
    if depth > 4:
        return
    if isinstance(obj, np.ndarray):
        if obj.size == 0 or not obj.flags.writeable:
            return
        undo.append(("array", obj, obj.copy()))
        if obj.dtype.names is not None:
            for nm in obj.dtype.names:
                if obj.dtype[nm].kind == "f":
                    obj[nm][...] = POISON
        elif obj.dtype.kind == "f":
            if obj.ndim >= 2:
                obj[...] = POISON
            else:
                obj *= 2.0
        elif obj.dtype.kind in "iu":
            obj *= 2
    elif isinstance(obj, dict):
        for v in list(obj.values()):
            edit_in_place(v, undo, depth + 1)
    elif isinstance(obj, (list, tuple)):
        if isinstance(obj, list):
            undo.append(("list", obj, list(obj)))
            for i, v in enumerate(obj):
                if isinstance(v, (int, float)) and not isinstance(v, bool):
                    obj[i] = v * 2
        for v in obj:
            if isinstance(v, (np.ndarray, dict, list, tuple)):
                edit_in_place(v, undo, depth + 1)


class C08(Prop):
    id = "C08"
    anchored = ["src/pewlib/io/laser.py"]
    cases = {"quick": 250, "thorough": 6000}
    rule = ("rastered acquisitions rendered by the Lean specification: 1-3 logged patterns, each one of the 8 scan patterns "
            "(4 directions x uni/serpentine), 1..6 lines of 1..9 pixels (2 % far larger: 15-30 lines of 20-50 pixels), four-decimal "
            "stage origins (zero, negative, ~8e4 um), spot sizes 0.1/1.1/12.5/40/random four-decimal in square, rectangular and "
            "circular notation, laser-off gaps (0 ms .. 25 h) with and without off samples, lead-in/late start/early end of the "
            "signal (delay of either sign, also longer than a line), stage-move rows, selection None/int/list/tuple/numpy array "
            "(int64, int32, 0-d) at any position, squeeze on/off, 1-4 elements; "
            "the log text is written by the Lean specification (renderLog) with the wall-clock date chosen so that 30 % of the "
            "runs cross midnight, a month's / year's end, the leap day, noon or a full hour inside a line, between two lines or "
            "patterns, with rows stamped 00:00:00.000 / 23:59:59.999; LF or CRLF, with / without BOM and final line terminator; "
            "NaN samples in all elements (stride) and element-wise NaN plans (a whole line, one pixel position of every line, a "
            "stride NaN in the first / a middle / the last / all but one / all elements), infinities, -0.0, tiny and huge values; "
            "the signal handed over as (n,), (1,n), (k,n/k), (n,1), Fortran-ordered or strided array of float64 / float32 / mixed / "
            "big-endian records or plain floats, its clock as stamps (1-d or the data's shape, from 0 or epoch seconds) or - for "
            "signals sampled at a constant interval - as the acquisition time per sample (float / np.float64); delay as float or "
            "np.float64; log as str, Path, array or strided view of an array; optionally after an unjudged earlier call on the same "
            "objects; 25 % of the cases are HISTORIES of two or three judged synchronisations in one process (same objects with "
            "another selection / another log with the same spot size string / unrelated, all read from one path), the caller "
            "editing every mutable object each call returned (parameter arrays, the image) in place before the next; "
            "read with read_nwi_laser_log and synchronised with sync_data_nwi_laser_log; "
            "samples sit strictly inside dwell/gap slots; non-trivial = every case (each renders at least one On/Off pair); "
            "distinct by canonical case hash")
    trusted = ["np.genfromtxt splits the file into lines and the lines into comma-separated fields and converts the selected columns "
               "(ISO stamp -> datetime64[ms], int with -1 for blanks, float, U-strings cut to their width) as the Lean reader "
               "model parseLine says (compared on every case through the result of the synchronisation); "
               "np.searchsorted on a sorted array returns the number of entries below the value",
               "float evaluation of (x - origin)/spot for four-decimal coordinates is within 1e-9 of the exact quotient "
               "(theorem pixel_index_robust covers any perturbation below 5e-7); float sample/event times differ from the "
               "exact rationals by far less than the generated margin (>= 0.1 ms) between a sample and a laser event",
               "Python's datetime arithmetic places the chosen boundary instant (the harness's writer must reproduce the Lean "
               "specification's text line by line, else the run stops with an internal error)"]
    assumptions = ["ground truth is demanded only where the property's text defines it: one sample per pixel; every imported line "
                   "is recorded completely, not at all, or from some pixel to its end (late start of the signal = positive "
                   "delay); signals that stop in the middle of a line are not generated; selected patterns share one spot size and pixel grid "
                   "and do not overlap; the log lies between 1970 and the year 10000 and no spot size string is longer than the 32 "
                   "characters the reader keeps (textHyp); other cases are counted as undetermined",
                   "without squeeze the result is compared as the set of non-NaN pixels (row, column, element values) from "
                   "the reported origin; the NaN margin of the canvas is compared against the model only",
                   "a pixel whose sample is NaN in every element cannot be told from an unvisited one: with squeeze its row / column "
                   "goes when nothing else holds data there (specification squeezeSpec); NaN in some elements only never removes anything",
                   "argument mutation is not an observation point: before every call the signal, the stamps and a log array are "
                   "restored to the modelled input; state kept outside the arguments (caches, reused buffers, objects shared with "
                   "what a call returned) is what a history exposes; the caller's edits are undone at the end of a case",
                   "selections whose rasters would need an image of more than 250000 pixels (patterns with unrelated spot sizes "
                   "selected together) are not evaluated"]

    # ------------------------------------------------------------------ generation
    def gen_pattern(self, rng, seq, sxu, syu, circular, X, Y, big=False):
        nlines = rng.choice([1, 1, 2, 2, 3, 3, 4, 5, 6]) if not big else rng.randint(15, 30)
        npix = rng.choice([1, 1, 2, 2, 3, 4, 5, 7, 9]) if not big else rng.randint(20, 50)
        gapkind = rng.choice(["zero", "small", "mixed", "mixed", "long"])
        lines = []
        for _ in range(nlines):
            gap = {"zero": 0, "small": rng.choice([1, 2, 5]), "long": rng.choice([1000, 2500, 60000, 86400000, 90000001])}.get(
                gapkind, rng.choice([0, 1, 7, 50, 300, 1000]))
            lines.append({"gap": gap, "gap_samples": rng.choice([0, 0, 1, 2, 3]) if gap > 0 else 0,
                          "moves": rng.choice([0, 1, 2, 2])})
        return {"seq": seq, "dir": rng.choice(DIRS), "serp": rng.random() < 0.5, "X": X, "Y": Y, "sxu": sxu, "syu": syu,
                "circular": circular, "npix": npix, "dwell": rng.choice([1, 2, 5, 10, 13, 40, 250]), "lines": lines}

    def gen_spot(self, rng):
        while True:
            kind = rng.choice(["square", "rect", "circ"])
            sxu = rng.choice(SPOTS) if rng.random() < 0.7 else rng.randint(1000, 999999)
            syu = sxu if kind != "rect" else (rng.choice(SPOTS) if rng.random() < 0.7 else rng.randint(1000, 999999))
            if rng.random() < 0.12:
                # spot size strings of 17..32 characters: large rectangular spots with fractional sizes
                # ("1000.25 x 1000.25", "12345.6789 x 2345.0001", up to nine integer digits)
                kind, hi = "rect", rng.choice([10 ** 8, 10 ** 8, 10 ** 9, 10 ** 13])
                sxu, syu = rng.randint(hi // 10, hi - 1), rng.randint(hi // 10, hi - 1)
                if rng.random() < 0.3:
                    sxu = syu = 10002500
            if spot_len(sxu, syu, kind == "circ") <= SPOT_WIDTH:   # the reader keeps 32 characters of the spot size
                return sxu, syu, kind == "circ"

    def gen_origin(self, rng):
        k = rng.choice(["zero", "neg", "stage", "stage", "stage", "small"])
        if k == "zero":
            return 0
        if k == "neg":
            return -rng.randint(1, 5 * 10 ** 8)
        if k == "small":
            return rng.randint(1, 99999)
        return rng.randint(10 ** 7, 10 ** 9)                   # 1e3 .. 1e5 um with four decimals

    def generate(self, rng, tier):
        case = self.generate_one(rng, tier)
        # HISTORY: one or two earlier synchronisations in the same process - of the same log and signal objects with
        # another selection, of another acquisition logged with the same spot size string, or of an unrelated one.
        # After each call the caller edits every mutable object that call returned (parameter arrays, the image) in
        # place.  Each call is judged against the ground truth of its own inputs.
        if rng.random() < 0.25:
            p0 = case["acq"]["patterns"][selected(case["acq"], case["sel"])[0]]
            hist = []
            for _ in range(rng.choice([1, 1, 2])):
                kind = rng.choice(["same", "same", "spot", "spot", "diff"])
                if kind == "same":
                    h = copy.deepcopy(case)
                    # another selection among the patterns that share the pixel grid (the others may lie anywhere)
                    seqs = [h["acq"]["patterns"][i]["seq"] for i in selected(h["acq"], h["sel"])]
                    h["sel"] = rng.choice([seqs[0], [seqs[-1]], seqs, list(reversed(seqs)), h["sel"]])
                    h["squeeze"] = rng.random() < 0.5
                    h["precall"] = False
                elif kind == "spot":
                    h = self.generate_one(rng, tier, spot=(p0["sxu"], p0["syu"], p0["circular"]))
                else:
                    h = self.generate_one(rng, tier)
                hist.append(h)
            case["history"] = hist
        return case

    def generate_one(self, rng, tier, spot=None):
        npat = rng.choice([1, 1, 1, 2, 2, 3])
        sxu, syu, circ = self.gen_spot(rng) if spot is None else spot
        X0, Y0 = self.gen_origin(rng), self.gen_origin(rng)
        seqs, s = [], rng.choice([rng.randint(1, 4), rng.randint(1, 4), rng.randint(5, 300)])
        for _ in range(npat):
            seqs.append(s)
            s += rng.randint(1, 3)
        # which patterns are imported
        if npat == 1:
            selidx = [0]
            sel = rng.choice([None, seqs[0], [seqs[0]], [seqs[0], seqs[0] + 7]])
        else:
            mode = rng.choice(["all", "one", "one", "some"])
            if mode == "all":
                selidx, sel = list(range(npat)), None
            elif mode == "one":
                i = rng.randrange(npat)
                selidx, sel = [i], rng.choice([seqs[i], [seqs[i]]])
            else:
                selidx = sorted(rng.sample(range(npat), rng.randint(1, npat)))
                sel = [seqs[i] for i in selidx]
                rng.shuffle(sel)
        # selected patterns sit on one pixel grid without overlapping; the others are anywhere with any spot
        patterns, cx = [], 0
        order = list(range(npat))
        if rng.random() < 0.5:
            order.reverse()                                   # later patterns at lower coordinates
        slots = {}
        for k in order:
            slots[k] = cx
            cx += 12 + rng.randint(0, 3)
        for k in range(npat):
            if k in selidx:
                p = self.gen_pattern(rng, seqs[k], sxu, syu, circ, X0 + slots[k] * sxu, Y0 + rng.randint(0, 3) * syu,
                                     big=(npat == 1 and rng.random() < 0.02))
            else:
                a, b, c = self.gen_spot(rng) if rng.random() < 0.6 else (sxu, syu, circ)
                p = self.gen_pattern(rng, seqs[k], a, b, c, X0 + rng.randint(-40, 40) * 12345, Y0 + rng.randint(-40, 40) * 12345)
            patterns.append(p)
        acq = {"patterns": patterns, "phase": core.rat(rng.choice([Fraction(1, 2), Fraction(1, 2), Fraction(1, 4), Fraction(3, 4),
                                                                    Fraction(1, 3), Fraction(1, 10), Fraction(9, 10)])),
               "tail_gap": rng.choice([0, 0, 10, 500]), "tail_samples": rng.choice([0, 1, 3]),
               "skip": 0, "take": 0,
               "t0": core.rat(rng.choice([Fraction(0), Fraction(69, 4), Fraction(rng.randint(0, 10 ** 7), 1000),
                                          Fraction(rng.randint(0, 10 ** 9), 10 ** 6),
                                          Fraction(1721221978112 + rng.randint(0, 10 ** 9), 1000)]))}
        # lead-in before the first firing: a gap on the very first line (a negative delay, possibly longer than a line)
        if rng.random() < 0.5:
            patterns[0]["lines"][0]["gap"] = rng.choice([3, 250, 1000, 20000])
            patterns[0]["lines"][0]["gap_samples"] = rng.choice([1, 2, 5, 12])
        # a signal sampled at a constant interval (the only kind a caller can describe by the acquisition time per
        # sample): one dwell time for all patterns, every laser-off gap a whole number of sample intervals
        uniform = rng.random() < 0.4
        if uniform:
            dwell = patterns[0]["dwell"]
            for p in patterns:
                p["dwell"] = dwell
                for ln in p["lines"]:
                    gs = 0 if ln["gap"] == 0 else max(1, ln["gap_samples"]) if rng.random() < 0.7 else rng.choice([4, 9, 25])
                    ln["gap"], ln["gap_samples"] = gs * dwell, gs
            acq["tail_gap"] = acq["tail_samples"] * dwell
        cuts = valid_cuts(acq, sel)
        total = cuts[-1]
        window = rng.choice(["full", "full", "late", "early", "both", "any"])
        lo, hi = 0, total
        if window in ("late", "both", "any"):
            # a positive delay of any size: the signal may begin in the middle of a line
            lo = rng.choice(cuts[:-1]) if rng.random() < 0.5 else rng.randrange(total)
        if window in ("early", "both", "any"):
            hi = rng.choice([c for c in cuts if c > lo])
        acq["skip"], acq["take"] = lo, hi - lo
        # how the caller holds the signal and describes its clock
        layout = rng.choice(["flat", "flat", "row", "rows", "rows", "col", "fortran", "strided"])
        if uniform:
            clock = rng.choice(["scalar", "scalar", "scalar", "npscalar", "array", "array2d"])
        else:
            clock = rng.choice(["array", "array", "array2d"])
        extra = {"clock": clock, "layout": layout, "layout_k": rng.randrange(8),
                 "dtype": rng.choice(["f8", "f8", "f8", "f8", "f4", "f4", "plain", "plain", "mixed", "be"]),
                 "selform": rng.choice(["plain", "plain", "numpy", "numpy", "tuple", "np32", "np0d"]), "precall": rng.random() < 0.15,
                 "delayform": rng.choice(["float", "float", "np"])}
        nelem = rng.choice([1, 2, 2, 3, 3, 4])
        case = {**extra, "acq": acq, "sel": sel, "squeeze": rng.random() < 0.5,
                "nan_mod": rng.choice([0, 0, 0, 0, 3, 4, 7, 1]) if rng.random() < 0.9 else 2, "nan_rem": 0,
                "nelem": nelem, "vseed": rng.randint(0, 2 ** 31),
                "base": [rng.choice([2024, 2025]), rng.randint(1, 12), rng.randint(1, 28), rng.choice([0, 11, 13, 23]),
                         rng.choice([0, 12, 59]), rng.choice([0, 58, 59]), rng.choice([0, 112, 999])],
                "via": rng.choice(["path", "pathobj", "array", "array", "arrayview"]),
                "text": {"eol": rng.choice(["lf", "crlf", "crlf"]), "bom": rng.random() < 0.1, "final_eol": rng.random() < 0.85}}
        if rng.random() < 0.2:
            case["special"] = True
        # the run crosses a date (or noon / a full hour) somewhere in the imported lines
        if rng.random() < 0.3:
            case["date"] = {"kind": rng.choice(["midnight"] * 4 + list(BOUNDS)), "mode": rng.choice(DATE_MODES),
                            "k": rng.randrange(12), "frac": rng.randrange(8)}
        # NaN samples that differ between the elements: a whole line / one pixel position of every line / a stride of
        # samples is NaN in the first, a middle, the last, several or all elements
        if rng.random() < 0.4:
            case["nan_mod"] = rng.choice([0, 0, 0, case["nan_mod"]])
            case["nan_plan"] = [self.gen_nan_entry(rng, nelem, npat) for _ in range(rng.choice([1, 1, 2, 3]))]
        return case

    def gen_nan_entry(self, rng, nelem, npat):
        which = rng.choice(["first", "first", "last", "middle", "but-first", "but-last", "all"])
        elems = {"first": [0], "last": [nelem - 1], "middle": [nelem // 2], "but-first": list(range(1, nelem)) or [0],
                 "but-last": list(range(nelem - 1)) or [0], "all": list(range(nelem))}[which]
        what = rng.choice(["line", "line", "line", "along", "along", "mod"])
        e = {"elems": elems, "what": what, "idx": rng.randrange(12), "pat": None if rng.random() < 0.6 else rng.randrange(npat)}
        if what == "mod":
            e["mod"], e["rem"] = rng.choice([2, 3, 5]), rng.randrange(5)
        return e

    def simple(self, d, serp, nlines, npix, X=0, Y=0, sxu=10000, syu=10000, circ=False, gap=10, gs=1, squeeze=False, sel=None,
               skip=0, take=None, seq=1, **extra):
        p = {"seq": seq, "dir": d, "serp": serp, "X": X, "Y": Y, "sxu": sxu, "syu": syu, "circular": circ, "npix": npix,
             "dwell": 10, "lines": [{"gap": gap, "gap_samples": gs if gap else 0, "moves": 2} for _ in range(nlines)]}
        acq = {"patterns": [p], "phase": core.rat(Fraction(1, 2)), "tail_gap": 10, "tail_samples": 1, "skip": skip, "take": 0,
               "t0": core.rat(0)}
        acq["take"] = (total_samples(acq) - skip) if take is None else take
        return {**DEFAULTS, "acq": acq, "sel": sel, "squeeze": squeeze, "nan_mod": 0, "nan_rem": 0, "nelem": 2, "vseed": 7,
                "base": [2024, 7, 17, 13, 12, 58, 112], "via": "path", **extra}

    def two_patterns(self, d1, d2, **extra):
        """two logged patterns on one pixel grid (numbered 2 and 5), the second one 12 pixels further along x"""
        a = self.simple(d1, True, 2, 3, seq=2, **extra)
        b = self.simple(d2, False, 3, 2, seq=5, X=12 * 10000)
        a["acq"]["patterns"].append(b["acq"]["patterns"][0])
        a["acq"]["take"] = total_samples(a["acq"])
        return a

    def targeted(self, tier):
        for d in DIRS:
            for serp in (False, True):
                yield self.simple(d, serp, 3, 4)
                yield self.simple(d, serp, 1, 1)
                yield self.simple(d, serp, 2, 2, squeeze=True)
                yield self.simple(d, serp, 3, 2, gap=0)
        # the repaired truncation: origin 80394.6132, spot 1.1, 32 pixels (DESIGN 5.8)
        yield self.simple("lr", False, 2, 32, X=803946132, Y=348240754, sxu=11000, syu=11000)
        yield self.simple("tb", True, 2, 32, X=348240754, Y=803946132, sxu=11000, syu=11000, circ=True)
        yield self.simple("rl", True, 3, 7, X=85677972, Y=348240754, sxu=1000, syu=125000)
        # signal starts after the first line / ends before the last line
        yield self.simple("lr", True, 3, 4, skip=5, take=None)
        yield self.simple("bt", False, 3, 4, skip=0, take=10)
        # signal starts in the middle of the first / second line (positive delay)
        for d in DIRS:
            yield self.simple(d, True, 3, 4, skip=3, take=None)
            yield self.simple(d, False, 2, 5, skip=9, take=None)
        # every way of handing over the signal x every way of giving its clock (gap = whole sample intervals: the
        # signal is sampled at a constant interval, so the acquisition time per sample describes it)
        for i, layout in enumerate(LAYOUTS):
            for j, clock in enumerate(CLOCKS):
                d = DIRS[(i + j) % 4]
                yield self.simple(d, (i + j) % 2 == 1, 3, 4, gap=20, gs=2, layout=layout, clock=clock, layout_k=i + j,
                                  dtype=DTYPES[(i + 2 * j) % 5], via=VIAS[(i + j) % 4], selform=SELFORMS[(i + j) % 5],
                                  sel=[None, 1, [1], [9, 1]][(i + 2 * j) % 4], delayform=["float", "np"][j % 2],
                                  squeeze=(i % 2 == 0), precall=(j == i % 4))
        # a raster far larger than the others (sizes above any small threshold)
        yield self.simple("rl", True, 23, 41, gap=10, gs=1, squeeze=True, nelem=1)
        # a signal of a single sample, and a two-sample one, with the clock as a float
        yield self.simple("lr", False, 1, 1, gap=0, gs=0, take=1, clock="scalar", layout="row")
        yield self.simple("bt", False, 1, 2, gap=0, gs=0, take=2, clock="npscalar", layout="col", dtype="plain")
        # the run crosses midnight / a month's or year's end / the leap day / noon / a full hour: inside a line, between
        # two lines, between two patterns, with a row stamped 00:00:00.000 or 23:59:59.999
        kinds = list(BOUNDS)
        for i, mode in enumerate(DATE_MODES):
            for j in range(3):
                yield self.simple(DIRS[(i + j) % 4], j == 1, 3, 3, gap=[10, 0, 2500][j], squeeze=(i + j) % 2 == 0,
                                  via=["path", "array", "pathobj"][(i + j) % 3], text={"eol": "crlf", "bom": False, "final_eol": True},
                                  date={"kind": kinds[(3 * i + j) % len(kinds)] if j else "midnight", "mode": mode, "k": i + j,
                                        "frac": 3 * i + j})
        for i, kind in enumerate(kinds):
            yield self.two_patterns(DIRS[i % 4], DIRS[(i + 1) % 4], sel=[None, 5, [2, 5]][i % 3],
                                    date={"kind": kind, "mode": "between-lines", "k": 1, "frac": i},
                                    via=["array", "path"][i % 2])
        yield self.simple("lr", False, 2, 2, gap=86400000, gs=1, date={"kind": "midnight", "mode": "in-line", "k": 0, "frac": 4})
        # text layer as the instrument writes it (CRLF) and its harmless variants
        for i, (eol, bom, fin) in enumerate([("crlf", False, True), ("crlf", True, False), ("lf", True, True), ("lf", False, False)]):
            yield self.simple(DIRS[i], i % 2 == 0, 2, 3, via=["path", "array"][i % 2], text={"eol": eol, "bom": bom, "final_eol": fin})
        # NaN samples that differ between the elements: a whole line / a pixel position of every line NaN in one element
        # only (first, middle, last), in all but one, in all; 1-4 elements; with and without squeeze
        i = 0
        for nelem in (1, 2, 3, 4):
            for which in ([0], [nelem - 1], [nelem // 2], list(range(1, nelem)) or [0], list(range(nelem))):
                for what in ("line", "along"):
                    i += 1
                    yield self.simple(DIRS[i % 4], i % 3 == 0, 3, 3, squeeze=i % 4 != 3, nelem=nelem, gap=[10, 0][i % 2],
                                      dtype=["f8", "f4"][i % 5 == 0],
                                      nan_plan=[{"elems": which, "what": what, "idx": i, "pat": None}])
        yield self.simple("tb", True, 3, 3, squeeze=True, nelem=2, special=True, dtype="f4")
        yield self.simple("lr", True, 4, 3, squeeze=True, nelem=3,
                          nan_plan=[{"elems": [0], "what": "line", "idx": 1, "pat": None},
                                    {"elems": [2], "what": "along", "idx": 0, "pat": None},
                                    {"elems": [1], "what": "mod", "mod": 2, "rem": 1, "idx": 0, "pat": None}])
        # spot size strings of 17, 21, 25 and 31 characters (the reader's field held 16 before /repo 134845c)
        yield self.simple("lr", False, 2, 3, sxu=10002500, syu=10002500)
        yield self.simple("bt", True, 3, 2, sxu=123456789, syu=23450001, X=-5 * 123456789, squeeze=True, via="array")
        yield self.simple("rl", True, 2, 4, sxu=1234567891, syu=9876543219, Y=7 * 9876543219)
        yield self.simple("tb", False, 2, 2, sxu=9999999999999, syu=1000000000001, via="pathobj")
        # HISTORY: two or three synchronisations in one process; the caller edits what each call returned in place
        a = self.simple("lr", False, 3, 4, sxu=400000, syu=400000)
        b = self.simple("rl", True, 2, 5, sxu=400000, syu=400000, X=1205000, Y=-3102500, squeeze=True, via="array")
        c = self.simple("tb", False, 2, 3, sxu=400000, syu=400000, circ=True, X=77, Y=5)
        d = self.simple("bt", True, 3, 2, sxu=11000, syu=125000)
        yield {**copy.deepcopy(b), "history": [a]}                                   # same spot string, another log
        yield {**copy.deepcopy(a), "history": [copy.deepcopy(a)]}                    # the very same objects again
        yield {**copy.deepcopy(c), "history": [c, copy.deepcopy(c)]}                 # circular notation, three calls
        yield {**copy.deepcopy(d), "history": [a, b]}                                # unrelated
        yield {**copy.deepcopy(a), "history": [d, b], "squeeze": True}
        e = self.two_patterns("lr", "bt", sel=5, via="array")
        yield {**copy.deepcopy(e), "history": [{**copy.deepcopy(e), "sel": [2]}, {**copy.deepcopy(e), "sel": None}]}
        yield {**copy.deepcopy(e), "via": "path", "sel": [2, 5], "history": [{**copy.deepcopy(e), "via": "path", "sel": 2}]}

    # ------------------------------------------------------------------ evaluation
    def evaluate(self, case, ctx):
        steps = [h for h in case.get("history", [])] + [case]
        if any("history" in h for h in steps[:-1]):
            raise core.InternalError("nested history")
        lg = logging.getLogger("pewlib.io.laser")             # "flattening" / "multiple spot sizes" warnings: not observed
        was_disabled, lg.disabled = lg.disabled, True
        env = {"tmp": ctx.tmpdir(), "objects": {}, "logs": {}, "undo": []}
        res = []
        try:
            for i, step in enumerate(steps):
                r = self.one(step, ctx, env, i)
                res.append(r)
                if i + 1 < len(steps) and r.get("returned") is not None:
                    # the caller works on what it got: every mutable object is edited in place
                    for obj in r["returned"]:
                        edit_in_place(obj, env["undo"])
        finally:
            # leave the process as a caller would who never touched the results: a case is judged on its own history only
            for kind, obj, old in reversed(env["undo"]):
                try:
                    if kind == "array":
                        obj[...] = old
                    else:
                        obj[:] = old
                except Exception:
                    pass
            lg.disabled = was_disabled
            ctx.cleanup()                                      # the synthetic logs are not needed any more
        for r in res:
            r.pop("returned", None)
        det = [r for r in res if not r["undetermined"]]
        feats = set(res[-1]["features"])
        if len(res) > 1:
            feats.add(f"history:calls:{len(res)}")
            feats |= res[-1]["relation"]
        if len(res) == 1:
            r = res[0]
            return outcome(r["impl"], r["model"], r["spec"], spec_ok=r["spec_ok"], model_ok=r["model_ok"],
                           undetermined=r["undetermined"], hyp=r["hyp"], features=feats)
        return outcome([r["impl"] for r in res], [r["model"] for r in res], [r["spec"] for r in res],
                       spec_ok=all(r["spec_ok"] for r in det), model_ok=all(r["model_ok"] for r in det),
                       undetermined=not det, hyp=all(r["hyp"] for r in res), features=feats if det else [])

    def one(self, case, ctx, env, index):
        """one judged synchronisation: returns impl / model / spec of this call and the objects it returned"""
        from pathlib import Path

        from pewlib.io import laser

        skipres = {"impl": {}, "model": {}, "spec": {}, "spec_ok": True, "model_ok": True, "undetermined": True, "hyp": False,
                   "features": set(), "relation": set(), "returned": None}
        acq, sel, squeeze = case["acq"], case["sel"], case["squeeze"]
        clock, layout, dtype = opt(case, "clock"), opt(case, "layout"), opt(case, "dtype")
        text = {**TEXT_DEFAULT, **case.get("text", {})}
        if clock not in CLOCKS or layout not in LAYOUTS or dtype not in DTYPES or opt(case, "selform") not in SELFORMS \
                or text["eol"] not in ("lf", "crlf") or not 1 <= case["nelem"] <= len(ELEMENTS) or case["via"] not in VIAS:
            raise core.InternalError(f"bad case options {clock} {layout} {dtype}")
        if canvas_estimate(acq, sel) > MAX_CANVAS:
            # patterns with unrelated spot sizes / positions selected together: no common pixel grid (outside the domain
            # of the ground truth) and an image of millions of pixels - not evaluated
            return {**skipres, "features": set()}
        n = signal_count(acq)
        shape = layout_shape(layout, opt(case, "layout_k"), n)
        scalar = clock in ("scalar", "npscalar")
        # the values of the signal are the harness's; the Lean side is told which samples are NaN in every element
        flat = sample_values(case, n)
        if dtype in ("f4", "mixed", "be"):                     # float32 records, float64 / float32 fields mixed, big-endian
            flat = flat.astype([(nm, {"f4": "<f4", "be": ">f8", "mixed": "<f4" if i % 2 == 0 else "<f8"}[dtype])
                                for i, nm in enumerate(flat.dtype.names)])
        names = flat.dtype.names if dtype != "plain" else flat.dtype.names[:1]
        isnan = [[bool(np.isnan(flat[nm][k])) for nm in names] for k in range(n)]
        allnan = [all(v) for v in isnan]
        toks = [[core.tok(flat[nm][k]) for nm in names] for k in range(n)]
        selpat = set(selected(acq, sel))
        if case.get("date") is not None:                       # the date is placed relative to the rows of the log
            r0 = ctx.driver.call("c08.rows", acq=acq, sel=sel)
            base = base_time(case, r0["rows"], selpat) if r0["rendered"] else base_time(case, [], selpat)
        else:
            base = base_time(case, [], selpat)
        base_ms = (base - datetime.datetime(1970, 1, 1)) // datetime.timedelta(milliseconds=1)
        rep = ctx.driver.call("c08.case", acq=acq, sel=sel, squeeze=squeeze, base=base_ms,
                              nan=[[k for k in range(n) if isnan[k][e]] for e in range(len(names))],
                              shape=shape, clock="interval" if scalar else "stamps")
        if not rep["rendered"]:
            # nothing to import (no On row in the selection, or an empty signal): outside the property
            return skipres
        if not rep["shape_ok"] or (scalar and rep["interval"] is None):
            # the signal was not sampled at a constant interval: no acquisition time per sample describes it
            return skipres
        rows = rep["rows"]
        rel = [unrat(t) for t in rep["times"]]
        if len(rel) != n:
            raise core.InternalError(f"signal of {len(rel)} samples rendered, {n} expected")
        delay = float(unrat(rep["delay"]))
        # the log is written by the Lean specification (`renderLog`); the harness's own writer must agree with it
        lines = gen_nwi.format_lines(rows, base)
        if lines[1:] != rep["lines"]:
            raise core.InternalError("log text of the Lean specification differs from the harness writer: "
                                     + repr([(a, b) for a, b in zip(lines[1:], rep["lines"]) if a != b][:2]))
        lines = lines[:1] + rep["lines"]

        # ---- the objects the caller holds: the same description gives the same objects within one history
        okey = core.canon([acq, case["nelem"], case["vseed"], case["nan_mod"], case["nan_rem"], case.get("nan_plan", []),
                           bool(case.get("special")),
                           dtype, layout, opt(case, "layout_k"), clock])
        relation = set()
        if okey in env["objects"]:
            data, times, keep = env["objects"][okey]
            relation.add("history:same-signal-object")
        else:
            if dtype == "plain":                               # a single element as a plain float array
                flat = np.ascontiguousarray(flat[names[0]])
            data = lay_out(flat, layout, shape, -1.0 if dtype == "plain" else tuple(-1.0 for _ in names))
            if scalar:
                dt = float(unrat(rep["interval"]))
                times = dt if clock == "scalar" else np.float64(dt)
            else:
                tflat = np.array([float(t) for t in rel], dtype=np.float64)
                if clock == "array2d":                         # stamps in the data's shape (a row when that is 1-d)
                    times = lay_out(tflat, layout if len(shape) == 2 else "row", shape if len(shape) == 2 else [1, n], -1.0)
                else:
                    times = lay_out(tflat, "strided" if layout == "strided" else "flat", [n], -1.0)
            keep = [data.copy(), None if scalar else times.copy()]
            env["objects"][okey] = (data, times, keep)
        lkey = core.canon([rows, base.isoformat(), text, case["via"]])
        impl = None
        if lkey in env["logs"]:
            log, logkeep, impl = env["logs"][lkey]
            relation.add("history:same-log-object")
        else:
            # one file name for all calls of a history: a log exported again to the same place is read again
            path = env["tmp"] / "LaserLog_synthetic.csv"
            gen_nwi.write_lines(path, lines, eol="\r\n" if text["eol"] == "crlf" else "\n", bom=text["bom"],
                                final_eol=text["final_eol"])
            via = case["via"]
            try:
                log = str(path) if via == "path" else Path(path) if via == "pathobj" else laser.read_nwi_laser_log(path)
                if via == "arrayview":                         # the log as a non-contiguous view of a larger record array
                    big = np.concatenate([log, log])
                    big[1::2] = log[::-1]
                    big[::2] = log
                    log = big[::2]
            except Exception as e:
                log = None
                impl = {"raises": type(e).__name__, "msg": str(e)[:200]}
            logkeep = log.copy() if isinstance(log, np.ndarray) else None
            if isinstance(log, np.ndarray):                    # a path stands for whatever the file holds when it is read
                env["logs"][lkey] = (log, logkeep, impl)
            elif index > 0:
                relation.add("history:log-file-" + ("unchanged" if env.get("text") == lkey else "rewritten"))
            env["text"] = lkey
        first = min(selpat) if selpat else None            # the spot size string the import reads
        spotstr = None if first is None else tuple(acq["patterns"][first][k] for k in ("sxu", "syu", "circular"))
        if index > 0:
            relation.add("history:same-spot-string" if spotstr in env.setdefault("spots", set()) else "history:other-spot-string")
        env.setdefault("spots", set()).add(spotstr)

        def restore():
            """argument mutation is not an observation point of C08: every call gets the modelled input"""
            for cur, old in ((data, keep[0]), (times, keep[1]), (log, logkeep)):
                if old is not None and isinstance(cur, np.ndarray) and cur.tobytes() != old.tobytes():
                    cur[...] = old

        def field(arr, nm):
            return arr if arr.dtype.names is None else arr[nm]

        returned = None
        if log is not None:
            try:
                form = opt(case, "selform")

                def seq_arg(x):
                    if isinstance(x, list):
                        return (np.array(x, dtype=int) if form == "numpy" else np.array(x, dtype=np.int32) if form == "np32"
                                else tuple(x) if form == "tuple" else list(x))
                    if x is None:
                        return None
                    return (np.int64(x) if form == "numpy" else np.int32(x) if form == "np32" else np.array(x) if form == "np0d"
                            else x)

                dly = np.float64(delay) if opt(case, "delayform") == "np" else delay

                restore()
                if opt(case, "precall"):
                    # an earlier import from the same objects (another selection, another delay); its result is not
                    # looked at.  Arguments it altered are restored: the observed call gets the modelled input.
                    other = None if sel is not None else [p["seq"] for p in acq["patterns"]][:1]
                    try:
                        laser.sync_data_nwi_laser_log(data, times, log, sequence=seq_arg(other), delay=dly + 0.0625,
                                                      squeeze=not squeeze)
                    except Exception:
                        pass
                    restore()
                sync, params = laser.sync_data_nwi_laser_log(data, times, log, sequence=seq_arg(sel), delay=dly, squeeze=squeeze)
                cells = []
                for r in range(sync.shape[0]):
                    for c in range(sync.shape[1]):
                        t = [core.tok(field(sync, nm)[r, c]) for nm in names]
                        if not all(math.isnan(field(sync, nm)[r, c]) for nm in names):
                            cells.append([r, c, t])
                impl = {"shape": list(sync.shape), "cells": cells,
                        "origin": [float(v).hex() for v in params["origin"]],
                        "spot": [float(v).hex() for v in np.asarray(params["spotsize"]).ravel()],
                        "delay": float(params["delay"]).hex()}
                returned = [sync, params]
            except Exception as e:  # the quantified inputs never raise
                impl = {"raises": type(e).__name__, "msg": str(e)[:200]}

        def conv(res):
            if "raises" in res:
                return {"raises": res["raises"]}
            cells = []
            for r, row in enumerate(res["pixels"]):
                for c, k in enumerate(row):
                    if k is not None and not allnan[k]:
                        cells.append([r, c, toks[k]])
            return {"shape": res["shape"], "cells": cells,
                    "origin": [float(Fraction(int(v), 10000)).hex() for v in res["origin"]],
                    "spot": [float(unrat(v)).hex() for v in res["spot"]], "delay": delay.hex()}

        model, spec = conv(rep["model"]), conv(rep["spec"])
        if "raises" in impl:
            model_ok = impl.get("raises") == model.get("raises")
            spec_ok = False
        else:
            model_ok = core.canon(impl) == core.canon(model)
            keys = ["cells", "origin", "spot", "delay"] + (["shape"] if squeeze else [])
            spec_ok = all(core.canon(impl.get(k)) == core.canon(spec.get(k)) for k in keys)
            if not squeeze:  # every ground-truth pixel must exist in the returned image
                spec_ok = spec_ok and impl["shape"][0] >= spec["shape"][0] and impl["shape"][1] >= spec["shape"][1]

        feats = self.features(case, delay, rep)
        feats |= date_features(case, rows, selpat, base)
        feats |= self.nan_features(case, rep, isnan)
        feats.add("text:" + text["eol"] + ("+bom" if text["bom"] else "") + ("" if text["final_eol"] else "+no-final-eol"))
        feats.add("layout:" + layout + ("" if len(shape) == 1 or layout in ("row", "col") else
                                        ":1xn" if shape[0] == 1 else ":kxm"))
        if scalar:
            feats.add("clock+layout:scalar+" + ("len=size" if shape[0] == n else "len<size"))
            feats.add("samples:" + ("1" if n == 1 else "2" if n == 2 else "3+"))
        # outside the theorems' hypotheses and not judged: no ground truth (truthHyp), a log that leaves 1970..9999, a spot
        # size string of more than the 32 characters the reader keeps (named restriction; 17..32 are ordinary cases since
        # the reader's field was widened in /repo 134845c)
        undet = not rep["hyp"]
        longest = max(spot_len(p["sxu"], p["syu"], p["circular"]) for p in acq["patterns"])
        if longest > 16:
            feats.add("spot-string:17-32-characters" if longest <= SPOT_WIDTH else "spot-string>32-characters")
        return {"impl": impl, "model": model, "spec": spec, "spec_ok": spec_ok, "model_ok": model_ok,
                "undetermined": undet, "hyp": rep["hyp"], "features": feats, "relation": relation, "returned": returned}

    def nan_features(self, case, rep, isnan):
        """which NaN structure the ground-truth image really has: a complete image row / column whose samples are NaN in
        the first / a middle / the last element only (that row / column was ablated: it stays), or in all elements"""
        f = set()
        ne = len(isnan[0]) if isnan else 0
        if any(any(v) and not all(v) for v in isnan):
            f.add("nan:differs-between-elements")
        if case.get("nan_plan"):
            f.add("nan:plan")
        sq = "+squeeze" if case["squeeze"] else ""
        img = rep["spec"]["pixels"]
        for kind, cells in [("row", r) for r in img] + [("column", list(c)) for c in zip(*img)]:
            ks = [k for k in cells if k is not None]
            if not ks:
                continue
            per = [all(isnan[k][e] for k in ks) for e in range(ne)]
            if all(per):
                f.add(f"nan:visited-{kind}:all-elements{sq}")
            elif any(per) and ne > 1:
                for e in range(ne):
                    if per[e]:
                        f.add(f"nan:visited-{kind}:{'first' if e == 0 else 'last' if e == ne - 1 else 'middle'}-element{sq}")
        return f

    def features(self, case, delay, rep):
        acq, sel = case["acq"], case["sel"]
        pats = acq["patterns"]
        selidx = selected(acq, sel)
        f = set()
        for i in selidx:
            p = pats[i]
            f.add(f"scan:{p['dir']}:{'serp' if p['serp'] and len(p['lines']) > 1 else 'uni'}")
            f.add("lines:" + (str(len(p["lines"])) if len(p["lines"]) <= 2 else "3+"))
            f.add("npix:" + (str(p["npix"]) if p["npix"] <= 2 else "3+"))
            f.add("spot:" + ("circ" if p["circular"] else "square" if p["sxu"] == p["syu"] else "rect"))
            f.add("spotval:" + (dec_str(p["sxu"]) if p["sxu"] in (1000, 11000, 125000) else "other"))
            f.add("origin:" + ("zero" if p["X"] == 0 else "neg" if p["X"] < 0 else "pos"))
            if any(l["gap"] == 0 for l in p["lines"][1:]):
                f.add("gap:zero")
            if any(l["gap"] > 0 and l["gap_samples"] > 0 for l in p["lines"]):
                f.add("gap:off-samples")
            if any(l["moves"] < 2 for l in p["lines"]):
                f.add("moves<2")
        f.add(f"patterns:{len(pats)}")
        if len(pats) > 1:
            f.add("sel:" + ("all" if sel is None else "list" if isinstance(sel, list) else "int"))
            if len(selidx) == 1:
                f.add("selpos:" + ("first" if selidx[0] == 0 else "last" if selidx[0] == len(pats) - 1 else "middle"))
        f.add("delay:" + ("neg" if delay < 0 else "zero" if delay == 0 else "pos"))
        if acq["skip"] > 0:
            f.add("signal:late-start" if acq["skip"] in valid_cuts(acq, sel) else "signal:starts-mid-line")
        if acq["skip"] + acq["take"] < total_samples(acq):
            f.add("signal:early-end")
        f.add("squeeze" if case["squeeze"] else "no-squeeze")
        if case["nan_mod"]:
            f.add("nan-samples")
        if case.get("special"):
            f.add("values:inf/-0.0/tiny/huge")
        if unrat(acq["t0"]) > 10 ** 9:
            f.add("signal-clock:epoch-seconds")
        f.add(f"elements:{case['nelem']}")
        f.add("via:" + case["via"])
        f.add("clock:" + opt(case, "clock"))
        f.add("dtype:" + opt(case, "dtype"))
        if rep.get("interval") is not None:
            f.add("sampling:uniform")
        if sel is not None:
            f.add("selform:" + opt(case, "selform"))
        if opt(case, "precall"):
            f.add("precall")
        f.add("delay-type:" + opt(case, "delayform"))
        if sum(len(pats[i]["lines"]) * pats[i]["npix"] for i in selidx) >= 400:
            f.add("size:400+pixels")
        if any(p["seq"] >= 5 for p in pats):
            f.add("seq>=5")
        return f

    # ------------------------------------------------------------------ shrinking
    def shrink(self, case):
        acq, sel = case["acq"], case["sel"]
        selidx = selected(acq, sel)
        hist = case.get("history", [])
        if hist:
            yield {k: v for k, v in copy.deepcopy(case).items() if k != "history"}
            for h in hist:
                yield copy.deepcopy(h)
            if len(hist) > 1:
                for i in range(len(hist)):
                    yield {**copy.deepcopy(case), "history": [copy.deepcopy(h) for j, h in enumerate(hist) if j != i]}
        for i, h in enumerate(hist):
            for hc in self.shrink(h):
                c = copy.deepcopy(case)
                c["history"][i] = hc
                yield c
        for k in ("date", "nan_plan", "text", "special"):
            if k in case:
                yield {kk: v for kk, v in copy.deepcopy(case).items() if kk != k}
        if len(case.get("nan_plan", [])) > 1:
            for i in range(len(case["nan_plan"])):
                c = copy.deepcopy(case)
                del c["nan_plan"][i]
                yield c

        def rebuilt(c):
            c["acq"]["skip"], c["acq"]["take"] = 0, total_samples(c["acq"])
            return c

        for i in range(len(acq["patterns"])):
            if len(acq["patterns"]) > 1 and not (selidx == [i]):
                c = copy.deepcopy(case)
                del c["acq"]["patterns"][i]
                yield rebuilt(c)
        for i, p in enumerate(acq["patterns"]):
            if len(p["lines"]) > 1:
                c = copy.deepcopy(case)
                c["acq"]["patterns"][i]["lines"].pop()
                yield rebuilt(c)
            if p["npix"] > 1:
                c = copy.deepcopy(case)
                c["acq"]["patterns"][i]["npix"] -= 1
                yield rebuilt(c)
            if any(l["gap"] or l["moves"] for l in p["lines"]):
                c = copy.deepcopy(case)
                for l in c["acq"]["patterns"][i]["lines"]:
                    l["gap"], l["gap_samples"], l["moves"] = 0, 0, 0
                yield rebuilt(c)
        if acq["skip"] or acq["take"] != total_samples(acq):
            yield rebuilt(copy.deepcopy(case))
        for k, v in (("squeeze", False), ("nan_mod", 0), ("nelem", 1)):
            if case[k] != v:
                yield {**copy.deepcopy(case), k: v}
        for k, v in DEFAULTS.items():
            if k in case and case[k] != v:
                yield {**copy.deepcopy(case), k: v}
        if case["via"] != "path":
            yield {**copy.deepcopy(case), "via": "path"}


PROP = C08()

if __name__ == "__main__":
    sys.exit(core.main(PROP, "harness.c08"))
